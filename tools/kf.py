#!/usr/bin/env python3
"""kf.py add ID PROP 'what' kinds(comma) tags(comma) [example]  |  kf.py fixed ID commit | kf.py list"""
import json,sys
P='/verif/known_findings.json'
d=json.load(open(P))
cmd=sys.argv[1]
if cmd=='add':
    _,_,id_,prop,what,kinds,tags=sys.argv[:7]
    ex=sys.argv[7] if len(sys.argv)>7 else ''
    d['findings']=[f for f in d['findings'] if f['id']!=id_]
    e={'id':id_,'property':prop,'status':'open','what':what,'kinds':[k for k in kinds.split(',') if k],'tags':[t for t in tags.split(',') if t]}
    if ex: e['example']=ex
    d['findings'].append(e)
elif cmd=='fixed':
    _,_,id_,commit=sys.argv[:4]
    for f in d['findings']:
        if f['id']==id_:
            f['status']='fixed'; f['commit']=commit
            line=f"fixed: property={f['property']} {commit} {f['what']}"
            if line not in d['fixed']: d['fixed'].append(line)
elif cmd=='fixedline':
    _,_,prop,commit,what=sys.argv[:5]
    line=f"fixed: property={prop} {commit} {what}"
    if line not in d['fixed']: d['fixed'].append(line)
elif cmd=='list':
    for f in d['findings']: print(f['id'],f['status'],f['property'],f['kinds'],f['tags'],'-',f['what'])
    sys.exit(0)
d['findings'].sort(key=lambda f:f['id'])
json.dump(d,open(P,'w'),indent=1)
