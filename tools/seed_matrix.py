#!/usr/bin/env python3
"""Runs every registered quick check against every seeded defect, each applied to a scratch worktree of /repo
(never to /repo itself). Writes /verif/seeded/MATRIX.json and MATRIX.md.
usage: seed_matrix.py [workers] [seed-ids...]"""
import json, os, subprocess, sys, glob, threading, queue, re, shutil
BASE = os.path.dirname(os.path.dirname(os.path.abspath(__file__)))  # the /verif tree this script lives in (a vp-run snapshot works too)
workers = int(sys.argv[1]) if len(sys.argv) > 1 else 3
REG = '--regressions' in sys.argv
FOCUS = '--focus' in sys.argv
only = [a for a in sys.argv[2:] if not a.startswith('--')]
OUTNAME = 'REGRESSIONS' if REG else 'MATRIX'
WOFF = 10 if REG else 0
CHECKS = [c['property_id'] for c in json.load(open(BASE + '/MANIFEST.json'))['checks']]
seeds = sorted(d for d in glob.glob(BASE + '/seeded/*/') if os.path.exists(d + 'patch.diff'))
if REG: seeds = sorted(glob.glob(BASE + '/seeded/regressions/revert-*.diff'))
if only: seeds = [s for s in seeds if os.path.basename(s.rstrip('/')).replace('.diff','') in only]
prev = {}
if only and os.path.exists(BASE + f'/seeded/{OUTNAME}.json'): prev = json.load(open(BASE + f'/seeded/{OUTNAME}.json'))
q = queue.Queue()
for s in seeds: q.put(s)
results = {}
lock = threading.Lock()
def work(w):
    w += WOFF
    repo = f'/tmp/seedrepo/r{w}'; out = f'/tmp/seedrepo/v{w}'
    subprocess.run(f'git -C /repo worktree remove --force {repo} 2>/dev/null; git -C /repo worktree prune; git -C /repo worktree add --detach {repo} HEAD', shell=True, capture_output=True)
    while True:
        try: s = q.get_nowait()
        except queue.Empty: break
        sid = os.path.basename(s.rstrip('/')).replace('.diff', '')
        patch = s if s.endswith('.diff') else s + 'patch.diff'
        subprocess.run(f'git -C {repo} checkout -q -- . && git -C {repo} clean -fdq', shell=True)
        r = subprocess.run(f'git -C {repo} apply {patch}', shell=True, capture_output=True, text=True)
        row = {}
        if r.returncode != 0:
            row = {'_apply': 'FAILED ' + r.stderr[:200]}
        else:
            own = sid.split('-')[0]
            if REG:
                own = next((e['property'] for e in json.load(open(BASE + '/seeded/regressions/index.json')) if e['patch'] == os.path.basename(patch)), 'C01')
            todo = CHECKS if not FOCUS else [c for c in CHECKS if c in {own, 'C01', 'C02', 'C15', 'C17'}]
            for c in todo:
                shutil.rmtree(out, ignore_errors=True)
                env = dict(os.environ, VERIF_REPO=repo, VERIF_OUT=out, VERIF_DIR=BASE)
                p = subprocess.run([BASE + '/run.sh', c, 'quick'], capture_output=True, text=True, env=env, cwd=BASE)
                kinds = sorted(set(re.findall(r'kind=([\w-]+)', p.stdout)))
                nv = len(re.findall(r'^VIOLATION', p.stdout, re.M))
                m = re.search(r'new_violations=(\d+)', p.stdout)
                row[c] = {'rc': p.returncode, 'violations': int(m.group(1)) if m else nv, 'kinds': kinds[:4]}
        subprocess.run(f'git -C {repo} checkout -q -- . && git -C {repo} clean -fdq', shell=True)
        with lock:
            results[sid] = row
            json.dump(dict(prev, **results), open(BASE + f'/seeded/{OUTNAME}.json', 'w'), indent=1, sort_keys=True)
        print(sid, {c: v['rc'] for c, v in row.items() if isinstance(v, dict) and v['rc'] != 0}, flush=True)
    subprocess.run(f'git -C /repo worktree remove --force {repo}; rm -rf {out} {BASE}/bin/mc._tmp_seedrepo_r{w}', shell=True, capture_output=True)
ts = [threading.Thread(target=work, args=(i + 1,)) for i in range(workers)]
[t.start() for t in ts]; [t.join() for t in ts]
# merge with previous results when only a subset was run
results = dict(prev, **results)
lines = ['| seeded defect | breaks | caught by (quick checks that exit 1 with a VIOLATION line) | silent |', '|---|---|---|---|']
for sid in sorted(results):
    row = results[sid]
    caught = [f"{c} ({','.join(v['kinds'])})" for c, v in row.items() if isinstance(v, dict) and v['rc'] == 1]
    other = [f"{c}:rc{v['rc']}" for c, v in row.items() if isinstance(v, dict) and v['rc'] not in (0, 1)]
    lines.append(f"| {sid} | {sid.split('-')[0] if not REG else 'see regressions/index.json'} | {'; '.join(caught) or '**none**'} | {len([1 for v in row.values() if isinstance(v, dict) and v['rc']==0])} checks{(' ; ' + ' '.join(other)) if other else ''} |")
open(BASE + f'/seeded/{OUTNAME}.md', 'w').write('\n'.join(lines) + '\n')
print('done')
