#!/bin/bash
# usage: tools/benign_check.sh <slot> <patch.diff> [checks...]  — applies a behaviour-preserving variant to a scratch worktree
# and runs the quick checks (default: all 18) against it from a snapshot of /verif; every check must exit 0.
SLOT=$1; PATCH=$2; shift 2
CHECKS="$@"; [ -z "$CHECKS" ] && CHECKS="C01 C02 C03 C04 C05 C06 C07 C08 C09 C10 C11 C12 C13 C14 C15 C16 C17 C18"
R=/tmp/seedrepo/r$SLOT; O=/tmp/seedrepo/v$SLOT; S=/tmp/seedrepo/snap$SLOT
rm -rf $S $O; mkdir -p $S
rsync -a --exclude .git --exclude replays --exclude bin --exclude seeded --exclude 'mc/go.alt.*' /verif/ $S/
git -C /repo worktree remove --force $R 2>/dev/null; git -C /repo worktree prune; git -C /repo worktree add --detach $R HEAD >/dev/null 2>&1
if ! git -C $R apply $PATCH 2>/dev/null; then echo "$PATCH APPLY-FAILED"; else
for prop in $CHECKS; do
  out=$(VERIF_DIR=$S VERIF_REPO=$R VERIF_OUT=$O $S/run.sh $prop quick 2>&1); rc=$?
  if [ $rc -ne 0 ]; then mkdir -p /tmp/benlogs/fail; cp -r $O/replays/$prop /tmp/benlogs/fail/$(basename $(dirname $(dirname $(dirname $PATCH))))-$(basename $(dirname $PATCH))-$prop 2>/dev/null; echo "$PATCH $prop rc=$rc $(echo "$out" | grep -o 'kind=[a-z-]*' | sort -u | tr '\n' ' ') :: $(echo "$out" | grep -m2 -A2 '^VIOLATION\|HARNESS' | tr '\n' ' ' | cut -c1-500)"; fi
done; echo "$PATCH done"; fi
git -C /repo worktree remove --force $R; rm -rf $O $S
