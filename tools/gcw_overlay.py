#!/usr/bin/env python3
"""gcw_overlay.py <gorgonia tensor module dir> <out dir>

gorgonia v0.9.24 hands array addresses around as uintptr in four places ((*Dense).Data, array.Data,
storage.AsByteSlice, storage.FromMemory). While only the uintptr refers to the array the garbage collector is free
to collect it, unless the caller keeps the owning tensor / slice reachable. This script derives, from the module's own
files, copies with ONE added statement per window: a full collection exactly inside the window ("the collector strikes
at the worst moment"), and writes <out>/overlay.json for `go build -overlay`. Together with GODEBUG=clobberfree=1 a
caller that lets the owner die reads 0xdeadbeef (or the runtime aborts with "found pointer to free object") on every
run instead of once in a few hundred processes. Fails loudly when the expected lines are not there."""
import json,os,sys
src,out=sys.argv[1],sys.argv[2]
os.makedirs(out,exist_ok=True)
STRIKE='runtime.GC() // verif: the collector strikes while only a uintptr refers to the array\n'
HOOK='verifGC() // verif: the collector strikes while only a uintptr refers to the array\n'
def patch(rel,edits,imp=True):
    s=open(os.path.join(src,rel)).read()
    for anchor,repl in edits:
        if s.count(anchor)!=1: sys.exit(f'gcw_overlay: {rel}: expected exactly one occurrence of {anchor!r}')
        s=s.replace(anchor,repl)
    if rel=='internal/storage/header.go':
        # FromScalar (consopt.go) hands AsByteSlice a slice that nobody else references - a hazard inside gorgonia that
        # no caller can avoid (window: a few instructions). The strike is about callers, so that one site uses an
        # unmodified copy of AsByteSlice.
        a=s.index('func AsByteSlice('); b=s.index('\n}\n',a)+3
        s+='\n// AsByteSliceQuiet is AsByteSlice as shipped (used by FromScalar only).\n'+s[a:b].replace('func AsByteSlice(','func AsByteSliceQuiet(').replace('\t'+HOOK,'')
    if not imp:
        # a package that does not import runtime anywhere cannot gain the import through an overlay: it calls a hook
        # variable instead, which the overlaid dense.go of the parent package points at runtime.GC
        s+='\n// VerifGC is set by the overlaid tensor package.\nvar VerifGC func()\n\nfunc verifGC() {\n\tif VerifGC != nil {\n\t\tVerifGC()\n\t}\n}\n'
    elif 'runtime.GC' in s and '\t"runtime"\n' not in s:
        if 'import (\n' not in s: sys.exit(f'gcw_overlay: {rel}: import block not found')
        s=s.replace('import (\n','import (\n\t"runtime"\n',1)
    dst=os.path.join(out,rel.replace('/','_'))
    open(dst,'w').write(s)
    return os.path.join(src,rel),dst
rep={}
for rel,edits in [
    ('dense.go',[('\tsliceT := reflect.SliceOf(t.t.Type)\n\tptr := unsafe.Pointer(&shdr)\n','\tsliceT := reflect.SliceOf(t.t.Type)\n\t'+STRIKE+'\tptr := unsafe.Pointer(&shdr)\n'),
                 ('\nfunc (t *Dense) Data() interface{} {','\nfunc init() { storage.VerifGC = runtime.GC }\n\nfunc (t *Dense) Data() interface{} {')]),
    ('consopt.go',[('\t\t\ttt.array.Header.Raw = storage.AsByteSlice(xv.Interface())\n','\t\t\ttt.array.Header.Raw = storage.AsByteSliceQuiet(xv.Interface())\n')]),
    ('array.go',[('\tsliceT := reflect.SliceOf(a.t.Type)\n\tptr := unsafe.Pointer(&shdr)\n','\tsliceT := reflect.SliceOf(a.t.Type)\n\t'+STRIKE+'\tptr := unsafe.Pointer(&shdr)\n')]),
    ('internal/storage/header.go',[
        ('\t\tCap:  xV.Cap() * int(xT.Size()),\n\t}\n\treturn *(*[]byte)(unsafe.Pointer(&hdr))\n','\t\tCap:  xV.Cap() * int(xT.Size()),\n\t}\n\t'+HOOK+'\treturn *(*[]byte)(unsafe.Pointer(&hdr))\n'),
        ('\t\tCap:  int(memsize),\n\t}\n\treturn *(*[]byte)(unsafe.Pointer(&hdr))\n','\t\tCap:  int(memsize),\n\t}\n\t'+HOOK+'\treturn *(*[]byte)(unsafe.Pointer(&hdr))\n')]),
]:
    a,b=patch(rel,edits,imp=not rel.startswith('internal/')); rep[a]=b
json.dump({'Replace':rep},open(os.path.join(out,'overlay.json'),'w'),indent=1)
