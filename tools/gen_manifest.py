#!/usr/bin/env python3
"""Regenerates /verif/MANIFEST.json from the table below (keeps it schema-valid at all times)."""
import json, subprocess, sys
ALL = [f"C{i:02d}" for i in range(1, 19)]
HOOK_COMMITS = ["c6d6b2e"]
E1NOTE = "Trusted: the reference interpreter /verif/mc/ref (plain loops written from the ONNX operator text, no code shared with gonnx/gorgonia), gorgonia At()/Data() for reading results. Verdict = no violation inside the stated box; the box contains every rank/extent-1/sign branch of the code."
# property -> (level, engine, technique, text, note, design_ref)
CHECKS = {
 "C14": ("exploration", "E1", "bounded-exhaustive enumeration of all ordered shape pairs on the real helpers vs index-arithmetic reference",
         "Every ordered pair of shapes of rank 0..4 with extents 1..3 (thorough: 1..4) is pushed through the real MultidirectionalBroadcast/UnidirectionalBroadcast and compared element by element with an independent index-arithmetic reference; sources are deep-snapshotted before/after. Exhaustive within the box, which contains every branch combination of the helpers (rank difference, extent==1, extent equality).",
         "Trusted: ref.BroadcastTo (20 lines of index arithmetic), gorgonia At()/Data() for reading results. Shapes beyond the box are only sampled (supplementary).", "DESIGN.md §3 (row C14)"),
 "C03": ("exploration", "E1", "bounded-exhaustive enumeration of operator x shape-pair x dtype x special-value pairs on the real operators vs per-element reference",
         "All 12 binary operators on every ordered pair of shapes of rank 0..4 (extents 1..3), every dtype the gate accepts, and all ordered pairs of a special-value alphabet (NaN payloads, +-Inf, +-0, subnormals, integer extremes) are executed through GetOperator/Init/ValidateInputs/Apply and through single-node Model.Run, and compared bit for bit with a per-element reference. The statement's three domains (must compute / compute-or-refuse / must refuse) are transcribed literally.",
         E1NOTE, "DESIGN.md §3 (row C03)"),
 "C07": ("exploration", "E1", "bounded-exhaustive enumeration of (shape, target/axes) requests incl. invalid ones, plus depth-2 operator-instance histories",
         "Every input shape of rank 0..4 (thorough 0..5) x every Reshape target over {-1,0,1,2,3,4,6}^(1..4), every Flatten axis in [-r-1,r+1], every Squeeze/Unsqueeze axes sequence (negative, unsorted, duplicate, out of range), Shape; valid requests must give the ONNX shape with identical element order, invalid ones must give an error (never a tensor, never a panic). Each case is additionally replayed on an operator instance that already served another request (history of depth 2).",
         E1NOTE, "DESIGN.md §3 (row C07)"),
 "C08": ("exploration", "E1", "bounded-exhaustive enumeration of permutations / axes / (start,end,step) triples / index assignments / target shapes on the real operators vs index-formula reference",
         "Transpose over all permutations (and invalid perms), Concat over 1..3 inputs x every axis x independent extents, Slice over every (start,end,step) in [-dim-2,dim+2] U {INT_MIN,INT_MAX} per axis with all spellings of axes/steps, Gather over every axis and ALL in-range index assignments for index ranks 0..2, Expand over every (input,target) shape pair; result must equal the ONNX index formula bit for bit, or be refused where the statement allows; invalid requests must be refused; never a panic. Plus depth-2 operator-instance histories.",
         E1NOTE, "DESIGN.md §3 (row C08)"),
 "C09": ("exploration", "E1", "bounded-exhaustive enumeration of axes / axes subsets / keepdims / tie and NaN placements / magnitude tuples on the real operators vs loop reference",
         "ArgMax over every axis x keepdims x every value tuple over {1,2,3,NaN} along the axis (all tie and NaN positions), ReduceMax/Min over every axes subset in three spellings (+absent, duplicate, out of range) x keepdims, Softmax/LogSoftmax over every axis x every magnitude tuple over {0,+-1,...,+-max}^n (n<=3); first-occurrence indices, exact shapes, int64 type, non-NaN finite normalised outputs vs a stable float64 reference. Plus depth-2 operator-instance histories.",
         E1NOTE, "DESIGN.md §3 (row C09)"),
 "C10": ("exploration", "E1", "exhaustive sweep of float bit patterns (thorough: all 2^32 float32 values per operator) + bounded-exhaustive shapes/slopes on the real operators vs Go math reference",
         "Every float operator is evaluated through the Operator API on a structured alphabet covering every binade, both signs, subnormals, +-0, +-Inf, NaN and function-domain boundaries (quick), and on ALL 2^32 float32 bit patterns (thorough), compared within 4 ulp (256 ulp for Sigmoid/Tanh evaluated in float32) with the Go math library; shape/dtype preservation over rank 0..4; PRelu over all (x, slope) shape pairs and special values; Abs over all gate dtypes incl. integer minimum; Not over bool.",
         E1NOTE + " For the trigonometric/hyperbolic operators the reference and gonnx both rest on Go's math package (trusted base): the check targets wiring, dtype handling, special values and shape handling, not the accuracy of math.Sin itself.", "DESIGN.md §3 (row C10)"),
 "C11": ("exploration", "E1", "bounded-exhaustive enumeration of attribute forms / value types x encodings x shapes / 10x10 cast pairs x in-range value alphabets on the real operators vs math/big reference",
         "Constant over every attribute form (8 names + unknown + wrong count), `value` in all 11 element types x both encodings x shapes of rank 0..2; ConstantOfShape over value absent / each type / wrong element counts x every shape operand of rank 1..4; Cast over all 100 numeric pairs x all in-range values of an alphabet that is complete for 8/16-bit sources and hits every power-of-two boundary and rounding tie for wider ones; results must be bit-exact with the right element type, unsupported forms must be refused with an error.",
         E1NOTE, "DESIGN.md §3 (row C11)"),
 "C04": ("exploration", "E1", "bounded-exhaustive enumeration of rank combinations / batch-shape pairs / transpose flags / alpha-beta / bias shapes on the real operators vs float64 loop reference with dot-product error bound",
         "MatMul over every pair of batch shapes (rank 0..2 quick, 0..3 thorough; broadcastable and not) x (m,k,n) in {1,2,3}^3 x vector promotion on either side; Gemm over all 4 transpose combinations x 20 (alpha,beta) pairs x (M,K,N) x 11 bias shapes (valid and invalid); LinearRegressor and Scaler over targets/features/batch/intercept/offset layouts; shape, dtype and every element within the dot-product rounding bound gamma_(2k+4)*sum|a_i b_i|; mismatches must be refused. A discrimination self-check verifies that the fills separate true semantics from swapped transpose flags / swapped alpha,beta.",
         E1NOTE, "DESIGN.md §3 (row C04)"),
 "C05": ("exploration", "E1", "bounded-exhaustive enumeration of convolution geometries (non-square images and kernels, strides, dilations, asymmetric pads, auto_pad modes, bias, batch/channel/kernel counts) on the real operator vs 6-loop direct convolution",
         "1-D and 2-D convolutions over the full product of (H,W) in {2,3,4}^2, (kh,kw) in {1,2,3}^2, strides and dilations in {1,2}^2, pads in {0,1}^4 or an auto_pad mode, bias, and five (N,C,M) combinations (thorough: all of {1,2}^3 plus strides/dilations/pads to 3 and H,W to 6 pairwise); output shape by the ONNX formula and every element within the dot-product rounding bound of the direct definition; group != 1, 3-D inputs and unknown auto_pad strings must be refused. A discrimination self-check shows the fills separate the truth from a flipped kernel and from swapped begin/end pads.",
         E1NOTE, "DESIGN.md §3 (row C05)"),
 "C06": ("exploration", "E1+E3", "bounded-exhaustive enumeration of geometries x optional-input subsets x attributes on the real operators vs scalar ONNX-equation reference; exhaustive split-point histories (two operator calls / two Runs on one Model)",
         "RNN, GRU, LSTM over all (seq,batch,input,hidden) in {1,2,3}^4 x every subset of optional inputs in both spellings x linear_before_reset / input_forget x all activation tuples; outputs must match the ONNX recurrences (gate order iofc / zrh, shapes [seq,1,batch,hidden], [1,batch,hidden]) or, for attributes the statement allows to refuse, be refused - never ignored. Every sequence with seq>=2 is additionally processed in two pieces at every split point, through the Operator API and through two Runs on one Model feeding the returned state tensors back, and must reproduce the unsplit result. A discrimination self-check proves the weights separate the true equations from swapped gate order, swapped bias/peephole slots and flipped attributes.",
         E1NOTE, "DESIGN.md §3 (row C06)"),
 "C12": ("fault_enumeration", "E5+E1", "exhaustive enumeration of (element type x encoding x shape x bit pattern) payloads and of every payload / dims / data_type fault around them, through the real decoder at three observation points",
         "All 11 element types x both encodings x all shapes of rank 0..3 (thorough 0..4) with NaN payloads, extremes and, for 8/16-bit types, every value, must decode bit-exactly with the declared shape and type - observed at onnx.TensorFromProto, as an initializer returned by NewModelFromBytes+Run and as a Constant value. Every payload fault (raw length +-1 byte / +-1 element / empty / doubled, typed field +-1 element, no payload, both encodings, negative / zero / huge dims) and every other data_type code with each typed carrier populated must be refused with an error: never other values, another type or a panic.",
         "Trusted: the reference decoder rule (declared dims x declared type; ONNX carrier fields; little-endian raw) and gorgonia accessors for reading the result.", "DESIGN.md §3 (row C12)"),
 "C13": ("exploration", "E1", "bounded-exhaustive enumeration of declared signatures x supplied tensor sets through the real Model.Run vs the accept predicate",
         "Every one-input signature of rank 1..3 (thorough 1..4) with each dimension fixed(2), fixed(3), symbolic or unspecified is run against a supplied tensor of EVERY shape of rank 0..4 (0..5); Run must fail (no outputs, inputs untouched) exactly when the rank or a fixed dimension differs and succeed otherwise; multi-input signatures with every subset of names missing, permuted tensors, extra names, and inputs shadowed by initializers; the introspection accessors must report exactly what Run enforces, axis by axis.",
         "Trusted: the three-line accept predicate; the ONNX ValueInfoProto builder of the harness.", "DESIGN.md §3 (row C13)"),
 "C15": ("model_checking", "E1+E3", "exhaustive enumeration of the finite gate space (55 operators x input counts x dtype placements x nil) on the real ValidateInputs, plus exhaustive interleavings of <Get, Init, Apply> lookup histories against isolated results",
         "For every name of opset13.GetOpNames(): every input count 0..max+2 and dtype placement (full 15^n product for arity <= 2; every homogeneous row with all single- and a fixed menu of two-position deviations otherwise) must be rejected with an *ops.InputError exactly when the operator's own declaration says so - never a panic, never an out-of-range index into a short constraint table - and accepted lists must come back padded with nil to the maximum with the supplied tensors pointer-identical and untouched. 120 unregistered names must give ErrUnsupportedOperator. For 22 operator/attribute specs all 20 interleavings of two lookups and (thorough: all 1680, quick: every 7th) of three lookups are executed; each Apply must equal its isolated result.",
         "Trusted: the operator's own GetMin/GetMax/GetInputTypeConstraints as the declaration the gate must enforce; isolated execution as the differential oracle for lookup independence.", "DESIGN.md §3 (row C15)"),
 "C18": ("fault_enumeration", "E5", "exhaustive byte-level fault enumeration (every truncation offset, every single-byte substitution) and field-level structural fault enumeration of seed models through the real loader under recover()",
         "Around 30 seed models (the repository's samples incl. the zip and the invalid mnist file, plus generated models covering every initializer type/encoding and attribute kind) every prefix and every single-byte substitution (all 256 values for small seeds) is loaded with NewModelFromBytes under recover(), plus a structural fault menu on every initializer, node, attribute and value-info field; loading must return a model or an error, never panic. Every opset version in {-1,0..25,2^31,2^63-1} in six import arrangements must load iff the highest version is 13 and otherwise fail with ErrUnsupportedOpsetVersion; 120 unregistered operator names at each position of a 3-node graph must make Run fail with ErrUnsupportedOperator and no outputs.",
         "Trusted: recover()-based panic detection (a fatal runtime error such as stack exhaustion would abort the process and is reported as a harness failure). 'All byte strings' is covered as the 1-fault neighbourhood of ~30 seeds, not 256^n.", "DESIGN.md §3 (row C18)"),
 "C01": ("model_checking", "E2", "breadth-first enumeration of the program-construction transition system; every reachable program is executed by the real loader + Model.Run and compared with a reference graph evaluator",
         "State = program prefix, transition = append one node instance (template x every wiring x output naming scheme). All programs of depth <= 2 over 16 templates (~186k programs incl. two nodes of the same operator type with different attributes, fan-out/fan-in, optional inputs absent by omission or by empty name, multi-output nodes with arbitrary / permuted / partly omitted output names, initializers that are also graph inputs) and depth-3 chains over a reduced alphabet are marshalled to bytes, loaded with NewModelFromBytes and Run with every intermediate value declared as graph output; each declared output must be present, non-nil and equal to the reference environment.",
         "Trusted: the reference node evaluator (refeval.go over /verif/mc/ref). Depth and tensor sorts are bounded (shapes (2,2),(2,1,2),(1,1,2)); every trace is an implementation trace, so traces_validated_against_impl = programs executed.", "DESIGN.md §3 (row C01)"),
 "C02": ("model_checking", "E3", "explicit enumeration of ALL call histories up to a depth on one real Model per subject, with deep state snapshots and a reference-model oracle after every call",
         "For ~330 subjects (every registered operator as a single-node model under every caller-input / initializer role assignment, two producer->consumer compositions, the sample models) every sequence of depth <= 3 (thorough 5; 6 for compositions and sample models) over {Run(A), Run(B), Run(fresh A), failing Run (wrong rank), failing Run (missing input), Run with the previous state outputs fed back} is executed on a freshly loaded Model; after every call the outputs must equal the reference evaluation and be bit-identical to the first Run on the same values, and deep snapshots of both caller tensor sets, of every weight tensor (via the verif hook) and of the marshalled proto must equal load time.",
         "Trusted: the reference model evaluator; hx.Snapshot (shape, strides, dtype, flags, all element bits). Hook: Model.VerifParameters / VerifModelProto (build tag verif).", "DESIGN.md §3 (row C02)"),
 "C16": ("exploration", "E2/E1", "exhaustive enumeration of every batch composition (all sequences over a sample pool up to a length) for the sample models and generated per-sample models, executed by the real Model.Run and compared row by row with the solo evaluation",
         "For 119 models (sample models; every 1- and 2-stage combination of per-sample operators; Conv 1-D/2-D; RNN/GRU/LSTM with/without states; the gru.onnx wrapping) EVERY batch over a pool of 3 (thorough 4) distinct samples of length 1..3 (1..4) - i.e. all batch sizes, permutations, sub-selections and repetitions up to the bound - is run; position i of each output must equal the output of evaluating that sample alone (N=1).",
         "Trusted: stacking / row extraction of the harness (ref.Concat / ref.Slice). Differential oracle: the implementation's own N=1 result, as the property states.", "DESIGN.md §3 (row C16)"),
 "C17": ("model_checking", "E4", "stateless model checking of the real Model.Run goroutines under a cooperative scheduler: depth-first enumeration of all schedules up to a preemption bound; hardware write trap (mmap/mprotect) on all Model-owned shared state; supplementary free-running and -race passes",
         "Threads {Run(A);Run(B)} || {Run(B)} (|| {NewModelFromBytes;Run(A)}) on one shared Model are executed under a cooperative scheduler with scheduling points before GetOperator/Init/ValidateInputs/Apply of every node; ALL schedules with <= 2 (thorough 3) preemptions for 2 threads and <= 1 (2) for 3 threads are enumerated for 67 subjects covering every operator; each thread must return its solo result and the shared-state digest must never change. Independently, for 229 subjects the weights and proto slices are write-protected in an mmap arena: a single frozen execution per input proves Run performs no write (not even a transient one) to Model-owned shared state, for every schedule and any number of goroutines. Free-running 16-goroutine runs (and a -race build in thorough) cover intra-phase interference on state outside the arena by sampling only - stated as supplementary.",
         "Trusted: the cooperative scheduler (exactly one thread runs; replay of a recorded schedule is checked to be deterministic), mprotect + debug.SetPanicOnFault. Not modelled: weak memory behaviours; interleavings inside one operator phase over package-level state (only the supplementary passes see those).", "DESIGN.md §3 (row C17)"),
}
NA_REASON = "check not built yet in this session (see DESIGN.md §7 order of construction); decidable by bounded exhaustive exploration, to be claimed once its explorer exists"
E1EXTRA = " Every case is also run with the attribute list reversed and with every defaultable attribute spelled out with its default; on operator instances that already served another request (all ordered pairs in small groups, one predecessor per class otherwise) and with the caller's tensor objects refilled in place between two requests. The space further contains larger tensors with odd element counts (up to 65 539 and beyond), extreme integers (+-2^63, +-2^31, ...) wherever an integer is accepted, special values also as single-element operands, and a watchdog turns a call that never returns into a violation."
ADDENDA = {
 "C01": " Every depth <= 1 program additionally runs with symbolic / shape-less input declarations, with the initializer and a graph input declared as graph outputs, with value_info entries, with one output name too many, with a duplicated output declaration and with the caller's map carrying tensors under intermediate names; further: rank-0 graph inputs, 7 value-naming schemes x 4 list orders, a 600-node chain and 18 twin-node pairs differing in one attribute of each kind.",
 "C02": " (As built now: 400+ subjects incl. nodes whose inputs all name one tensor; depth 4 quick / 5 thorough; the alphabet additionally contains: the caller overwriting A in place, the caller overwriting the tensors a Run returned, calls that fail inside an operator (models declare symbolic dims; every tensor x axis one longer), and loading + running a second model with other weights.)",
 "C13": " (As built now: 780 signatures with 5 kinds of dimension incl. an empty dim_param, supplied ranks 0..5/6, all call histories of length <= 3/4 over 11 feeds on one Model, initializer-backed inputs declared dynamic, shared symbolic names, and scribbling on what the accessors return.)",
 "C14": " (As built now: extents 1..4 on ranks 0..4 in quick, 1..5 thorough, ranks 5-6 against low ranks, all pairs of 11 larger shapes, and a second request on the same source objects refilled in place.)",
 "C15": " (As built now: Go-native int/uint tensors as never-allowed types, lists with spare capacity, gate histories on one operator object, and the gate as applied by Model.Run for every operator and count.)",
 "C16": " (As built now: ~150 models incl. LSTM peepholes, per-head MatMul weights, full-size convolution kernels and models with samples 150x / 1e7x larger and of opposite sign; pool 4 / length 4 quick, 5 / 5 thorough.)",
 "C17": " (As built now: 400+ frozen subjects incl. a batch-1 feed, 127 exploration subjects whose second thread first makes a call that fails inside an operator, a global-state pass in a fresh process over all package-level symbols one level deep, cold-start processes, a scheduler that tolerates threads blocked on the library's own locks (decided from goroutine state, never from elapsed time), and a collector-in-the-window pass: an overlay build forces a garbage collection inside each of gorgonia's four uintptr windows, one fresh process per subject, freed memory clobbered.)",
 "C18": " Unsupported operators are also placed off the path to the outputs and combined with caller-supplied entries for node outputs; the three loaders (bytes, file, zip stored/deflated) must agree on models up to 1 MiB.",
 "C12": " Further: payloads up to 65 541 elements, dims whose product wraps to the payload length, negative data_type codes, a short typed field topped up by a stray second field, several initializers with identical bytes but different dims in one model, and the file / zip loaders as observation points.",
}
def main():
    checks = []
    for p in ALL:
        if p not in CHECKS: continue
        level, engine, tech, text, note, ref = CHECKS[p]
        if p in ("C03","C04","C05","C06","C07","C08","C09","C10","C11"):
            text += E1EXTRA
        text += ADDENDA.get(p, "")
        checks.append({
            "property_id": p,
            "quick_cmd": f"./run.sh {p} quick",
            "thorough_cmd": f"./run.sh {p} thorough",
            "evidence_file": f"/verif/evidence/{p}.json",
            "replay_cmd_template": "./run.sh replay {path}",
            "engine": engine,
            "level_claimed": {"category": level, "text": text, "design_ref": ref},
            "level_note": note,
            "technique": tech,
        })
    m = {
        "version": 1,
        "setup_cmd": "./setup.sh",
        "hooks": {
            "guard": "verif",
            "enable": "go build -tags verif (run.sh builds /verif/mc, whose go.mod replaces gonnx by /repo, with -tags verif)",
            "baseline_off_cmd": "cd /repo && GOFLAGS=-mod=mod go test -json -vet=off -count=1 -timeout 25m ./...",
            "source_commits": HOOK_COMMITS,
            "add_only": True,
        },
        "engines": [
            {"name": "E1", "path": "/verif/mc/cmd/mc", "serves_properties": ["C03","C04","C05","C06","C07","C08","C09","C10","C11","C12","C13","C14","C15"], "kind_free_text": "bounded-exhaustive configuration enumerator on the real operators vs a reference interpreter (/verif/mc/ref)"},
            {"name": "E2", "path": "/verif/mc/cmd/mc", "serves_properties": ["C01","C16"], "kind_free_text": "breadth-first enumeration of the program-construction transition system; every program is marshalled, loaded and Run by the real code and compared with the reference evaluator"},
            {"name": "E3", "path": "/verif/mc/cmd/mc", "serves_properties": ["C02","C06","C15"], "kind_free_text": "explicit enumeration of all call histories up to a depth on one real Model, differential oracle against a fresh Model, deep snapshots"},
            {"name": "E4", "path": "/verif/mc/cmd/mc", "serves_properties": ["C17"], "kind_free_text": "cooperative scheduler + preemption-bounded DFS over real Model.Run goroutines; mmap/mprotect write trap on shared state; separate free-running -race pass"},
            {"name": "E5", "path": "/verif/mc/cmd/mc", "serves_properties": ["C18","C12"], "kind_free_text": "exhaustive byte-level / field-level fault enumeration of model files through the real loader"},
        ],
        "checks": checks,
        "not_applicable": [{"property_id": p, "reason": NA_REASON} for p in ALL if p not in CHECKS],
        "notes": "All checks: ./run.sh <id> <tier>; rebuilds /verif/mc against /repo's working tree. Known findings: /verif/known_findings.json (read-only at run time).",
    }
    json.dump(m, open("/verif/MANIFEST.json", "w"), indent=1)
    try:
        import jsonschema
        jsonschema.validate(m, json.load(open("/root/.vp/MANIFEST.schema.json")))
        print("MANIFEST valid;", len(checks), "checks")
    except ImportError:
        print("jsonschema not available; written")
if __name__ == "__main__":
    main()
