#!/bin/bash
# usage: tools/own_check.sh [-s slot] <seed-id>...  — applies each seed to a scratch worktree and runs the check of its own
# property (quick) from a snapshot of /verif's working tree (so later edits in /verif do not leak into the run)
SLOT=20; if [ "$1" = "-s" ]; then SLOT=$2; shift 2; fi
R=/tmp/seedrepo/r$SLOT; O=/tmp/seedrepo/v$SLOT; S=/tmp/seedrepo/snap$SLOT
rm -rf $S $O; mkdir -p $S
rsync -a --exclude .git --exclude replays --exclude bin --exclude seeded --exclude 'mc/go.alt.*' ${OWN_SRC:-/verif}/ $S/
git -C /repo worktree remove --force $R 2>/dev/null; git -C /repo worktree prune; git -C /repo worktree add --detach $R HEAD >/dev/null 2>&1
for sid in "$@"; do
  prop=${sid%%-*}
  git -C $R checkout -q -- . ; git -C $R clean -fdq
  if ! git -C $R apply /verif/seeded/$sid/patch.diff 2>/dev/null; then echo "$sid APPLY-FAILED"; continue; fi
  out=$(VERIF_DIR=$S VERIF_REPO=$R VERIF_OUT=$O $S/run.sh $prop quick 2>&1); rc=$?
  kinds=$(echo "$out" | grep -o "kind=[a-z-]*" | sort -u | tr '\n' ' ')
  echo "$sid rc=$rc $kinds $(echo "$out" | grep -m1 -E 'HARNESS-ERROR|crashed' | cut -c1-120)"
done
git -C /repo worktree remove --force $R; rm -rf $O $S
