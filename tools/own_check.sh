#!/bin/bash
# usage: tools/own_check.sh <seed-id>...   — applies each seed to a scratch worktree and runs the check of its own property (quick)
R=/tmp/seedrepo/r20; O=/tmp/seedrepo/v20
git -C /repo worktree remove --force $R 2>/dev/null; git -C /repo worktree prune; git -C /repo worktree add --detach $R HEAD >/dev/null 2>&1
for sid in "$@"; do
  prop=${sid%%-*}
  git -C $R checkout -q -- . ; git -C $R clean -fdq
  if ! git -C $R apply /verif/seeded/$sid/patch.diff 2>/dev/null; then echo "$sid APPLY-FAILED"; continue; fi
  out=$(VERIF_REPO=$R VERIF_OUT=$O /verif/run.sh $prop quick 2>&1); rc=$?
  kinds=$(echo "$out" | grep -o "kind=[a-z-]*" | sort -u | tr '\n' ' ')
  echo "$sid rc=$rc $kinds"
done
git -C /repo worktree remove --force $R; rm -rf $O
