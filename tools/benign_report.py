#!/usr/bin/env python3
"""benign_report.py <lane-file>... -- <log>...: writes seeded/BENIGN.md from the lane files (patch -> checks run) and the
logs of tools/benign_check.sh (a line '<patch> <check> rc=N ...' is an alarm, '<patch> done' closes a variant)."""
import json,os,re,sys
args=sys.argv[1:]; i=args.index('--'); lanes,logs=args[:i],args[i+1:]
checks={}
for l in lanes:
    for line in open(l):
        p=line.split()
        if not p: continue
        checks[p[0]]=p[1:] or ['C%02d'%k for k in range(1,19)]
done=set(); alarms={}
for l in logs:
    for line in open(l):
        m=re.match(r'(\S+patch\.diff) (done|APPLY-FAILED|C\d\d rc=\d+.*)',line)
        if not m: continue
        if m.group(2)=='done': done.add(m.group(1))
        else: alarms.setdefault(m.group(1),[]).append(m.group(2)[:160])
rows=[]
for patch in sorted(checks):
    parts=patch.split('/'); vid=parts[-2] if parts[-3]=='benign' else parts[-4]+'-'+parts[-2]
    meta=json.load(open(f'/verif/seeded/benign/{vid}/meta.json'))
    st='not finished' if patch not in done else ('ALARM: '+'; '.join(alarms[patch]) if patch in alarms else 'all exit 0')
    rows.append((vid,meta.get('title','')[:150].replace('|','/'),' '.join(checks[patch]),st))
out=['# Behaviour-preserving variants (false-alarm test)','',
'Ten sub-agents (one per code area, given only the 18 statements and a scratch worktree) wrote three realistic',
'refactorings / optimisations / defensive changes each that keep all 18 properties. `tools/benign_check.sh` applies a',
'variant to a scratch worktree of /repo HEAD and runs the listed quick checks from a snapshot of /verif; every check',
'must exit 0. The checks listed are the ones whose explored code the variant touches (B01-m1 and B06-m1: all 18).',
'Patches and the authors\' justifications: `seeded/benign/<id>/`.','',
'| variant | change | checks run | result |','|---|---|---|---|']
for r in rows: out.append('| '+' | '.join(r)+' |')
out+=['',f'{sum(1 for r in rows if r[3]=="all exit 0")} of {len(rows)} variants: every check exits 0.','']
notes='/verif/seeded/benign/NOTES.md'
if os.path.exists(notes): out.append(open(notes).read())
open('/verif/seeded/BENIGN.md','w').write('\n'.join(out))
print('\n'.join(out[-6:])[:600])
