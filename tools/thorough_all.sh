#!/bin/bash
# usage: tools/thorough_all.sh [parallel]  — runs every thorough tier (from the directory this script lives in) and prints one line each
cd "$(dirname "$0")/.." || exit 2
P=${1:-3}
run() { p=$1; s=$(date +%s); out=$(./run.sh $p thorough 2>&1); rc=$?; e=$(( $(date +%s) - s )); echo "$p rc=$rc ${e}s $(echo "$out" | grep -c '^VIOLATION') viol $(echo "$out" | grep -o 'exhaustive=[a-z]*' | head -1)"; }
export -f run
printf '%s\n' C13 C14 C15 C12 C11 C16 C03 C04 C18 C06 C09 C07 C17 C01 C10 C05 C02 C08 | xargs -P $P -I{} bash -c 'run {}'
echo THOROUGH-DONE
