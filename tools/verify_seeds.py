#!/usr/bin/env python3
"""Confirms every seeded defect in a scratch worktree (never in /repo) and files it under /verif/seeded/<id>/.
usage: verify_seeds.py <worktree> [ids...]"""
import json, os, re, shutil, subprocess, sys, glob
WT = sys.argv[1]
ENV = dict(os.environ, GOFLAGS='-mod=mod', GOPROXY='off', GOSUMDB='off', GOTOOLCHAIN='local')
BASE = set(json.load(open('/root/.vp/BASELINE.json'))['stable_pass'])
def sh(cmd, cwd=WT, timeout=1200):
    r = subprocess.run(cmd, shell=True, cwd=cwd, env=ENV, capture_output=True, text=True, timeout=timeout)
    return r.returncode, r.stdout + r.stderr
def suite():
    rc, out = sh('go test -json -vet=off -count=1 ./...')
    got = set()
    for l in out.splitlines():
        try: e = json.loads(l)
        except Exception: continue
        if e.get('Action') == 'pass' and e.get('Test'): got.add(e['Package'] + '::' + e['Test'])
    return sorted(BASE - got), len(got - BASE)
ROOT = os.environ.get('SEED_ROOT', '/tmp/mut')
OFFSET = int(os.environ.get('SEED_OFFSET', '0'))
ids = sys.argv[2:] or sorted({p.split('/')[-4] + '-' + p.split('/')[-2] for p in glob.glob(ROOT + '/C*/out/m*/meta.json')})
for sid in ids:
    prop, mk = sid.split('-')
    d = f'{ROOT}/{prop}/out/{mk}'
    meta = json.load(open(d + '/meta.json'))
    if os.path.exists(d + '/rebase.json'):
        rb = json.load(open(d + '/rebase.json'))
    else:
        rb = {'applied_unchanged': True, 'demo_file': 'demo_test.go', 'demo_cmd': str(meta.get('demo_location', '')), 'notes': None}
        shutil.copy(d + '/patch.diff', d + '/patch.rebased.diff')
    sid = f'{prop}-m{int(mk[1:]) + OFFSET}'
    demo = d + '/' + (rb.get('demo_file') or 'demo_test.go')
    m = re.search(r'\./([A-Za-z0-9_/]+?)/?(\s|$)', rb.get('demo_cmd', ''))
    pkg = m.group(1) if m else '.'
    src = open(demo).read()
    pkgname = re.search(r'^package (\w+)', src, re.M).group(1)
    if pkgname == 'gonnx': pkg = '.'
    sh('git checkout -- . && git clean -fdq')
    dst = os.path.join(WT, pkg, 'seeded_demo_test.go')
    shutil.copy(demo, dst)
    runs = '-race ' if (prop == 'C17' and 'race' in (meta.get('demo_location', '') + rb.get('demo_cmd', ''))) else ''
    cmd = f'go test {runs}-vet=off -count=1 -run TestSeededDemo ./{pkg}/' if pkg != '.' else f'go test {runs}-vet=off -count=1 -run TestSeededDemo .'
    rc_clean, out_clean = sh(cmd)
    rc_apply, out_apply = sh(f'git apply {d}/patch.rebased.diff')
    rc_build, out_build = sh('go build ./...')
    rc_demo, out_demo = sh(cmd)
    os.remove(dst)
    missing, extra = suite()
    sh('git checkout -- . && git clean -fdq')
    ok = rc_clean == 0 and rc_apply == 0 and rc_build == 0 and rc_demo != 0 and not missing
    res = {'id': sid, 'confirmed': ok, 'demo_without_change': 'pass' if rc_clean == 0 else 'FAIL', 'patch_applies': rc_apply == 0, 'builds': rc_build == 0,
           'demo_with_change': 'fail' if rc_demo != 0 else 'PASSES', 'suite_missing_passes_with_change': missing, 'demo_cmd': cmd, 'demo_pkg_dir': pkg}
    print(json.dumps(res)[:400], flush=True)
    if ok:
        out = f'/verif/seeded/{sid}'
        os.makedirs(out, exist_ok=True)
        shutil.copy(d + '/patch.rebased.diff', out + '/patch.diff')
        if not rb.get('applied_unchanged', True): shutil.copy(d + '/patch.diff', out + '/patch.original-against-pinned-commit.diff')
        shutil.copy(demo, out + '/demo_test.go')
        head = subprocess.run('git rev-parse --short HEAD', shell=True, cwd=WT, capture_output=True, text=True).stdout.strip()
        fail_line = [l for l in out_demo.splitlines() if 'FAIL' in l or 'Error' in l or 'panic' in l][:3]
        json.dump({'id': sid, 'property': prop, 'title': meta.get('title'), 'what_breaks': meta.get('what_breaks'), 'needs_to_manifest': meta.get('needs_to_manifest'),
                   'files_changed': meta.get('files_changed'), 'author': 'independent sub-agent given only the property text and a scratch worktree',
                   'patch_against': head + ' (repo HEAD incl. the fix: commits; rebased by a sub-agent where the original no longer applied)',
                   'confirmed_by_me': {'worktree': 'scratch git worktree of /repo under /tmp (removed afterwards)', 'demo_dir': pkg, 'demo_cmd': cmd,
                                       'demo_without_change': 'pass', 'demo_with_change': 'fail', 'demo_failure_excerpt': fail_line,
                                       'suite_with_change': 'go test -json -vet=off -count=1 ./... : all 254 baseline passes still pass (root TestOps fails as in the baseline)'},
                   'rebase_notes': rb.get('notes')}, open(out + '/meta.json', 'w'), indent=1)
