#!/bin/bash
# usage: tools/try_mutant.sh <patch.diff> <check> [<check>...]   — applies the patch to /repo, runs checks (quick), reverts.
P=$1; shift
cd /repo || exit 2
if ! git diff --quiet; then echo "/repo dirty, abort"; exit 2; fi
if ! git apply "$P" 2>/tmp/apply.err; then
  if ! git apply -3 "$P" 2>>/tmp/apply.err; then echo "PATCH DOES NOT APPLY: $(head -3 /tmp/apply.err)"; git -C /repo reset -q --hard HEAD; exit 3; fi
fi
cd /verif
for c in "$@"; do
  out=$(VERIF_DIR=/verif ./run.sh $c ${TIER:-quick} 2>&1); rc=$?
  nv=$(echo "$out" | grep -c "^VIOLATION")
  echo "== $c rc=$rc violations_printed=$nv"
  echo "$out" | grep -A2 "^VIOLATION" | head -${LINES_SHOW:-4} | cut -c1-300
  echo "$out" | grep -E "^(SUMMARY|HARNESS)" | cut -c1-400
done
git -C /repo checkout -- . ; git -C /repo reset -q; git -C /repo status --short | head -3
# restore evidence/replays of the unchanged tree is the caller's job (re-run the check)
