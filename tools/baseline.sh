#!/bin/bash
# Runs the repository's own suite (guard off) and compares the set of passing tests with BASELINE.json.
export GOFLAGS=-mod=mod GOPROXY=off GOSUMDB=off GOTOOLCHAIN=local
cd /repo && go test -json -vet=off -count=1 -timeout 25m ./... > /tmp/baseline_run.json 2>/dev/null
python3 - <<'PY'
import json
base=json.load(open('/root/.vp/BASELINE.json'))
want=set(base['stable_pass'])
got=set()
for l in open('/tmp/baseline_run.json'):
    try: e=json.loads(l)
    except: continue
    if e.get('Action')=='pass' and e.get('Test'):
        got.add(e['Package']+'::'+e['Test'])
missing=sorted(want-got)
print(f"baseline: {len(want)} expected passes, {len(want&got)} pass now, missing={missing[:10]}, extra_pass={len(got-want)}")
PY
rm -f /tmp/baseline_run.json
