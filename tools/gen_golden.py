#!/usr/bin/env python3
"""Generates /verif/golden/golden.json: operator cases evaluated by an independent second implementation (numpy).
Run with python3-vt (the tooling venv has numpy). The Go reference interpreter (/verif/mc/ref) is checked against
these vectors at the start of every check (a disagreement is a harness error, never a verdict about gonnx)."""
import json, itertools, sys
import numpy as np

rng = np.random.RandomState(12345)
cases = []

def T(a):
    a = np.asarray(a)
    dt = {'float32':'float32','float64':'float64','int64':'int64','int32':'int32','bool':'bool'}[a.dtype.name]
    flat = a.reshape(-1)
    if dt == 'bool': data = [int(x) for x in flat]
    elif dt.startswith('int'): data = [int(x) for x in flat]
    else: data = [float(x) for x in flat]
    return {'dt': dt, 'shape': list(a.shape), 'data': data}

def A(name, kind, v):
    d = {'name': name, 'kind': kind}
    d[{'int':'i','ints':'ints','float':'f','floats':'floats','string':'s','strings':'strs'}[kind]] = v
    return d

def add(op, attrs, ins, outs, tol=1e-5):
    cases.append({'op': op, 'attrs': attrs, 'inputs': [None if x is None else T(x) for x in ins], 'outputs': [T(o) for o in outs], 'tol': tol})

def f32(*shape):
    return (np.asarray(rng.rand(*shape)).astype(np.float32) * 4 - 2)

# ---- MatMul (numpy.matmul is the specification)
for sa, sb in [((2,3),(3,2)), ((3,),(3,2)), ((2,3),(3,)), ((3,),(3,)), ((2,2,3),(3,2)), ((2,1,2,3),(3,3,2)), ((1,2,3),(2,3,2)), ((2,2,3),(2,3,1)), ((4,1,2),(2,3))]:
    a, b = f32(*sa), f32(*sb)
    add('MatMul', [], [a, b], [np.matmul(a.astype(np.float64), b.astype(np.float64)).astype(np.float32)])
# ---- Gemm
for tA, tB, al, be, cs in itertools.product([0,1],[0,1],[1.0,0.5],[1.0,-2.0],[None,(),(2,),(3,1),(3,2),(1,2)]):
    a = f32(3,4) if not tA else f32(4,3); b = f32(4,2) if not tB else f32(2,4)
    c = None if cs is None else f32(*cs)
    y = al * ((a.T if tA else a).astype(np.float64) @ (b.T if tB else b).astype(np.float64))
    if c is not None: y = y + be * c.astype(np.float64)
    add('Gemm', [A('transA','int',tA), A('transB','int',tB), A('alpha','float',al), A('beta','float',be)], [a,b,c], [y.astype(np.float32)])
# ---- elementwise binary with broadcasting
for sa, sb in [((2,3),(3,)), ((2,1,3),(4,1)), ((),(2,2)), ((3,1),(1,3)), ((2,3),(2,3))]:
    a, b = f32(*sa), f32(*sb)
    b[b == 0] = 1
    for op, fn in [('Add',np.add),('Sub',np.subtract),('Mul',np.multiply),('Div',np.divide),('Greater',np.greater),('Less',np.less),('Equal',np.equal),('GreaterOrEqual',np.greater_equal),('LessOrEqual',np.less_equal)]:
        add(op, [], [a,b], [fn(a,b)])
    ia, ib = (a*3).astype(np.int64), (b*3).astype(np.int64); ib[ib==0] = 2
    add('Add', [], [ia, ib], [ia+ib]); add('Mul', [], [ia, ib], [ia*ib])
    add('Div', [], [ia, ib], [np.trunc(ia/ib).astype(np.int64)])
    ba, bb = a > 0, b > 0
    add('And', [], [ba,bb], [np.logical_and(ba,bb)]); add('Or', [], [ba,bb], [np.logical_or(ba,bb)]); add('Xor', [], [ba,bb], [np.logical_xor(ba,bb)])
# ---- unary
x = f32(2,3)
for op, fn in [('Abs',np.abs),('Relu',lambda v: np.maximum(v,0)),('Sigmoid',lambda v: 1/(1+np.exp(-v))),('Tanh',np.tanh),('Sin',np.sin),('Cos',np.cos),('Tan',np.tan),('Atan',np.arctan),('Sinh',np.sinh),('Cosh',np.cosh),('Asinh',np.arcsinh)]:
    add(op, [], [x], [fn(x.astype(np.float64)).astype(np.float32)])
xs = (rng.rand(2,3).astype(np.float32)*1.8-0.9)
for op, fn in [('Asin',np.arcsin),('Acos',np.arccos),('Atanh',np.arctanh)]:
    add(op, [], [xs], [fn(xs.astype(np.float64)).astype(np.float32)])
xg = (rng.rand(2,3).astype(np.float32)*3+1)
add('Acosh', [], [xg], [np.arccosh(xg.astype(np.float64)).astype(np.float32)])
add('Not', [], [x > 0], [np.logical_not(x > 0)])
sl = f32(3); add('PRelu', [], [x, sl], [np.where(x < 0, x*sl, x)])
# ---- movement
x = f32(2,3,4)
for perm in itertools.permutations(range(3)):
    add('Transpose', [A('perm','ints',list(perm))], [x], [np.transpose(x, perm)])
add('Reshape', [], [x, np.array([4,-1],dtype=np.int64)], [x.reshape(4,-1)])
add('Reshape', [], [x, np.array([0,-1],dtype=np.int64)], [x.reshape(2,-1)])
add('Reshape', [], [x, np.array([0,0,2,2],dtype=np.int64)], [x.reshape(2,3,2,2)])
for ax in range(-3,4): 
    a = ax if ax >= 0 else ax+3
    add('Flatten', [A('axis','int',ax)], [x], [x.reshape(int(np.prod(x.shape[:a])) if a>0 else 1, -1)])
y = f32(2,1,3,1)
add('Squeeze', [], [y, np.array([1,-1],dtype=np.int64)], [y.reshape(2,3)])
add('Squeeze', [], [y, None], [y.reshape(2,3)])
add('Unsqueeze', [], [x, np.array([0,-1],dtype=np.int64)], [x.reshape(1,2,3,4,1)])
add('Unsqueeze', [], [x, np.array([2,1],dtype=np.int64)], [x.reshape(2,1,1,3,4)])
add('Shape', [], [x], [np.array(x.shape,dtype=np.int64)])
for ax in [-1,0,1,2]:
    a, b, c = f32(2,3,4), f32(2,3,4), f32(2,3,4)
    add('Concat', [A('axis','int',ax)], [a,b,c], [np.concatenate([a,b,c],axis=ax)])
d = f32(5,6)
for (s0,e0,st0),(s1,e1,st1) in [((0,5,1),(0,6,1)), ((1,4,2),(0,6,3)), ((-3,100,1),(2,-1,1)), ((4,0,-1),(5,-7,-2)), ((-100,3,2),(1,2,1))]:
    add('Slice', [], [d, np.array([s0,s1],dtype=np.int64), np.array([e0,e1],dtype=np.int64), np.array([0,1],dtype=np.int64), np.array([st0,st1],dtype=np.int64)], [d[s0:e0:st0, s1:e1:st1]])
add('Slice', [], [d, np.array([1],dtype=np.int64), np.array([3],dtype=np.int64), np.array([-1],dtype=np.int64), None], [d[:,1:3]])
for ax in [0,1,-1]:
    for idx in [np.array(1,dtype=np.int64), np.array([2,0,-1],dtype=np.int64), np.array([[0,1],[-2,3]],dtype=np.int64)]:
        add('Gather', [A('axis','int',ax)], [d, idx], [np.take(d, idx, axis=ax)])
for si, tgt in [((3,1),(2,1,4)), ((1,),(2,3)), ((2,1,3),(3,)), ((3,),(1,)), ((2,3),(2,3))]:
    a = f32(*si)
    add('Expand', [], [a, np.array(tgt,dtype=np.int64)], [a * np.ones(tgt, dtype=np.float32)])
# ---- reductions / softmax
r = f32(2,3,4)
for ax in [-3,-1,0,1,2]:
    for kd in [0,1]:
        am = np.argmax(r, axis=ax); 
        if kd: am = np.expand_dims(am, ax)
        add('ArgMax', [A('axis','int',ax), A('keepdims','int',kd)], [r], [am.astype(np.int64)])
for axes in [[0],[1],[-1],[0,2],[2,0],[0,1,2]]:
    for kd in [0,1]:
        add('ReduceMax', [A('axes','ints',axes), A('keepdims','int',kd)], [r], [np.max(r, axis=tuple(axes), keepdims=bool(kd))])
        add('ReduceMin', [A('axes','ints',axes), A('keepdims','int',kd)], [r], [np.min(r, axis=tuple(axes), keepdims=bool(kd))])
add('ReduceMax', [A('keepdims','int',0)], [r], [np.max(r)])
for ax in [-1,0,1,2]:
    z = r.astype(np.float64) * 3
    e = np.exp(z - z.max(axis=ax, keepdims=True)); sm = e / e.sum(axis=ax, keepdims=True)
    add('Softmax', [A('axis','int',ax)], [(r*3)], [sm.astype(np.float32)], tol=1e-5)
    add('LogSoftmax', [A('axis','int',ax)], [(r*3)], [np.log(sm).astype(np.float32)], tol=1e-4)
# ---- Conv: independent vectorised implementation (sliding windows over the padded input)
def conv_np(x, w, b, strides, dil, pads):
    nd = x.ndim - 2
    padw = [(0,0),(0,0)] + [(pads[i], pads[i+nd]) for i in range(nd)]
    xp = np.pad(x.astype(np.float64), padw)
    keff = [(w.shape[2+i]-1)*dil[i]+1 for i in range(nd)]
    win = np.lib.stride_tricks.sliding_window_view(xp, keff, axis=tuple(range(2,2+nd)))
    # win: N,C,out...,keff...
    sl = [slice(None), slice(None)] + [slice(None,None,strides[i]) for i in range(nd)] + [slice(None,None,dil[i]) for i in range(nd)]
    win = win[tuple(sl)]
    if nd == 1: y = np.einsum('ncok,mck->nmo', win, w.astype(np.float64))
    else: y = np.einsum('ncopkl,mckl->nmop', win, w.astype(np.float64))
    if b is not None: y = y + b.astype(np.float64).reshape((1,-1)+(1,)*nd)
    return y.astype(np.float32)
for (xs_, ws_, st, dl, pd, hb) in [((2,2,4,5),(3,2,2,3),(1,1),(1,1),(0,0,0,0),True), ((1,2,5,4),(2,2,3,2),(2,1),(1,2),(1,0,2,1),False), ((2,1,3,6),(2,1,1,2),(1,3),(1,1),(0,2,1,0),True),
                                  ((1,2,7),(2,2,3),(2,),(2,),(2,1),True), ((2,3,5),(1,3,1),(1,),(1,),(0,0),False)]:
    x_, w_ = f32(*xs_), f32(*ws_); b_ = f32(ws_[0]) if hb else None
    attrs = [A('strides','ints',list(st)), A('dilations','ints',list(dl)), A('pads','ints',list(pd))]
    add('Conv', attrs, [x_, w_, b_], [conv_np(x_, w_, b_, st, dl, pd)], tol=1e-4)
# ---- recurrent operators (matrix form, as in the ONNX reference implementation)
def sig(v): return 1/(1+np.exp(-v))
def rnn_np(X,W,R,B,h0):
    H = R.shape[-1]; h = np.zeros((X.shape[1],H)) if h0 is None else h0[0].astype(np.float64)
    Wb, Rb = (np.zeros(H), np.zeros(H)) if B is None else (B[0,:H], B[0,H:])
    Y = []
    for t in range(X.shape[0]):
        h = np.tanh(X[t] @ W[0].T + h @ R[0].T + Wb + Rb); Y.append(h)
    return np.stack(Y)[:,None].astype(np.float32), h[None].astype(np.float32)
def gru_np(X,W,R,B,h0,lbr):
    H = R.shape[-1]; h = np.zeros((X.shape[1],H)) if h0 is None else h0[0].astype(np.float64)
    Wz,Wr,Wh = np.split(W[0],3); Rz,Rr,Rh = np.split(R[0],3)
    b = np.zeros(6*H) if B is None else B[0]
    Wbz,Wbr,Wbh,Rbz,Rbr,Rbh = np.split(b,6)
    Y = []
    for t in range(X.shape[0]):
        z = sig(X[t]@Wz.T + h@Rz.T + Wbz + Rbz); r = sig(X[t]@Wr.T + h@Rr.T + Wbr + Rbr)
        hh = np.tanh(X[t]@Wh.T + (r*(h@Rh.T + Rbh) if lbr else (r*h)@Rh.T + Rbh) + Wbh)
        h = (1-z)*hh + z*h; Y.append(h)
    return np.stack(Y)[:,None].astype(np.float32), h[None].astype(np.float32)
def lstm_np(X,W,R,B,h0,c0,P):
    H = R.shape[-1]; h = np.zeros((X.shape[1],H)) if h0 is None else h0[0].astype(np.float64); c = np.zeros((X.shape[1],H)) if c0 is None else c0[0].astype(np.float64)
    Wi,Wo,Wf,Wc = np.split(W[0],4); Ri,Ro,Rf,Rc = np.split(R[0],4)
    b = np.zeros(8*H) if B is None else B[0]
    Wbi,Wbo,Wbf,Wbc,Rbi,Rbo,Rbf,Rbc = np.split(b,8)
    pi,po,pf = (np.zeros(H),)*3 if P is None else np.split(P[0],3)
    Y = []
    for t in range(X.shape[0]):
        i = sig(X[t]@Wi.T + h@Ri.T + pi*c + Wbi + Rbi); f = sig(X[t]@Wf.T + h@Rf.T + pf*c + Wbf + Rbf)
        g = np.tanh(X[t]@Wc.T + h@Rc.T + Wbc + Rbc); c = f*c + i*g
        o = sig(X[t]@Wo.T + h@Ro.T + po*c + Wbo + Rbo); h = o*np.tanh(c); Y.append(h)
    return np.stack(Y)[:,None].astype(np.float32), h[None].astype(np.float32), c[None].astype(np.float32)
for (S,Bn,I,H) in [(3,2,2,3),(1,1,1,1),(2,3,1,2)]:
    X = f32(S,Bn,I)
    for hasB, hasH in [(0,0),(1,0),(0,1),(1,1)]:
        W,R = f32(1,H,I), f32(1,H,H); B = f32(1,2*H) if hasB else None; h0 = f32(1,Bn,H) if hasH else None
        add('RNN', [A('hidden_size','int',H)], [X,W,R,B,None,h0], list(rnn_np(X.astype(np.float64),W.astype(np.float64),R.astype(np.float64),None if B is None else B.astype(np.float64),h0)), tol=1e-4)
        W,R = f32(1,3*H,I), f32(1,3*H,H); B = f32(1,6*H) if hasB else None
        for lbr in [0,1]:
            add('GRU', [A('hidden_size','int',H), A('linear_before_reset','int',lbr)], [X,W,R,B,None,h0], list(gru_np(X.astype(np.float64),W.astype(np.float64),R.astype(np.float64),None if B is None else B.astype(np.float64),h0,lbr)), tol=1e-4)
        W,R = f32(1,4*H,I), f32(1,4*H,H); B = f32(1,8*H) if hasB else None
        for hasC, hasP in [(0,0),(1,1),(1,0),(0,1)]:
            c0 = f32(1,Bn,H) if hasC else None; P = f32(1,3*H) if hasP else None
            add('LSTM', [A('hidden_size','int',H)], [X,W,R,B,None,h0,c0,P], list(lstm_np(X.astype(np.float64),W.astype(np.float64),R.astype(np.float64),None if B is None else B.astype(np.float64),h0,c0,None if P is None else P.astype(np.float64))), tol=1e-4)
# ---- ML ops, cast, constant-of-shape
x = f32(3,4)
coef = f32(2,4); ic = f32(2)
add('LinearRegressor', [A('coefficients','floats',[float(v) for v in coef.reshape(-1)]), A('targets','int',2), A('intercepts','floats',[float(v) for v in ic])], [x], [(x.astype(np.float64)@coef.T.astype(np.float64)+ic).astype(np.float32)])
off, sc = f32(4), f32(4)
add('Scaler', [A('offset','floats',[float(v) for v in off]), A('scale','floats',[float(v) for v in sc])], [x], [((x-off)*sc).astype(np.float32)])
v = np.array([1.5,-2.7,0.0,100.9,-0.99], dtype=np.float32)
add('Cast', [A('to','int',7)], [v], [v.astype(np.int64)]); add('Cast', [A('to','int',6)], [v], [v.astype(np.int32)]); add('Cast', [A('to','int',11)], [v], [v.astype(np.float64)])
iv = np.array([3,-4,2**40,-(2**33)], dtype=np.int64)
add('Cast', [A('to','int',1)], [iv], [iv.astype(np.float32)]); add('Cast', [A('to','int',11)], [iv], [iv.astype(np.float64)])
json.dump({'generator': 'tools/gen_golden.py (numpy %s)' % np.__version__, 'cases': cases}, open('/verif/golden/golden.json','w'))
print(len(cases), 'golden cases written')
