// Package explore contains the cooperative scheduler and the preemption-bounded DFS that
// enumerates the interleavings of harness threads at their scheduling points.
package explore

import (
	"bytes"
	"fmt"
	"runtime"
	"runtime/debug"
	"sync"
	"time"
)

// A thread that does not reach its next scheduling point may be blocked on synchronisation of the code under test
// itself (a mutex held by a thread that is waiting for the baton). That is decided from the goroutine's *state*, not
// from elapsed time alone (on a loaded machine a runnable goroutine can go without a processor for a long time, and a
// time-out would then change the enabled set and with it the meaning of a choice sequence): every PollInterval the
// scheduler looks the goroutine up in the runtime's goroutine dump; only when it was seen waiting on a synchronisation
// primitive at every poll for BlockTimeout is it taken out of the enabled set until it shows up again; the other
// threads go on. DeadlockTimeout: all unfinished threads blocked for this long = deadlock.
var (
	PollInterval    = 50 * time.Millisecond
	BlockTimeout    = 400 * time.Millisecond
	DeadlockTimeout = 20 * time.Second
)

// goroutineWaiting reports whether goroutine gid is parked on a synchronisation primitive (mutex, rwmutex, cond,
// waitgroup, channel, select) according to the runtime's goroutine dump. Running, runnable, in a system call, asleep,
// assisting the collector or unknown: false.
func goroutineWaiting(gid uint64) bool {
	buf := make([]byte, 1<<20)
	for {
		n := runtime.Stack(buf, true)
		if n < len(buf) {
			buf = buf[:n]
			break
		}
		if len(buf) >= 1<<28 {
			return false
		}
		buf = make([]byte, 2*len(buf))
	}
	key := []byte(fmt.Sprintf("goroutine %d [", gid))
	i := bytes.Index(buf, key)
	for i > 0 && buf[i-1] != '\n' {
		j := bytes.Index(buf[i+1:], key)
		if j < 0 {
			return false
		}
		i += 1 + j
	}
	if i < 0 {
		return false
	}
	rest := buf[i+len(key):]
	end := bytes.IndexAny(rest, ",]")
	if end < 0 {
		return false
	}
	switch string(rest[:end]) {
	case "semacquire", "sync.Mutex.Lock", "sync.RWMutex.Lock", "sync.RWMutex.RLock", "sync.Cond.Wait", "sync.WaitGroup.Wait",
		"chan receive", "chan send", "select", "chan receive (nil chan)", "chan send (nil chan)", "select (no cases)":
		return true
	}
	return false
}

// Point is one scheduling decision of an execution.
type Point struct {
	Enabled             []int // canonical order: running thread first if still enabled, then ascending ids
	Chosen              int   // index into Enabled
	RunningStillEnabled bool
	Running             int // thread that ran before this point (-1 at the start)
}

// Exec is one complete execution.
type Exec struct {
	Points  []Point
	Choices []int
	Threads []int // sequence of thread ids that ran (the schedule)
	Panics  map[int]string
	// Blocked: some thread blocked on the code's own synchronisation during this execution (from then on threads
	// overlap in real time and the execution is no longer determined by Choices alone); Diverged: a replayed prefix
	// could not be followed because of that; Deadlock: every unfinished thread stayed blocked for DeadlockTimeout.
	Blocked  bool
	Diverged bool
	Deadlock bool
}

func (x *Exec) PreemptionsBefore(i int) int {
	n := 0
	for k := 0; k < i; k++ {
		p := x.Points[k]
		if p.RunningStillEnabled && p.Chosen != 0 {
			n++
		}
	}
	return n
}

type event struct {
	thread int
	done   bool
	panic  string
}

// Sched runs thread bodies one at a time; bodies call Yield() at their scheduling points.
type Sched struct {
	resume  []chan struct{}
	events  chan event
	current int
	ids     sync.Map // goroutine id -> thread id
	// AtPoint, if set, is called by the scheduler (no thread running) after every step with the id
	// of the thread that just ran; returning a non-empty string aborts the execution with that error.
	AtPoint func(justRan int) string
	Abort   string
}

// Current returns the id of the thread that is running now (valid inside a body).
func (s *Sched) Current() int { return s.current }

// Yield is a scheduling point: the calling thread hands the baton back to the scheduler. The caller is identified by
// its goroutine (not by "the thread that holds the baton": after a thread was found blocked on the code's own
// synchronisation, threads can overlap).
func (s *Sched) Yield() {
	v, ok := s.ids.Load(goid())
	if !ok {
		return // a goroutine the harness does not own (spawned by the library): not a scheduling point
	}
	id := v.(int)
	s.events <- event{thread: id}
	<-s.resume[id]
}

// goid: the current goroutine's id, parsed from the first line of its stack ("goroutine 123 [running]:").
func goid() uint64 {
	var buf [40]byte
	n := runtime.Stack(buf[:], false)
	var id uint64
	for _, c := range buf[10:n] {
		if c < '0' || c > '9' {
			break
		}
		id = id*10 + uint64(c-'0')
	}
	return id
}

// Run executes the bodies under the given choice prefix (then choice 0 everywhere).
// A choice that is out of range while replaying the prefix is a hard error (panic).
func (s *Sched) Run(bodies []func(), prefix []int) *Exec {
	n := len(bodies)
	s.resume = make([]chan struct{}, n)
	s.events = make(chan event)
	s.Abort = ""
	done := make([]bool, n)
	x := &Exec{Panics: map[int]string{}}
	gids := make([]uint64, n) // written by each thread before its first receive on resume[id]
	for i := range bodies {
		s.resume[i] = make(chan struct{})
		go func(id int) {
			gids[id] = goid()
			s.ids.Store(gids[id], id)
			<-s.resume[id]
			defer func() {
				ev := event{thread: id, done: true}
				if p := recover(); p != nil {
					ev.panic = fmt.Sprintf("%v :: %s", p, trim(string(debug.Stack())))
				}
				s.events <- ev
			}()
			bodies[id]()
		}(i)
	}
	running := -1
	blocked := make([]bool, n)
	handle := func(ev event) {
		blocked[ev.thread] = false // it reached a scheduling point (or its end)
		if ev.done {
			done[ev.thread] = true
			if ev.panic != "" {
				x.Panics[ev.thread] = ev.panic
			}
		}
	}
	for {
		var enabled []int
		stillEnabled := running >= 0 && !done[running] && !blocked[running]
		if stillEnabled {
			enabled = append(enabled, running)
		}
		unfinished := 0
		for i := 0; i < n; i++ {
			if !done[i] {
				unfinished++
			}
			if !done[i] && !blocked[i] && i != running {
				enabled = append(enabled, i)
			}
		}
		if unfinished == 0 {
			break
		}
		if len(enabled) == 0 {
			// every unfinished thread is blocked outside the scheduler: wait for one of them to show up
			select {
			case ev := <-s.events:
				handle(ev)
				continue
			case <-time.After(DeadlockTimeout):
				x.Deadlock = true
				return x // the blocked goroutines are abandoned
			}
		}
		choice := 0
		if len(x.Points) < len(prefix) {
			choice = prefix[len(x.Points)]
			if choice < 0 || choice >= len(enabled) {
				if x.Blocked {
					x.Diverged = true
					choice = 0
				} else {
					panic(fmt.Sprintf("explore: divergence while replaying prefix %v at point %d: choice %d of %d enabled", prefix, len(x.Points), choice, len(enabled)))
				}
			}
		}
		x.Points = append(x.Points, Point{Enabled: enabled, Chosen: choice, RunningStillEnabled: stillEnabled, Running: running})
		x.Choices = append(x.Choices, choice)
		t := enabled[choice]
		x.Threads = append(x.Threads, t)
		s.current = t
		running = t
		s.resume[t] <- struct{}{}
		var waiting time.Duration
	wait:
		for {
			select {
			case ev := <-s.events:
				handle(ev)
				if ev.thread == t {
					break wait
				}
				// a thread that had been blocked reached its next point while t runs: keep waiting for t
			case <-time.After(PollInterval):
				if !goroutineWaiting(gids[t]) {
					waiting = 0 // merely slow (or not given a processor): not blocked
					continue
				}
				if waiting += PollInterval; waiting >= BlockTimeout {
					blocked[t] = true
					x.Blocked = true
					break wait
				}
			}
		}
		if s.AtPoint != nil && s.Abort == "" {
			if msg := s.AtPoint(t); msg != "" {
				s.Abort = msg
			}
		}
	}
	return x
}

func trim(s string) string {
	if len(s) > 1500 {
		return s[:1500]
	}
	return s
}

// Explorer enumerates all executions with at most Bound preemptions (depth-first, iterative in the bound
// by calling Explore with increasing bounds).
type Explorer struct {
	Bound      int
	NewBodies  func() (*Sched, []func())    // fresh scheduler + fresh thread bodies (fresh shared objects) per execution
	Check      func(x *Exec, s *Sched) bool // false = stop exploring (violation found)
	Executions int
	MaxPoints  int
	Limit      int // 0 = unlimited; else stop after Limit executions (reported as capped)
	Capped     bool
	Diverged   int // executions abandoned because real blocking made a prefix unreplayable
	stop       bool
}

func (e *Explorer) Explore(prefix []int) {
	if e.stop {
		return
	}
	if e.Limit > 0 && e.Executions >= e.Limit {
		e.Capped = true
		return
	}
	s, bodies := e.NewBodies()
	x := s.Run(bodies, prefix)
	e.Executions++
	if len(x.Points) > e.MaxPoints {
		e.MaxPoints = len(x.Points)
	}
	if x.Diverged {
		e.Diverged++ // timing-dependent blocking made the prefix unreplayable: this branch is not explored further
		return
	}
	if !e.Check(x, s) {
		e.stop = true
		return
	}
	for i := len(prefix); i < len(x.Points); i++ {
		p := x.Points[i]
		cost := x.PreemptionsBefore(i)
		if p.RunningStillEnabled {
			cost++ // switching away from a runnable thread is a preemption
		}
		for alt := 1; alt < len(p.Enabled); alt++ {
			if p.RunningStillEnabled && cost > e.Bound {
				continue
			}
			if !p.RunningStillEnabled && x.PreemptionsBefore(i) > e.Bound {
				continue
			}
			np := append(append([]int{}, x.Choices[:i]...), alt)
			e.Explore(np)
			if e.stop {
				return
			}
		}
	}
}
