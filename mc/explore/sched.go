// Package explore contains the cooperative scheduler and the preemption-bounded DFS that
// enumerates the interleavings of harness threads at their scheduling points.
package explore

import (
	"fmt"
	"runtime/debug"
)

// Point is one scheduling decision of an execution.
type Point struct {
	Enabled             []int // canonical order: running thread first if still enabled, then ascending ids
	Chosen              int   // index into Enabled
	RunningStillEnabled bool
	Running             int // thread that ran before this point (-1 at the start)
}

// Exec is one complete execution.
type Exec struct {
	Points  []Point
	Choices []int
	Threads []int // sequence of thread ids that ran (the schedule)
	Panics  map[int]string
}

func (x *Exec) PreemptionsBefore(i int) int {
	n := 0
	for k := 0; k < i; k++ {
		p := x.Points[k]
		if p.RunningStillEnabled && p.Chosen != 0 {
			n++
		}
	}
	return n
}

type event struct {
	thread int
	done   bool
	panic  string
}

// Sched runs thread bodies one at a time; bodies call Yield() at their scheduling points.
type Sched struct {
	resume  []chan struct{}
	events  chan event
	current int
	// AtPoint, if set, is called by the scheduler (no thread running) after every step with the id
	// of the thread that just ran; returning a non-empty string aborts the execution with that error.
	AtPoint func(justRan int) string
	Abort   string
}

// Current returns the id of the thread that is running now (valid inside a body).
func (s *Sched) Current() int { return s.current }

// Yield is a scheduling point: the calling thread hands the baton back to the scheduler.
func (s *Sched) Yield() {
	id := s.current
	s.events <- event{thread: id}
	<-s.resume[id]
}

// Run executes the bodies under the given choice prefix (then choice 0 everywhere).
// A choice that is out of range while replaying the prefix is a hard error (panic).
func (s *Sched) Run(bodies []func(), prefix []int) *Exec {
	n := len(bodies)
	s.resume = make([]chan struct{}, n)
	s.events = make(chan event)
	s.Abort = ""
	done := make([]bool, n)
	x := &Exec{Panics: map[int]string{}}
	for i := range bodies {
		s.resume[i] = make(chan struct{})
		go func(id int) {
			<-s.resume[id]
			defer func() {
				ev := event{thread: id, done: true}
				if p := recover(); p != nil {
					ev.panic = fmt.Sprintf("%v :: %s", p, trim(string(debug.Stack())))
				}
				s.events <- ev
			}()
			bodies[id]()
		}(i)
	}
	running := -1
	for {
		var enabled []int
		stillEnabled := running >= 0 && !done[running]
		if stillEnabled {
			enabled = append(enabled, running)
		}
		for i := 0; i < n; i++ {
			if !done[i] && i != running {
				enabled = append(enabled, i)
			}
		}
		if len(enabled) == 0 {
			break
		}
		choice := 0
		if len(x.Points) < len(prefix) {
			choice = prefix[len(x.Points)]
			if choice < 0 || choice >= len(enabled) {
				panic(fmt.Sprintf("explore: divergence while replaying prefix %v at point %d: choice %d of %d enabled", prefix, len(x.Points), choice, len(enabled)))
			}
		}
		x.Points = append(x.Points, Point{Enabled: enabled, Chosen: choice, RunningStillEnabled: stillEnabled, Running: running})
		x.Choices = append(x.Choices, choice)
		t := enabled[choice]
		x.Threads = append(x.Threads, t)
		s.current = t
		running = t
		s.resume[t] <- struct{}{}
		ev := <-s.events
		if ev.done {
			done[ev.thread] = true
			if ev.panic != "" {
				x.Panics[ev.thread] = ev.panic
			}
		}
		if s.AtPoint != nil && s.Abort == "" {
			if msg := s.AtPoint(t); msg != "" {
				s.Abort = msg
			}
		}
	}
	return x
}

func trim(s string) string {
	if len(s) > 1500 {
		return s[:1500]
	}
	return s
}

// Explorer enumerates all executions with at most Bound preemptions (depth-first, iterative in the bound
// by calling Explore with increasing bounds).
type Explorer struct {
	Bound      int
	NewBodies  func() (*Sched, []func())    // fresh scheduler + fresh thread bodies (fresh shared objects) per execution
	Check      func(x *Exec, s *Sched) bool // false = stop exploring (violation found)
	Executions int
	MaxPoints  int
	Limit      int // 0 = unlimited; else stop after Limit executions (reported as capped)
	Capped     bool
	stop       bool
}

func (e *Explorer) Explore(prefix []int) {
	if e.stop {
		return
	}
	if e.Limit > 0 && e.Executions >= e.Limit {
		e.Capped = true
		return
	}
	s, bodies := e.NewBodies()
	x := s.Run(bodies, prefix)
	e.Executions++
	if len(x.Points) > e.MaxPoints {
		e.MaxPoints = len(x.Points)
	}
	if !e.Check(x, s) {
		e.stop = true
		return
	}
	for i := len(prefix); i < len(x.Points); i++ {
		p := x.Points[i]
		cost := x.PreemptionsBefore(i)
		if p.RunningStillEnabled {
			cost++ // switching away from a runnable thread is a preemption
		}
		for alt := 1; alt < len(p.Enabled); alt++ {
			if p.RunningStillEnabled && cost > e.Bound {
				continue
			}
			if !p.RunningStillEnabled && x.PreemptionsBefore(i) > e.Bound {
				continue
			}
			np := append(append([]int{}, x.Choices[:i]...), alt)
			e.Explore(np)
			if e.stop {
				return
			}
		}
	}
}
