package ref

import "math"

// mulAdd accumulates a*b for the tensor dtype: floats in float64 (plus magnitude), ints wrap.
type acc struct {
	dt  DT
	f   float64
	mag float64
	i   uint64
}

func (a *acc) add(dt DT, x, y uint64) {
	if dt.IsFloat() {
		p := DecF(dt, x) * DecF(dt, y)
		a.f += p
		a.mag += math.Abs(p)
		return
	}
	a.i += x * y // two's complement wrap-around is the same for signed and unsigned
}

func (a *acc) bits(dt DT) uint64 {
	if dt.IsFloat() {
		return EncF(dt, a.f)
	}
	return EncI(dt, int64(a.i))
}

// MatMul follows numpy.matmul: 1-D operands are promoted, batch dimensions broadcast.
func MatMul(A, B *T) (*T, error) {
	if A.DT != B.DT {
		return nil, Invalid("dtype mismatch")
	}
	if len(A.Shape) == 0 || len(B.Shape) == 0 {
		return nil, Invalid("matmul of a scalar")
	}
	as, bs := append([]int{}, A.Shape...), append([]int{}, B.Shape...)
	vecA, vecB := len(as) == 1, len(bs) == 1
	if vecA {
		as = []int{1, as[0]}
	}
	if vecB {
		bs = []int{bs[0], 1}
	}
	m, k := as[len(as)-2], as[len(as)-1]
	k2, n := bs[len(bs)-2], bs[len(bs)-1]
	if k != k2 {
		return nil, Invalid("inner dimensions %d and %d differ", k, k2)
	}
	batch, ok := BroadcastShape(as[:len(as)-2], bs[:len(bs)-2])
	if !ok {
		return nil, Invalid("batch shapes %v and %v do not broadcast", as[:len(as)-2], bs[:len(bs)-2])
	}
	full := append(append([]int{}, batch...), m, n)
	out := New(A.DT, full...)
	if A.DT.IsFloat() {
		out.Mag = make([]float64, len(out.V))
		out.N = 2*k + 4
	}
	ia, ib := make([]int, len(as)), make([]int, len(bs))
	for o := range out.V {
		c := Unravel(o, full)
		bc := c[:len(batch)]
		for d := 0; d < len(as)-2; d++ {
			v := bc[len(batch)-(len(as)-2)+d]
			if as[d] == 1 {
				v = 0
			}
			ia[d] = v
		}
		for d := 0; d < len(bs)-2; d++ {
			v := bc[len(batch)-(len(bs)-2)+d]
			if bs[d] == 1 {
				v = 0
			}
			ib[d] = v
		}
		var a acc
		for x := 0; x < k; x++ {
			ia[len(as)-2], ia[len(as)-1] = c[len(full)-2], x
			ib[len(bs)-2], ib[len(bs)-1] = x, c[len(full)-1]
			a.add(A.DT, A.V[Ravel(ia, as)], B.V[Ravel(ib, bs)])
		}
		out.V[o] = a.bits(A.DT)
		if out.Mag != nil {
			out.Mag[o] = a.mag
		}
	}
	// drop the promoted axes
	var fs []int
	fs = append(fs, batch...)
	if !vecA {
		fs = append(fs, m)
	}
	if !vecB {
		fs = append(fs, n)
	}
	if fs == nil {
		fs = []int{}
	}
	out.Shape = fs
	return out, nil
}

// Gemm: alpha*op(A)*op(B) + beta*C, C unidirectionally broadcast to (M,N) or absent.
func Gemm(A, B, C *T, alpha, beta float32, transA, transB bool) (*T, error) {
	if len(A.Shape) != 2 || len(B.Shape) != 2 || A.DT != B.DT {
		return nil, Invalid("gemm operands must be matrices of one type")
	}
	at := func(t *T, trans bool, i, j int) uint64 {
		if trans {
			return t.V[j*t.Shape[1]+i]
		}
		return t.V[i*t.Shape[1]+j]
	}
	M, K := A.Shape[0], A.Shape[1]
	if transA {
		M, K = K, M
	}
	K2, N := B.Shape[0], B.Shape[1]
	if transB {
		K2, N = N, K2
	}
	if K != K2 {
		return nil, Invalid("inner dimensions differ")
	}
	var cb *T
	if C != nil {
		if C.DT != A.DT {
			return nil, Invalid("C dtype")
		}
		bs, ok := BroadcastShape([]int{M, N}, C.Shape)
		if !ok || !ShapeEq(bs, []int{M, N}) {
			return nil, Invalid("C %v not broadcastable to (%d,%d)", C.Shape, M, N)
		}
		cb, _ = BroadcastTo(C, []int{M, N})
	}
	if !A.DT.IsFloat() {
		return nil, Invalid("integer gemm not modelled")
	}
	out := New(A.DT, M, N)
	out.Mag = make([]float64, M*N)
	out.N = 2*K + 8
	for i := 0; i < M; i++ {
		for j := 0; j < N; j++ {
			var a acc
			for x := 0; x < K; x++ {
				a.add(A.DT, at(A, transA, i, x), at(B, transB, x, j))
			}
			v := float64(alpha) * a.f
			mag := math.Abs(float64(alpha)) * a.mag
			if cb != nil {
				cv := float64(beta) * cb.F(i*N+j)
				v += cv
				mag += math.Abs(cv)
			}
			out.V[i*N+j] = EncF(A.DT, v)
			out.Mag[i*N+j] = mag
		}
	}
	return out, nil
}

// LinearRegressor (ONNX-ML): Y[n,t] = sum_f X[n,f]*coef[t*F+f] + intercepts[t]; output float32.
func LinearRegressor(X *T, coef, intercepts []float32, targets int) (*T, error) {
	if X.DT != F32 {
		return nil, Invalid("only float32 modelled")
	}
	if len(X.Shape) != 2 && len(X.Shape) != 1 {
		return nil, Invalid("X must be [N,F] or [F]")
	}
	if targets < 1 || len(coef)%targets != 0 {
		return nil, Invalid("coefficients/targets mismatch")
	}
	F := len(coef) / targets
	xs := X.Shape
	if len(xs) == 1 {
		xs = []int{1, xs[0]}
	}
	if xs[1] != F {
		return nil, Invalid("feature count %d != %d", xs[1], F)
	}
	if intercepts != nil && len(intercepts) != targets && len(intercepts) != 1 {
		return nil, Invalid("intercepts length")
	}
	out := New(F32, xs[0], targets)
	out.Mag = make([]float64, len(out.V))
	out.N = 2*F + 6
	for n := 0; n < xs[0]; n++ {
		for t := 0; t < targets; t++ {
			s, mag := 0.0, 0.0
			for f := 0; f < F; f++ {
				p := X.F(n*F+f) * float64(coef[t*F+f])
				s += p
				mag += math.Abs(p)
			}
			if intercepts != nil {
				ic := float64(intercepts[t%len(intercepts)])
				s += ic
				mag += math.Abs(ic)
			}
			out.V[n*targets+t] = EncF(F32, s)
			out.Mag[n*targets+t] = mag
		}
	}
	if len(X.Shape) == 1 {
		out.Shape = []int{1, targets}
	}
	return out, nil
}

// Scaler (ONNX-ML): Y = (X - offset) * scale per feature (last axis); length F or 1; float32 arithmetic.
func Scaler(X *T, offset, scale []float32) (*T, error) {
	if X.DT != F32 {
		return nil, Invalid("only float32 modelled")
	}
	if len(X.Shape) == 0 {
		return nil, Invalid("scalar input")
	}
	F := X.Shape[len(X.Shape)-1]
	if (len(offset) != F && len(offset) != 1) || (len(scale) != F && len(scale) != 1) {
		return nil, Invalid("offset/scale length")
	}
	out := New(F32, X.Shape...)
	for i, v := range X.V {
		x := math.Float32frombits(uint32(v))
		o := offset[(i%F)%len(offset)]
		s := scale[(i%F)%len(scale)]
		y := (x - o) * s
		out.V[i] = uint64(math.Float32bits(y))
	}
	return out, nil
}
