package ref

import "sort"

func reshaped(t *T, shape []int) *T {
	return &T{DT: t.DT, Shape: append([]int{}, shape...), V: append([]uint64{}, t.V...)}
}

// Reshape with allowzero=0: 0 copies the input dimension, one -1 is inferred.
func Reshape(data *T, target []int64) (*T, error) {
	out := make([]int, len(target))
	neg := -1
	prod := 1
	for i, d := range target {
		switch {
		case d == 0:
			if i >= len(data.Shape) {
				return nil, Invalid("0 at index %d beyond input rank %d", i, len(data.Shape))
			}
			out[i] = data.Shape[i]
			prod *= out[i]
		case d == -1:
			if neg >= 0 {
				return nil, Invalid("two -1 entries")
			}
			neg = i
		case d < -1:
			return nil, Invalid("negative extent %d", d)
		default:
			out[i] = int(d)
			prod *= out[i]
		}
	}
	n := len(data.V)
	if neg >= 0 {
		if prod == 0 || n%prod != 0 {
			return nil, Invalid("cannot infer -1: %d elements, other dims product %d", n, prod)
		}
		out[neg] = n / prod
		prod *= out[neg]
	}
	if prod != n {
		return nil, Invalid("element count mismatch: %d vs %d", prod, n)
	}
	return reshaped(data, out), nil
}

func Flatten(data *T, axis int) (*T, error) {
	r := len(data.Shape)
	if axis < -r || axis > r {
		return nil, Invalid("flatten axis %d out of [-%d,%d]", axis, r, r)
	}
	if axis < 0 {
		axis += r
	}
	return reshaped(data, []int{NElem(data.Shape[:axis]), NElem(data.Shape[axis:])}), nil
}

// NormAxes normalises axes against rank; error on out-of-range or duplicates.
func NormAxes(axes []int64, rank int) ([]int, error) {
	out := make([]int, len(axes))
	seen := map[int]bool{}
	for i, a := range axes {
		if a < int64(-rank) || a >= int64(rank) {
			return nil, Invalid("axis %d out of range for rank %d", a, rank)
		}
		if a < 0 {
			a += int64(rank)
		}
		if seen[int(a)] {
			return nil, Invalid("duplicate axis %d", a)
		}
		seen[int(a)] = true
		out[i] = int(a)
	}
	return out, nil
}

// Squeeze: axes == nil means "absent" (remove every extent-1 axis).
func Squeeze(data *T, axes []int64, hasAxes bool) (*T, error) {
	r := len(data.Shape)
	drop := map[int]bool{}
	if !hasAxes {
		for i, e := range data.Shape {
			if e == 1 {
				drop[i] = true
			}
		}
	} else {
		na, err := NormAxes(axes, r)
		if err != nil {
			return nil, err
		}
		for _, a := range na {
			if data.Shape[a] != 1 {
				return nil, Invalid("axis %d has extent %d", a, data.Shape[a])
			}
			drop[a] = true
		}
	}
	var out []int
	for i, e := range data.Shape {
		if !drop[i] {
			out = append(out, e)
		}
	}
	return reshaped(data, out), nil
}

func Unsqueeze(data *T, axes []int64) (*T, error) {
	R := len(data.Shape) + len(axes)
	na, err := NormAxes(axes, R)
	if err != nil {
		return nil, err
	}
	sort.Ints(na)
	out := make([]int, 0, R)
	k, src := 0, 0
	for i := 0; i < R; i++ {
		if k < len(na) && na[k] == i {
			out = append(out, 1)
			k++
		} else {
			out = append(out, data.Shape[src])
			src++
		}
	}
	return reshaped(data, out), nil
}

func ShapeOf(data *T) *T {
	out := New(I64, len(data.Shape))
	for i, e := range data.Shape {
		out.V[i] = uint64(e)
	}
	return out
}

// I64Vec builds a 1-D int64 tensor.
func I64Vec(v ...int64) *T {
	t := New(I64, len(v))
	for i, x := range v {
		t.V[i] = uint64(x)
	}
	return t
}
