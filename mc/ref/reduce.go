package ref

import "math"

func normAxis(axis, r int) (int, error) {
	if axis < -r || axis >= r {
		return 0, Invalid("axis %d out of range for rank %d", axis, r)
	}
	if axis < 0 {
		axis += r
	}
	return axis, nil
}

// less reports a<b for the tensor's dtype (floats by value, ints by signedness).
func lessBits(dt DT, a, b uint64) bool {
	switch {
	case dt.IsFloat():
		return DecF(dt, a) < DecF(dt, b)
	case dt.IsSigned():
		return int64(a) < int64(b)
	default:
		return a < b
	}
}

// ArgMax: first occurrence of the maximum; a NaN counts as maximum (numpy rule), first NaN wins.
func ArgMax(data *T, axis int, keepdims bool) (*T, error) {
	r := len(data.Shape)
	if r == 0 {
		return nil, Invalid("argmax of a scalar")
	}
	ax, err := normAxis(axis, r)
	if err != nil {
		return nil, err
	}
	oshape := append([]int{}, data.Shape...)
	oshape[ax] = 1
	out := New(I64, oshape...)
	n := data.Shape[ax]
	for i := range out.V {
		c := Unravel(i, oshape)
		best, bestV, bestNaN := 0, uint64(0), false
		for k := 0; k < n; k++ {
			c[ax] = k
			v := data.V[Ravel(c, data.Shape)]
			isNaN := data.DT.IsFloat() && math.IsNaN(DecF(data.DT, v))
			if k == 0 {
				best, bestV, bestNaN = 0, v, isNaN
				continue
			}
			if bestNaN {
				continue
			}
			if isNaN || lessBits(data.DT, bestV, v) {
				best, bestV, bestNaN = k, v, isNaN
			}
		}
		out.V[i] = uint64(best)
	}
	if !keepdims {
		var s []int
		for k, e := range oshape {
			if k != ax {
				s = append(s, e)
			}
		}
		out.Shape = s
		if out.Shape == nil {
			out.Shape = []int{}
		}
	}
	return out, nil
}

// Reduce computes ReduceMax (max=true) or ReduceMin over axes (hasAxes=false: all axes).
func Reduce(data *T, axes []int64, hasAxes bool, keepdims bool, max bool) (*T, error) {
	r := len(data.Shape)
	red := make([]bool, r)
	if !hasAxes || len(axes) == 0 {
		for i := range red {
			red[i] = true
		}
	} else {
		na, err := NormAxes(axes, r)
		if err != nil {
			return nil, err
		}
		for _, a := range na {
			red[a] = true
		}
	}
	kshape := append([]int{}, data.Shape...)
	for i := range kshape {
		if red[i] {
			kshape[i] = 1
		}
	}
	out := New(data.DT, kshape...)
	set := make([]bool, len(out.V))
	for i, v := range data.V {
		c := Unravel(i, data.Shape)
		for k := range c {
			if red[k] {
				c[k] = 0
			}
		}
		o := Ravel(c, kshape)
		if !set[o] {
			out.V[o], set[o] = v, true
			continue
		}
		if max && lessBits(data.DT, out.V[o], v) || !max && lessBits(data.DT, v, out.V[o]) {
			out.V[o] = v
		}
	}
	if !keepdims {
		s := []int{}
		for k, e := range kshape {
			if !red[k] {
				s = append(s, e)
			}
		}
		out.Shape = s
	}
	return out, nil
}

// Softmax / LogSoftmax along one axis, numerically stable, computed in float64 and rounded to dt.
func Softmax(data *T, axis int, log bool) (*T, error) {
	r := len(data.Shape)
	ax, err := normAxis(axis, r)
	if err != nil {
		return nil, err
	}
	out := New(data.DT, data.Shape...)
	n := data.Shape[ax]
	oshape := append([]int{}, data.Shape...)
	oshape[ax] = 1
	xs := make([]float64, n)
	for i := 0; i < NElem(oshape); i++ {
		c := Unravel(i, oshape)
		m := math.Inf(-1)
		for k := 0; k < n; k++ {
			c[ax] = k
			xs[k] = data.F(Ravel(c, data.Shape))
			if xs[k] > m {
				m = xs[k]
			}
		}
		sum := 0.0
		for k := 0; k < n; k++ {
			sum += math.Exp(xs[k] - m)
		}
		for k := 0; k < n; k++ {
			c[ax] = k
			var y float64
			if log {
				y = (xs[k] - m) - math.Log(sum)
			} else {
				y = math.Exp(xs[k]-m) / sum
			}
			out.V[Ravel(c, data.Shape)] = EncF(data.DT, y)
		}
	}
	return out, nil
}
