// Package ref is the boring reference interpreter: a row-major tensor of raw bit patterns
// and one plain-loop function per ONNX operator. It shares no code with gonnx or gorgonia.
package ref

import (
	"fmt"
	"math"
)

// DT is an element type (the 14 gorgonia dtypes of ops.AllTypes).
type DT int

const (
	U8 DT = iota
	U16
	U32
	U64
	I8
	I16
	I32
	I64
	F32
	F64
	C64
	C128
	Str
	Bool
	nDT
)

var AllDT = []DT{U8, U16, U32, U64, I8, I16, I32, I64, F32, F64, C64, C128, Str, Bool}

var dtNames = [...]string{"uint8", "uint16", "uint32", "uint64", "int8", "int16", "int32", "int64", "float32", "float64", "complex64", "complex128", "string", "bool"}

func (d DT) String() string {
	if d < 0 || d >= nDT {
		return fmt.Sprintf("dt%d", int(d))
	}
	return dtNames[d]
}

func DTFromName(s string) (DT, bool) {
	for i, n := range dtNames {
		if n == s {
			return DT(i), true
		}
	}
	return 0, false
}

func (d DT) IsFloat() bool    { return d == F32 || d == F64 }
func (d DT) IsSigned() bool   { return d >= I8 && d <= I64 }
func (d DT) IsUnsigned() bool { return d >= U8 && d <= U64 }
func (d DT) IsInt() bool      { return d.IsSigned() || d.IsUnsigned() }
func (d DT) IsNumeric() bool  { return d.IsInt() || d.IsFloat() }

// Bits returns the width in bits of an integer / float type.
func (d DT) Bits() int {
	switch d {
	case U8, I8, Bool:
		return 8
	case U16, I16:
		return 16
	case U32, I32, F32:
		return 32
	case U64, I64, F64:
		return 64
	}
	return 64
}

// T is a tensor: element i (row-major) is V[i], a raw bit pattern:
// float32 -> math.Float32bits in the low 32 bits; float64 -> math.Float64bits;
// signed ints -> two's complement sign-extended to 64 bits; unsigned -> zero-extended;
// bool -> 0/1; complex / string -> an opaque small integer tag (these types are only moved around).
type T struct {
	DT    DT
	Shape []int
	V     []uint64
	// Mag, when non-nil, holds per element the magnitude sum S=Σ|a_i b_i| (+|c|) used by the
	// dot-product error bound, and N the dot length.
	Mag []float64
	N   int
}

func NElem(shape []int) int {
	n := 1
	for _, s := range shape {
		n *= s
	}
	return n
}

func New(dt DT, shape ...int) *T {
	return &T{DT: dt, Shape: append([]int{}, shape...), V: make([]uint64, NElem(shape))}
}

func (t *T) Clone() *T {
	if t == nil {
		return nil
	}
	c := &T{DT: t.DT, Shape: append([]int{}, t.Shape...), V: append([]uint64{}, t.V...), N: t.N}
	if t.Mag != nil {
		c.Mag = append([]float64{}, t.Mag...)
	}
	return c
}

func (t *T) Rank() int { return len(t.Shape) }
func (t *T) Len() int  { return len(t.V) }

// Strides returns row-major strides.
func Strides(shape []int) []int {
	st := make([]int, len(shape))
	s := 1
	for i := len(shape) - 1; i >= 0; i-- {
		st[i] = s
		s *= shape[i]
	}
	return st
}

// Unravel converts a flat index to coordinates.
func Unravel(flat int, shape []int) []int {
	c := make([]int, len(shape))
	for i := len(shape) - 1; i >= 0; i-- {
		if shape[i] > 0 {
			c[i] = flat % shape[i]
			flat /= shape[i]
		}
	}
	return c
}

func Ravel(c []int, shape []int) int {
	f := 0
	for i := range shape {
		f = f*shape[i] + c[i]
	}
	return f
}

// ---- element encoding -------------------------------------------------------------

func EncF(dt DT, x float64) uint64 {
	if dt == F32 {
		return uint64(math.Float32bits(float32(x)))
	}
	return math.Float64bits(x)
}

func DecF(dt DT, b uint64) float64 {
	if dt == F32 {
		return float64(math.Float32frombits(uint32(b)))
	}
	return math.Float64frombits(b)
}

// EncI stores an integer value truncated (wrapped) to the width of dt, canonical extension.
func EncI(dt DT, x int64) uint64 {
	switch dt {
	case I8:
		return uint64(int64(int8(x)))
	case I16:
		return uint64(int64(int16(x)))
	case I32:
		return uint64(int64(int32(x)))
	case I64:
		return uint64(x)
	case U8:
		return uint64(uint8(x))
	case U16:
		return uint64(uint16(x))
	case U32:
		return uint64(uint32(x))
	case U64:
		return uint64(x)
	case Bool:
		if x != 0 {
			return 1
		}
		return 0
	}
	return uint64(x)
}

func (t *T) F(i int) float64 { return DecF(t.DT, t.V[i]) }
func (t *T) I(i int) int64   { return int64(t.V[i]) }
func (t *T) B(i int) bool    { return t.V[i] != 0 }

// AsFloat returns element i as float64 whatever the numeric type.
func (t *T) AsFloat(i int) float64 {
	switch {
	case t.DT.IsFloat():
		return t.F(i)
	case t.DT.IsSigned():
		return float64(int64(t.V[i]))
	case t.DT == Bool:
		return float64(t.V[i])
	default:
		return float64(t.V[i])
	}
}

func FromF(dt DT, shape []int, vals ...float64) *T {
	t := New(dt, shape...)
	if len(vals) != len(t.V) {
		panic(fmt.Sprintf("ref.FromF: %d values for shape %v", len(vals), shape))
	}
	for i, v := range vals {
		t.V[i] = EncF(dt, v)
	}
	return t
}

func FromI(dt DT, shape []int, vals ...int64) *T {
	t := New(dt, shape...)
	if len(vals) != len(t.V) {
		panic(fmt.Sprintf("ref.FromI: %d values for shape %v", len(vals), shape))
	}
	for i, v := range vals {
		t.V[i] = EncI(dt, v)
	}
	return t
}

// Fill builds a tensor whose element i is f(i) interpreted for dt: for floats the value is
// float64 f(i); for ints the value is int64(f(i)); for bool f(i) != 0; complex/string tag=int.
func Fill(dt DT, shape []int, f func(i int) float64) *T {
	t := New(dt, shape...)
	for i := range t.V {
		x := f(i)
		switch {
		case dt.IsFloat():
			t.V[i] = EncF(dt, x)
		case dt == Bool:
			if x != 0 {
				t.V[i] = 1
			}
		case dt.IsInt():
			t.V[i] = EncI(dt, int64(x))
		default:
			t.V[i] = uint64(int64(x)) & 0xffff
		}
	}
	return t
}

// Distinct is the default injective, non-symmetric fill: element i = i+1 scaled per type so
// every misplaced element is visible.
func Distinct(dt DT, shape []int) *T {
	return Fill(dt, shape, func(i int) float64 {
		switch {
		case dt == Bool:
			// pattern without small period
			return float64((i*i + i/2 + 1) % 2)
		case dt == F64:
			// not representable in float32: an implementation that rounds doubles through single precision differs
			return float64(i+1)*0.75 - 2 + 1.0/3*1e-7
		case dt.IsFloat():
			return float64(i+1)*0.75 - 2
		case dt.IsSigned():
			return float64(i+1) - 3
		default:
			return float64(i + 1)
		}
	})
}

func ShapeEq(a, b []int) bool {
	if len(a) != len(b) {
		return false
	}
	for i := range a {
		if a[i] != b[i] {
			return false
		}
	}
	return true
}

func (t *T) String() string {
	if t == nil {
		return "<nil>"
	}
	n := len(t.V)
	s := fmt.Sprintf("%s%v[", t.DT, t.Shape)
	for i := 0; i < n && i < 24; i++ {
		if i > 0 {
			s += " "
		}
		switch {
		case t.DT.IsFloat():
			s += fmt.Sprintf("%g", t.F(i))
		case t.DT.IsSigned():
			s += fmt.Sprintf("%d", int64(t.V[i]))
		default:
			s += fmt.Sprintf("%d", t.V[i])
		}
	}
	if n > 24 {
		s += " ..."
	}
	return s + "]"
}

// ErrInvalid marks a request that ONNX declares invalid (the reference refuses it).
type ErrInvalid struct{ Msg string }

func (e *ErrInvalid) Error() string { return "ref: invalid request: " + e.Msg }

func Invalid(format string, a ...any) error { return &ErrInvalid{Msg: fmt.Sprintf(format, a...)} }

// ---- shape boxes ---------------------------------------------------------------------

// Box enumerates all shapes of rank 0..maxRank (or minRank..) with extents from ext, simplest first.
func Box(minRank, maxRank int, ext []int) [][]int {
	var out [][]int
	for r := minRank; r <= maxRank; r++ {
		cur := make([]int, r)
		var rec func(i int)
		rec = func(i int) {
			if i == r {
				out = append(out, append([]int{}, cur...))
				return
			}
			for _, e := range ext {
				cur[i] = e
				rec(i + 1)
			}
		}
		rec(0)
	}
	return out
}

// BroadcastShape returns the multidirectional broadcast of two shapes, ok=false if incompatible.
func BroadcastShape(a, b []int) ([]int, bool) {
	r := len(a)
	if len(b) > r {
		r = len(b)
	}
	out := make([]int, r)
	for i := 0; i < r; i++ {
		ea, eb := 1, 1
		if ia := len(a) - r + i; ia >= 0 {
			ea = a[ia]
		}
		if ib := len(b) - r + i; ib >= 0 {
			eb = b[ib]
		}
		switch {
		case ea == eb:
			out[i] = ea
		case ea == 1:
			out[i] = eb
		case eb == 1:
			out[i] = ea
		default:
			return nil, false
		}
	}
	return out, true
}

// BroadcastTo materialises t broadcast to shape (right-aligned; stretched axes pinned to 0).
func BroadcastTo(t *T, shape []int) (*T, error) {
	bs, ok := BroadcastShape(t.Shape, shape)
	if !ok || !ShapeEq(bs, shape) {
		return nil, Invalid("cannot broadcast %v to %v", t.Shape, shape)
	}
	out := New(t.DT, shape...)
	off := len(shape) - len(t.Shape)
	src := make([]int, len(t.Shape))
	for i := range out.V {
		c := Unravel(i, shape)
		for k := range t.Shape {
			if t.Shape[k] == 1 {
				src[k] = 0
			} else {
				src[k] = c[k+off]
			}
		}
		out.V[i] = t.V[Ravel(src, t.Shape)]
	}
	return out, nil
}
