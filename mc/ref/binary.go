package ref

import "math"

// Binary applies one of the twelve ONNX elementwise binary operators with multidirectional
// broadcasting. Arithmetic keeps the input type; comparisons and logic give bool.
func Binary(op string, a, b *T) (*T, error) {
	if a.DT != b.DT {
		return nil, Invalid("mixed operand types %s/%s", a.DT, b.DT)
	}
	shape, ok := BroadcastShape(a.Shape, b.Shape)
	if !ok {
		return nil, Invalid("shapes %v and %v do not broadcast", a.Shape, b.Shape)
	}
	ba, _ := BroadcastTo(a, shape)
	bb, _ := BroadcastTo(b, shape)
	dt := a.DT
	arith := op == "Add" || op == "Sub" || op == "Mul" || op == "Div"
	odt := Bool
	if arith {
		odt = dt
	}
	out := New(odt, shape...)
	for i := range out.V {
		x, y := ba.V[i], bb.V[i]
		switch {
		case arith && dt == F32:
			fx, fy := math.Float32frombits(uint32(x)), math.Float32frombits(uint32(y))
			var r float32
			switch op {
			case "Add":
				r = fx + fy
			case "Sub":
				r = fx - fy
			case "Mul":
				r = fx * fy
			case "Div":
				r = fx / fy
			}
			out.V[i] = uint64(math.Float32bits(r))
		case arith && dt == F64:
			fx, fy := math.Float64frombits(x), math.Float64frombits(y)
			var r float64
			switch op {
			case "Add":
				r = fx + fy
			case "Sub":
				r = fx - fy
			case "Mul":
				r = fx * fy
			case "Div":
				r = fx / fy
			}
			out.V[i] = math.Float64bits(r)
		case arith && dt.IsSigned():
			ix, iy := int64(x), int64(y)
			var r int64
			switch op {
			case "Add":
				r = ix + iy
			case "Sub":
				r = ix - iy
			case "Mul":
				r = ix * iy
			case "Div":
				if iy == 0 {
					return nil, Invalid("integer division by zero")
				}
				r = ix / iy // Go truncates toward zero
			}
			out.V[i] = EncI(dt, r)
		case arith && dt.IsUnsigned():
			var r uint64
			switch op {
			case "Add":
				r = x + y
			case "Sub":
				r = x - y
			case "Mul":
				r = x * y
			case "Div":
				if y == 0 {
					return nil, Invalid("integer division by zero")
				}
				r = x / y
			}
			out.V[i] = EncI(dt, int64(r))
		case arith:
			return nil, Invalid("arithmetic on %s", dt)
		case op == "And" || op == "Or" || op == "Xor":
			if dt != Bool {
				return nil, Invalid("logic on %s", dt)
			}
			bx, by := x != 0, y != 0
			var r bool
			switch op {
			case "And":
				r = bx && by
			case "Or":
				r = bx || by
			case "Xor":
				r = bx != by
			}
			if r {
				out.V[i] = 1
			}
		default: // comparisons
			var lt, eq bool
			switch {
			case dt.IsFloat():
				fx, fy := DecF(dt, x), DecF(dt, y)
				lt, eq = fx < fy, fx == fy
				if math.IsNaN(fx) || math.IsNaN(fy) {
					lt, eq = false, false
					// all comparisons false with NaN
					if op == "Equal" || op == "Greater" || op == "GreaterOrEqual" || op == "Less" || op == "LessOrEqual" {
						out.V[i] = 0
						continue
					}
				}
			case dt.IsSigned():
				lt, eq = int64(x) < int64(y), x == y
			case dt.IsUnsigned():
				lt, eq = x < y, x == y
			case dt == Bool:
				if op != "Equal" {
					return nil, Invalid("ordering on bool")
				}
				eq = x == y
			default:
				if op != "Equal" {
					return nil, Invalid("ordering on %s", dt)
				}
				eq = x == y
			}
			var r bool
			switch op {
			case "Equal":
				r = eq
			case "Greater":
				r = !lt && !eq
			case "GreaterOrEqual":
				r = !lt
			case "Less":
				r = lt
			case "LessOrEqual":
				r = lt || eq
			default:
				return nil, Invalid("unknown binary operator %s", op)
			}
			if r {
				out.V[i] = 1
			}
		}
	}
	return out, nil
}

// SpecialFloats is the special-value alphabet for a float type.
func SpecialFloats(dt DT) []uint64 {
	var out []uint64
	add := func(f float64) { out = append(out, EncF(dt, f)) }
	if dt == F32 {
		for _, f := range []float64{0, 1.401298464324817e-45, 1.1754943508222875e-38, 1, 1 - 1.0/(1<<24), 1 + 1.0/(1<<23), math.Pi / 2, 88.7, 3, 0.1, math.MaxFloat32} {
			add(f)
			add(-f)
		}
		out = append(out, uint64(math.Float32bits(float32(math.Inf(1)))), uint64(math.Float32bits(float32(math.Inf(-1)))), 0x7fc00000, 0x7fc00001, 0xffc00000)
	} else {
		for _, f := range []float64{0, 5e-324, 2.2250738585072014e-308, 1, 1 - 1.0/(1<<53), 1 + 1.0/(1<<52), math.Pi / 2, 709.8, 3, 0.1, math.MaxFloat64} {
			add(f)
			add(-f)
		}
		out = append(out, math.Float64bits(math.Inf(1)), math.Float64bits(math.Inf(-1)), 0x7ff8000000000000, 0x7ff8000000000001, 0xfff8000000000000)
	}
	return out
}

// SpecialInts is the special-value alphabet for an integer type.
func SpecialInts(dt DT) []uint64 {
	bits := uint(dt.Bits())
	var vals []int64
	if dt.IsSigned() {
		min := int64(-1) << (bits - 1)
		max := -(min + 1)
		vals = []int64{0, 1, -1, 2, -3, 7, min, min + 1, max - 1, max}
	} else {
		var max uint64 = 1<<bits - 1
		if bits == 64 {
			max = math.MaxUint64
		}
		vals = []int64{0, 1, 2, 3, 7, int64(max - 1), int64(max), int64(max/2 + 1)}
	}
	out := make([]uint64, len(vals))
	for i, v := range vals {
		out[i] = EncI(dt, v)
	}
	return out
}
