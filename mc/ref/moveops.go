package ref

import "math"

// Transpose: perm must be a permutation of 0..r-1 (nil = reverse axes).
func Transpose(data *T, perm []int64, hasPerm bool) (*T, error) {
	r := len(data.Shape)
	p := make([]int, r)
	if !hasPerm {
		for i := range p {
			p[i] = r - 1 - i
		}
	} else {
		if len(perm) != r {
			return nil, Invalid("perm length %d for rank %d", len(perm), r)
		}
		seen := make([]bool, r)
		for i, v := range perm {
			if v < 0 || int(v) >= r || seen[v] {
				return nil, Invalid("perm %v is not a permutation", perm)
			}
			seen[v] = true
			p[i] = int(v)
		}
	}
	oshape := make([]int, r)
	for i := range p {
		oshape[i] = data.Shape[p[i]]
	}
	out := New(data.DT, oshape...)
	src := make([]int, r)
	for i := range out.V {
		c := Unravel(i, oshape)
		for k := range p {
			src[p[k]] = c[k]
		}
		out.V[i] = data.V[Ravel(src, data.Shape)]
	}
	return out, nil
}

func Concat(ins []*T, axis int) (*T, error) {
	if len(ins) == 0 {
		return nil, Invalid("no inputs")
	}
	r := len(ins[0].Shape)
	if r == 0 {
		return nil, Invalid("cannot concatenate scalars")
	}
	if axis < -r || axis >= r {
		return nil, Invalid("axis %d out of range for rank %d", axis, r)
	}
	if axis < 0 {
		axis += r
	}
	oshape := append([]int{}, ins[0].Shape...)
	oshape[axis] = 0
	for _, t := range ins {
		if len(t.Shape) != r || t.DT != ins[0].DT {
			return nil, Invalid("rank/dtype mismatch")
		}
		for k := range t.Shape {
			if k != axis && t.Shape[k] != ins[0].Shape[k] {
				return nil, Invalid("off-axis extent mismatch")
			}
		}
		oshape[axis] += t.Shape[axis]
	}
	out := New(ins[0].DT, oshape...)
	for i := range out.V {
		c := Unravel(i, oshape)
		a := c[axis]
		for _, t := range ins {
			if a < t.Shape[axis] {
				c[axis] = a
				out.V[i] = t.V[Ravel(c, t.Shape)]
				break
			}
			a -= t.Shape[axis]
		}
	}
	return out, nil
}

// SliceSpec is one (start,end,axis,step) request.
type SliceSpec struct {
	Start, End, Step int64
	Axis             int64
}

// SliceRange resolves one request against an extent per the ONNX/numpy rule: returns first index,
// step and count.
func SliceRange(dim int, start, end, step int64) (first int64, count int, err error) {
	d := int64(dim)
	if step == 0 {
		return 0, 0, Invalid("step 0")
	}
	clamp := func(v, lo, hi int64) int64 {
		if v < lo {
			return lo
		}
		if v > hi {
			return hi
		}
		return v
	}
	if start < 0 {
		if start < -d {
			start = -d
		}
		start += d
	}
	if end < 0 {
		if end < -d-1 {
			end = -d - 1
		}
		end += d
	}
	if step > 0 {
		start = clamp(start, 0, d)
		end = clamp(end, 0, d)
		if end <= start {
			return start, 0, nil
		}
		n := (end - start + step - 1) / step
		if step > math.MaxInt32 {
			n = 1
		}
		return start, int(n), nil
	}
	start = clamp(start, 0, d-1)
	end = clamp(end, -1, d-1)
	if end >= start {
		return start, 0, nil
	}
	s := -step
	if s < 0 || s > math.MaxInt32 { // step == MinInt64 or huge
		return start, 1, nil
	}
	n := (start - end + s - 1) / s
	return start, int(n), nil
}

// Slice applies the requests (axes normalised, must be distinct and in range).
func Slice(data *T, specs []SliceSpec) (*T, error) {
	r := len(data.Shape)
	if r == 0 {
		return nil, Invalid("slice of a scalar")
	}
	first := make([]int64, r)
	step := make([]int64, r)
	oshape := append([]int{}, data.Shape...)
	for i := range step {
		step[i] = 1
	}
	seen := map[int]bool{}
	for _, s := range specs {
		ax := s.Axis
		if ax < int64(-r) || ax >= int64(r) {
			return nil, Invalid("axis %d out of range", ax)
		}
		if ax < 0 {
			ax += int64(r)
		}
		if seen[int(ax)] {
			return nil, Invalid("repeated axis")
		}
		seen[int(ax)] = true
		f, n, err := SliceRange(data.Shape[ax], s.Start, s.End, s.Step)
		if err != nil {
			return nil, err
		}
		first[ax], step[ax], oshape[ax] = f, s.Step, n
	}
	out := New(data.DT, oshape...)
	src := make([]int, r)
	for i := range out.V {
		c := Unravel(i, oshape)
		for k := range c {
			src[k] = int(first[k] + int64(c[k])*step[k])
		}
		out.V[i] = data.V[Ravel(src, data.Shape)]
	}
	return out, nil
}

func Gather(data, idx *T, axis int) (*T, error) {
	r := len(data.Shape)
	if r == 0 {
		return nil, Invalid("gather from a scalar")
	}
	if axis < -r || axis >= r {
		return nil, Invalid("axis out of range")
	}
	if axis < 0 {
		axis += r
	}
	dim := int64(data.Shape[axis])
	oshape := append([]int{}, data.Shape[:axis]...)
	oshape = append(oshape, idx.Shape...)
	oshape = append(oshape, data.Shape[axis+1:]...)
	out := New(data.DT, oshape...)
	q := len(idx.Shape)
	src := make([]int, r)
	for i := range out.V {
		c := Unravel(i, oshape)
		k := int64(idx.V[Ravel(c[axis:axis+q], idx.Shape)])
		if k < -dim || k >= dim {
			return nil, Invalid("index %d out of range for extent %d", k, dim)
		}
		if k < 0 {
			k += dim
		}
		copy(src, c[:axis])
		src[axis] = int(k)
		copy(src[axis+1:], c[axis+q:])
		out.V[i] = data.V[Ravel(src, data.Shape)]
	}
	return out, nil
}

func Expand(data *T, target []int64) (*T, error) {
	ts := make([]int, len(target))
	for i, v := range target {
		if v < 1 {
			return nil, Invalid("non-positive extent %d", v)
		}
		ts[i] = int(v)
	}
	shape, ok := BroadcastShape(data.Shape, ts)
	if !ok {
		return nil, Invalid("cannot expand %v to %v", data.Shape, ts)
	}
	return BroadcastTo(data, shape)
}
