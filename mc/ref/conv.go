package ref

import "math"

// ConvAttrs are the ONNX Conv attributes (nil slices = absent).
type ConvAttrs struct {
	AutoPad   string // "", NOTSET, SAME_UPPER, SAME_LOWER, VALID
	Dilations []int
	Group     int // 0 = absent
	Kernel    []int
	Pads      []int
	Strides   []int
	// Variants for the discrimination self-check
	FlipKernel, SwapPads bool
}

// Conv is the direct definition: out[n,m,o...] = sum_c sum_k W[m,c,k...] * Xpad[n,c,o*s+k*d-pad] + B[m].
func Conv(X, W, B *T, a ConvAttrs) (*T, error) {
	if X.DT != W.DT || !X.DT.IsFloat() {
		return nil, Invalid("conv dtypes")
	}
	nd := len(X.Shape) - 2
	if nd < 1 || len(W.Shape) != len(X.Shape) {
		return nil, Invalid("conv ranks X%v W%v", X.Shape, W.Shape)
	}
	if a.Group > 1 {
		return nil, Invalid("group")
	}
	N, C, M := X.Shape[0], X.Shape[1], W.Shape[0]
	if W.Shape[1] != C {
		return nil, Invalid("channel mismatch")
	}
	k := W.Shape[2:]
	if a.Kernel != nil {
		if len(a.Kernel) != nd {
			return nil, Invalid("kernel_shape rank")
		}
		for i := range k {
			if a.Kernel[i] != k[i] {
				return nil, Invalid("kernel_shape %v does not match W %v", a.Kernel, W.Shape)
			}
		}
	}
	d, s := ones(nd), ones(nd)
	if a.Dilations != nil {
		if len(a.Dilations) != nd {
			return nil, Invalid("dilations rank")
		}
		d = a.Dilations
	}
	if a.Strides != nil {
		if len(a.Strides) != nd {
			return nil, Invalid("strides rank")
		}
		s = a.Strides
	}
	pb, pe := make([]int, nd), make([]int, nd)
	in := X.Shape[2:]
	switch a.AutoPad {
	case "", "NOTSET":
		if a.Pads != nil {
			if len(a.Pads) != 2*nd {
				return nil, Invalid("pads rank")
			}
			copy(pb, a.Pads[:nd])
			copy(pe, a.Pads[nd:])
		}
	case "VALID":
	case "SAME_UPPER", "SAME_LOWER":
		for i := 0; i < nd; i++ {
			out := (in[i] + s[i] - 1) / s[i]
			total := (out-1)*s[i] + (k[i]-1)*d[i] + 1 - in[i]
			if total < 0 {
				total = 0
			}
			if a.AutoPad == "SAME_UPPER" {
				pb[i] = total / 2
			} else {
				pb[i] = (total + 1) / 2
			}
			pe[i] = total - pb[i]
		}
	default:
		return nil, Invalid("auto_pad %q", a.AutoPad)
	}
	if a.SwapPads {
		pb, pe = pe, pb
	}
	osp := make([]int, nd)
	for i := 0; i < nd; i++ {
		eff := (k[i]-1)*d[i] + 1
		num := in[i] + pb[i] + pe[i] - eff
		if num < 0 {
			return nil, Invalid("kernel larger than padded input")
		}
		osp[i] = num/s[i] + 1
	}
	if B != nil && (len(B.Shape) != 1 || B.Shape[0] != M || B.DT != X.DT) {
		return nil, Invalid("bias shape %v", B.Shape)
	}
	oshape := append([]int{N, M}, osp...)
	out := New(X.DT, oshape...)
	out.Mag = make([]float64, len(out.V))
	out.N = 2*C*NElem(k) + 6
	xi := make([]int, nd+2)
	wi := make([]int, nd+2)
	for o := range out.V {
		oc := Unravel(o, oshape)
		n, m := oc[0], oc[1]
		sum, mag := 0.0, 0.0
		for c := 0; c < C; c++ {
			for kk := 0; kk < NElem(k); kk++ {
				kc := Unravel(kk, k)
				inside := true
				xi[0], xi[1] = n, c
				wi[0], wi[1] = m, c
				for i := 0; i < nd; i++ {
					p := oc[2+i]*s[i] + kc[i]*d[i] - pb[i]
					if p < 0 || p >= in[i] {
						inside = false
						break
					}
					xi[2+i] = p
					wi[2+i] = kc[i]
					if a.FlipKernel {
						wi[2+i] = k[i] - 1 - kc[i]
					}
				}
				if !inside {
					// a tap on the zero padding: weight times ZERO, which is not "nothing" for a non-finite weight
					for i := 0; i < nd; i++ {
						wi[2+i] = kc[i]
						if a.FlipKernel {
							wi[2+i] = k[i] - 1 - kc[i]
						}
					}
					sum += 0 * W.F(Ravel(wi, W.Shape))
					continue
				}
				p := X.F(Ravel(xi, X.Shape)) * W.F(Ravel(wi, W.Shape))
				sum += p
				mag += math.Abs(p)
			}
		}
		if B != nil {
			sum += B.F(m)
			mag += math.Abs(B.F(m))
		}
		out.V[o] = EncF(X.DT, sum)
		out.Mag[o] = mag
	}
	return out, nil
}

func ones(n int) []int {
	o := make([]int, n)
	for i := range o {
		o[i] = 1
	}
	return o
}
