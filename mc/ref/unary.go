package ref

import "math"

// UnaryF is the float64 model of the float unary operators (input widened exactly, result to be
// rounded to the element type by the caller).
var UnaryF = map[string]func(x float64) float64{
	"Abs": math.Abs,
	"Relu": func(x float64) float64 {
		if math.IsNaN(x) {
			return x
		}
		if x > 0 {
			return x
		}
		return 0
	},
	"Sigmoid": func(x float64) float64 { return 1 / (1 + math.Exp(-x)) },
	"Tanh":    math.Tanh,
	"Sin":     math.Sin,
	"Cos":     math.Cos,
	"Tan":     math.Tan,
	"Asin":    math.Asin,
	"Acos":    math.Acos,
	"Atan":    math.Atan,
	"Sinh":    math.Sinh,
	"Cosh":    math.Cosh,
	"Asinh":   math.Asinh,
	"Acosh":   math.Acosh,
	"Atanh":   math.Atanh,
}

// Unary applies a unary operator elementwise (Abs also on integers; Not on bool).
func Unary(op string, x *T) (*T, error) {
	out := New(x.DT, x.Shape...)
	switch {
	case op == "Not":
		if x.DT != Bool {
			return nil, Invalid("Not on %s", x.DT)
		}
		for i, v := range x.V {
			if v == 0 {
				out.V[i] = 1
			}
		}
		return out, nil
	case op == "Abs" && x.DT.IsSigned():
		for i, v := range x.V {
			iv := int64(v)
			if iv < 0 {
				iv = -iv
			}
			out.V[i] = EncI(x.DT, iv)
		}
		return out, nil
	case op == "Abs" && x.DT.IsUnsigned():
		copy(out.V, x.V)
		return out, nil
	}
	f, ok := UnaryF[op]
	if !ok || !x.DT.IsFloat() {
		return nil, Invalid("unary %s on %s", op, x.DT)
	}
	for i := range x.V {
		out.V[i] = EncF(x.DT, f(x.F(i)))
	}
	return out, nil
}

// PRelu: slope unidirectionally broadcast to x; y = x<0 ? slope*x : x in the element type.
func PRelu(x, slope *T) (*T, error) {
	if x.DT != slope.DT {
		return nil, Invalid("dtype mismatch")
	}
	bs, ok := BroadcastShape(x.Shape, slope.Shape)
	if !ok || !ShapeEq(bs, x.Shape) {
		return nil, Invalid("slope %v not unidirectionally broadcastable to %v", slope.Shape, x.Shape)
	}
	sl, _ := BroadcastTo(slope, x.Shape)
	out := New(x.DT, x.Shape...)
	for i, v := range x.V {
		switch x.DT {
		case F32:
			fx := math.Float32frombits(uint32(v))
			if fx < 0 {
				fx = math.Float32frombits(uint32(sl.V[i])) * fx
			}
			out.V[i] = uint64(math.Float32bits(fx))
		case F64:
			fx := math.Float64frombits(v)
			if fx < 0 {
				fx = math.Float64frombits(sl.V[i]) * fx
			}
			out.V[i] = math.Float64bits(fx)
		case I32, I64:
			iv := int64(v)
			if iv < 0 {
				iv = int64(sl.V[i]) * iv
			}
			out.V[i] = EncI(x.DT, iv)
		case U32, U64:
			out.V[i] = v
		default:
			return nil, Invalid("PRelu on %s", x.DT)
		}
	}
	return out, nil
}

// StructuredFloats: every binade x mantissa in {0,1,0x..555,all-ones} x both signs + specials.
func StructuredFloats(dt DT) []uint64 {
	var out []uint64
	if dt == F32 {
		for e := uint32(0); e < 256; e++ {
			for _, m := range []uint32{0, 1, 0x2aaaaa, 0x555555, 0x7fffff, 0x400000, 0x490fdb & 0x7fffff} {
				b := e<<23 | m
				out = append(out, uint64(b), uint64(b|0x80000000))
			}
		}
		for _, f := range []float64{1, 0.5, 2, math.Pi, math.Pi / 2, math.Pi / 4, 1e-3, 88.72, 88.73, 89, 103.9, 104, 0.99999994, 1.0000001, 16, 17, 9.0109, 20, 1e4} {
			out = append(out, EncF(dt, f), EncF(dt, -f))
		}
		return out
	}
	for e := uint64(0); e < 2048; e++ {
		for _, m := range []uint64{0, 1, 0x5555555555555, 0xfffffffffffff, 0x8000000000000} {
			b := e<<52 | m
			out = append(out, b, b|1<<63)
		}
	}
	for _, f := range []float64{1, 0.5, 2, math.Pi, math.Pi / 2, math.Pi / 4, 1e-3, 709.78, 709.79, 710, 745, 746, 0.9999999999999999, 1.0000000000000002, 36, 37, 19.1, 1e4} {
		out = append(out, EncF(dt, f), EncF(dt, -f))
	}
	return out
}
