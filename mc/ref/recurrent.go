package ref

import "math"

// RecAttrs describes a recurrent node (forward direction only).
type RecAttrs struct {
	Hidden      int
	Activations []string // nil = ONNX defaults
	LBR         bool     // GRU linear_before_reset
	InputForget bool     // LSTM input_forget
	// SeqLens, when non-nil, holds the number of valid steps per batch entry (ONNX sequence_lens): beyond it the
	// entry's state is carried unchanged and its rows of Y are zero
	SeqLens []int
	// ActAlpha / ActBeta: activation_alpha / activation_beta, entry i for activation i (nil or short = ONNX defaults)
	ActAlpha, ActBeta []float64
	// Reverse: direction="reverse": the steps are processed from the last to the first; Y keeps the time positions of
	// X, Y_h is the state after the step at time 0 (not combined with SeqLens here)
	Reverse bool
	// variants for the discrimination self-check
	Variant string // "", "gate-order", "bias-slots", "peephole-slots"
}

// actFnP: activations with parameters (ONNX defaults when alpha / beta are NaN).
func actFnP(name string, alpha, beta float64) (func(float64) float64, bool) {
	def := func(v, d float64) float64 {
		if math.IsNaN(v) {
			return d
		}
		return v
	}
	switch name {
	case "hardsigmoid", "HardSigmoid":
		a, b := def(alpha, 0.2), def(beta, 0.5)
		return func(x float64) float64 { return math.Max(0, math.Min(1, a*x+b)) }, true
	case "leakyrelu", "LeakyRelu":
		a := def(alpha, 0.01)
		return func(x float64) float64 {
			if x >= 0 {
				return x
			}
			return a * x
		}, true
	case "elu", "Elu":
		a := def(alpha, 1)
		return func(x float64) float64 {
			if x >= 0 {
				return x
			}
			return a * (math.Exp(x) - 1)
		}, true
	case "thresholdedrelu", "ThresholdedRelu":
		a := def(alpha, 1)
		return func(x float64) float64 {
			if x > a {
				return x
			}
			return 0
		}, true
	case "scaledtanh", "ScaledTanh":
		a, b := def(alpha, 1), def(beta, 1)
		return func(x float64) float64 { return a * math.Tanh(b*x) }, true
	case "affine", "Affine":
		a, b := def(alpha, 1), def(beta, 0)
		return func(x float64) float64 { return a*x + b }, true
	}
	return actFn(name)
}

func actFn(name string) (func(float64) float64, bool) {
	switch name {
	case "sigmoid", "Sigmoid":
		return func(x float64) float64 { return 1 / (1 + math.Exp(-x)) }, true
	case "tanh", "Tanh":
		return math.Tanh, true
	case "relu", "Relu":
		return func(x float64) float64 {
			if x > 0 {
				return x
			}
			return 0
		}, true
	case "softsign", "Softsign":
		return func(x float64) float64 { return x / (1 + math.Abs(x)) }, true
	case "softplus", "Softplus":
		return func(x float64) float64 { // ln(1+e^x) without overflow
			if x > 0 {
				return x + math.Log1p(math.Exp(-x))
			}
			return math.Log1p(math.Exp(x))
		}, true
	}
	return nil, false
}

type mat struct {
	rows, cols int
	v          []float64
}

func (m mat) at(r, c int) float64 { return m.v[r*m.cols+c] }

// gateBlock extracts gate g (of n) from a packed tensor (1, n*H, cols) as an H x cols matrix.
func gateBlock(t *T, g, H int) mat {
	cols := 1
	if len(t.Shape) == 3 {
		cols = t.Shape[2]
	}
	m := mat{rows: H, cols: cols, v: make([]float64, H*cols)}
	for r := 0; r < H; r++ {
		for c := 0; c < cols; c++ {
			m.v[r*cols+c] = t.F((g*H+r)*cols + c)
		}
	}
	return m
}

func vecBlock(t *T, g, H int) []float64 {
	out := make([]float64, H)
	if t == nil {
		return out
	}
	for r := 0; r < H; r++ {
		out[r] = t.F(g*H + r)
	}
	return out
}

// Recurrent evaluates RNN / GRU / LSTM. Inputs: X [seq,batch,in], W [1,g*H,in], R [1,g*H,H],
// B [1,2*g*H] or nil, h0 [1,batch,H] or nil, c0 or nil, P [1,3*H] or nil.
// Returns Y [seq,1,batch,H], Y_h [1,batch,H] (and Y_c for LSTM).
func Recurrent(op string, X, W, R, B, h0, c0, P *T, a RecAttrs) ([]*T, error) {
	ng := map[string]int{"RNN": 1, "GRU": 3, "LSTM": 4}[op]
	if ng == 0 {
		return nil, Invalid("unknown recurrent op")
	}
	H := a.Hidden
	if len(X.Shape) != 3 || len(W.Shape) != 3 || len(R.Shape) != 3 || H < 1 {
		return nil, Invalid("ranks")
	}
	S, Bn, I := X.Shape[0], X.Shape[1], X.Shape[2]
	if !ShapeEq(W.Shape, []int{1, ng * H, I}) || !ShapeEq(R.Shape, []int{1, ng * H, H}) {
		return nil, Invalid("W/R shapes %v %v", W.Shape, R.Shape)
	}
	if B != nil && !ShapeEq(B.Shape, []int{1, 2 * ng * H}) {
		return nil, Invalid("B shape")
	}
	if h0 != nil && !ShapeEq(h0.Shape, []int{1, Bn, H}) {
		return nil, Invalid("initial_h shape")
	}
	if c0 != nil && !ShapeEq(c0.Shape, []int{1, Bn, H}) {
		return nil, Invalid("initial_c shape")
	}
	if P != nil && !ShapeEq(P.Shape, []int{1, 3 * H}) {
		return nil, Invalid("P shape")
	}
	defaults := map[string][]string{"RNN": {"tanh"}, "GRU": {"sigmoid", "tanh"}, "LSTM": {"sigmoid", "tanh", "tanh"}}[op]
	acts := a.Activations
	if acts == nil {
		acts = defaults
	}
	if len(acts) != len(defaults) {
		return nil, Invalid("activation count")
	}
	fs := make([]func(float64) float64, len(acts))
	for i, n := range acts {
		al, be := math.NaN(), math.NaN()
		if i < len(a.ActAlpha) {
			al = a.ActAlpha[i]
		}
		if i < len(a.ActBeta) {
			be = a.ActBeta[i]
		}
		f, ok := actFnP(n, al, be)
		if !ok {
			return nil, Invalid("activation %q", n)
		}
		fs[i] = f
	}
	order := make([]int, ng) // logical gate -> block index
	for i := range order {
		order[i] = i
	}
	if a.Variant == "gate-order" && ng >= 3 {
		order[0], order[1] = 1, 0
		if ng == 4 {
			order[1], order[2] = order[2], order[1]
		}
	}
	Wg, Rg := make([]mat, ng), make([]mat, ng)
	Wb, Rb := make([][]float64, ng), make([][]float64, ng)
	for g := 0; g < ng; g++ {
		Wg[g], Rg[g] = gateBlock(W, order[g], H), gateBlock(R, order[g], H)
		wbSlot, rbSlot := order[g], ng+order[g]
		if a.Variant == "bias-slots" { // biases read in reversed gate order
			wbSlot, rbSlot = ng-1-order[g], 2*ng-1-order[g]
		}
		Wb[g], Rb[g] = vecBlock(B, wbSlot, H), vecBlock(B, rbSlot, H)
	}
	var Pg [3][]float64
	for g := 0; g < 3; g++ {
		slot := g
		if a.Variant == "peephole-slots" {
			slot = (g + 1) % 3
		}
		Pg[g] = vecBlock(P, slot, H)
	}
	h := make([]float64, Bn*H)
	c := make([]float64, Bn*H)
	if h0 != nil {
		for i := range h {
			h[i] = h0.F(i)
		}
	}
	if c0 != nil {
		for i := range c {
			c[i] = c0.F(i)
		}
	}
	Y := New(X.DT, S, 1, Bn, H)
	lin := func(g, b, j int, xt []float64, hv []float64, withRb bool) (xw, hr float64) {
		for k := 0; k < I; k++ {
			xw += xt[b*I+k] * Wg[g].at(j, k)
		}
		for k := 0; k < H; k++ {
			hr += hv[b*H+k] * Rg[g].at(j, k)
		}
		return
	}
	xt := make([]float64, Bn*I)
	for step := 0; step < S; step++ {
		t := step
		if a.Reverse {
			t = S - 1 - step
		}
		for i := range xt {
			xt[i] = X.F(t*Bn*I + i)
		}
		nh := make([]float64, Bn*H)
		nc := make([]float64, Bn*H)
		for b := 0; b < Bn; b++ {
			switch op {
			case "RNN":
				for j := 0; j < H; j++ {
					xw, hr := lin(0, b, j, xt, h, true)
					nh[b*H+j] = fs[0](xw + hr + Wb[0][j] + Rb[0][j])
				}
			case "GRU":
				z, r := make([]float64, H), make([]float64, H)
				for j := 0; j < H; j++ {
					xw, hr := lin(0, b, j, xt, h, true)
					z[j] = fs[0](xw + hr + Wb[0][j] + Rb[0][j])
					xw, hr = lin(1, b, j, xt, h, true)
					r[j] = fs[0](xw + hr + Wb[1][j] + Rb[1][j])
				}
				for j := 0; j < H; j++ {
					xw := 0.0
					for k := 0; k < I; k++ {
						xw += xt[b*I+k] * Wg[2].at(j, k)
					}
					var rec float64
					if a.LBR {
						hr := 0.0
						for k := 0; k < H; k++ {
							hr += h[b*H+k] * Rg[2].at(j, k)
						}
						rec = r[j] * (hr + Rb[2][j])
					} else {
						for k := 0; k < H; k++ {
							rec += r[k] * h[b*H+k] * Rg[2].at(j, k)
						}
						rec += Rb[2][j]
					}
					ht := fs[1](xw + rec + Wb[2][j])
					nh[b*H+j] = (1-z[j])*ht + z[j]*h[b*H+j]
				}
			case "LSTM":
				// gate order in the packed tensors: i o f c ; peepholes: i o f
				for j := 0; j < H; j++ {
					xw, hr := lin(0, b, j, xt, h, true)
					it := fs[0](xw + hr + Pg[0][j]*c[b*H+j] + Wb[0][j] + Rb[0][j])
					xw, hr = lin(2, b, j, xt, h, true)
					ft := fs[0](xw + hr + Pg[2][j]*c[b*H+j] + Wb[2][j] + Rb[2][j])
					if a.InputForget {
						it = 1 - ft
					}
					xw, hr = lin(3, b, j, xt, h, true)
					ct := fs[1](xw + hr + Wb[3][j] + Rb[3][j])
					C := ft*c[b*H+j] + it*ct
					xw, hr = lin(1, b, j, xt, h, true)
					ot := fs[0](xw + hr + Pg[1][j]*C + Wb[1][j] + Rb[1][j])
					nc[b*H+j] = C
					nh[b*H+j] = ot * fs[2](C)
				}
			}
		}
		past := func(b int) bool { return a.SeqLens != nil && t >= a.SeqLens[b] }
		for b := 0; b < Bn; b++ {
			if past(b) {
				copy(nh[b*H:(b+1)*H], h[b*H:(b+1)*H])
				if len(c) == len(nc) {
					copy(nc[b*H:(b+1)*H], c[b*H:(b+1)*H])
				}
			}
		}
		h, c = nh, nc
		for i := range h {
			if past(i / H) {
				Y.V[t*Bn*H+i] = EncF(X.DT, 0)
				continue
			}
			Y.V[t*Bn*H+i] = EncF(X.DT, h[i])
		}
	}
	Yh := New(X.DT, 1, Bn, H)
	for i := range h {
		Yh.V[i] = EncF(X.DT, h[i])
	}
	outs := []*T{Y, Yh}
	if op == "LSTM" {
		Yc := New(X.DT, 1, Bn, H)
		for i := range c {
			Yc.V[i] = EncF(X.DT, c[i])
		}
		outs = append(outs, Yc)
	}
	return outs, nil
}
