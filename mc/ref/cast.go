package ref

import (
	"math"
	"math/big"
)

// CastInRange reports whether element value v of type from is representable "in range" for target to
// (the C11 statement only speaks about such values) and returns the converted bit pattern.
// Conversion is C-style: exact when representable, float->int truncates toward zero,
// int->float and float64->float32 round to nearest even.
func CastElem(from, to DT, v uint64) (out uint64, inRange bool) {
	switch {
	case from.IsFloat():
		x := DecF(from, v)
		switch {
		case to.IsFloat():
			if to == F32 && from == F64 && !math.IsNaN(x) && !math.IsInf(x, 0) && math.Abs(x) > math.MaxFloat32 {
				return 0, false
			}
			if math.IsNaN(x) {
				return EncF(to, math.NaN()), true
			}
			return EncF(to, x), true
		case to.IsInt():
			if math.IsNaN(x) || math.IsInf(x, 0) {
				return 0, false
			}
			t := math.Trunc(x)
			bi, _ := new(big.Float).SetFloat64(t).Int(nil)
			lo, hi := intRange(to)
			if bi.Cmp(lo) < 0 || bi.Cmp(hi) > 0 {
				return 0, false
			}
			if bi.Sign() < 0 {
				return EncI(to, bi.Int64()), true
			}
			return EncI(to, int64(bi.Uint64())), true
		}
	case from.IsInt():
		var bi *big.Int
		if from.IsSigned() {
			bi = big.NewInt(int64(v))
		} else {
			bi = new(big.Int).SetUint64(v)
		}
		switch {
		case to.IsInt():
			lo, hi := intRange(to)
			if bi.Cmp(lo) < 0 || bi.Cmp(hi) > 0 {
				return 0, false
			}
			if bi.Sign() < 0 {
				return EncI(to, bi.Int64()), true
			}
			return EncI(to, int64(bi.Uint64())), true
		case to == F64:
			f, _ := new(big.Float).SetPrec(53).SetMode(big.ToNearestEven).SetInt(bi).Float64()
			return math.Float64bits(f), true
		case to == F32:
			f, _ := new(big.Float).SetPrec(24).SetMode(big.ToNearestEven).SetInt(bi).Float32()
			return uint64(math.Float32bits(f)), true
		}
	}
	return 0, false
}

func intRange(dt DT) (lo, hi *big.Int) {
	bits := uint(dt.Bits())
	if dt.IsSigned() {
		lo = new(big.Int).Neg(new(big.Int).Lsh(big.NewInt(1), bits-1))
		hi = new(big.Int).Sub(new(big.Int).Lsh(big.NewInt(1), bits-1), big.NewInt(1))
		return
	}
	return big.NewInt(0), new(big.Int).Sub(new(big.Int).Lsh(big.NewInt(1), bits), big.NewInt(1))
}

// CastAlphabet: source values worth trying for type dt.
func CastAlphabet(dt DT) []uint64 {
	switch {
	case dt == F32 || dt == F64:
		var out []uint64
		for _, f := range []float64{0, 0.25, 0.5, 0.75, 1, 1.5, 2.5, 3.999, 127, 127.9, 128, 255, 255.5, 256, 32767, 32767.9, 32768, 65535, 65535.5, 65536, 2147483520, 2147483647, 2147483648, 4294967040, 4294967295, 4294967296,
			9223371487098961920, 9223372036854774784, 9223372036854775808, 18446742974197923840, 18446744073709549568, 16777216, 16777217, 9007199254740992, 9007199254740993, 1e-40, 1e-310, 3.4028234663852886e+38, 3.5e38, 1e300, 0.1, 1.0 / 3} {
			out = append(out, EncF(dt, f), EncF(dt, -f))
		}
		out = append(out, EncF(dt, math.Inf(1)), EncF(dt, math.Inf(-1)), EncF(dt, math.NaN()))
		return out
	case dt.Bits() <= 16:
		n := 1 << uint(dt.Bits())
		out := make([]uint64, n)
		for i := 0; i < n; i++ {
			if dt.IsSigned() {
				out[i] = EncI(dt, int64(i-n/2))
			} else {
				out[i] = uint64(i)
			}
		}
		return out
	default:
		var out []uint64
		bits := uint(dt.Bits())
		for k := uint(0); k < bits; k++ {
			for _, d := range []int64{-1, 0, 1} {
				v := int64(1)<<k + d
				out = append(out, EncI(dt, v))
				if dt.IsSigned() {
					out = append(out, EncI(dt, -v))
				}
			}
		}
		out = append(out, SpecialInts(dt)...)
		out = append(out, EncI(dt, 16777217), EncI(dt, 33554435), EncI(dt, 9007199254740993), EncI(dt, 123456789))
		// rounding witnesses: just above / below the midpoint between two neighbouring float32 (float64) values -
		// a conversion that rounds twice (through a wider or narrower float) lands on the other neighbour
		for k := uint(25); k < bits-1; k++ {
			for _, half := range []uint{24, 53} {
				if k <= half {
					continue
				}
				for _, d := range []int64{-1, 1} {
					v := int64(1)<<k + int64(1)<<(k-half) + d
					out = append(out, EncI(dt, v), EncI(dt, v+int64(1)<<(k-half+1)))
					if dt.IsSigned() {
						out = append(out, EncI(dt, -v))
					}
				}
			}
		}
		return out
	}
}
