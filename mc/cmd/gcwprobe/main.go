// Command gcwprobe is a development aid for the collector-in-the-window build (tools/gcw_overlay.py): it runs one small
// scenario a few times so that a dangling array can be attributed to a call. Not used by any registered check.
package main

import (
	"fmt"
	"os"
	"runtime"
	"sync"

	"github.com/advancedclimatesystems/gonnx/ops"
	"gorgonia.org/tensor"
	"verifmc/hx"
	"verifmc/ref"
)

func f32(shape []int) tensor.Tensor {
	n := 1
	for _, d := range shape {
		n *= d
	}
	b := make([]float32, n)
	for i := range b {
		b[i] = float32(i + 1)
	}
	t := tensor.New(tensor.WithShape(shape...), tensor.WithBacking(b))
	runtime.KeepAlive(b)
	return t
}

func togLoop() {
	var wg sync.WaitGroup
	for g := 0; g < 16; g++ {
		wg.Add(1)
		go func() {
			defer wg.Done()
			for i := 0; i < 200; i++ {
				t := hx.ToG(ref.Distinct(ref.I64, []int{2}))
				d := t.Data().([]int64)
				if d[0] != -2 || d[1] != -1 {
					fmt.Println("BAD", d)
				}
				runtime.KeepAlive(t)
			}
		}()
	}
	wg.Wait()
	fmt.Println("PROBE-OK")
}

func main() {
	if os.Args[1] == "tog-loop" {
		togLoop()
		return
	}
	a, b := f32([]int{2, 3}), f32([]int{3})
	for i := 0; i < 5; i++ {
		var x, y tensor.Tensor
		var err error
		switch os.Args[1] {
		case "uni":
			x, y, err = ops.UnidirectionalBroadcast(a, b)
		case "multi":
			x, y, err = ops.MultidirectionalBroadcast(b, a)
		case "repeat":
			y, err = tensor.Repeat(f32([]int{1, 3}), 0, 2)
			x = a
		case "repeat2":
			t := f32([]int{1, 1, 3})
			t, err = tensor.Repeat(t, 1, 2)
			t, err = tensor.Repeat(t, 0, 2)
			x, y = a, t
		case "hx-tog", "hx-snap", "hx-fromg", "hx-refill", "hx-uni":
			ra, rb := ref.Distinct(ref.I64, []int{2, 3}), ref.Distinct(ref.I64, []int{3})
			ga, gb := hx.ToG(ra), hx.ToG(rb)
			x, y = ga, gb
			if os.Args[1] == "hx-snap" {
				_ = hx.Snapshot(ga)
				_ = hx.Snapshot(gb)
			}
			if os.Args[1] == "hx-fromg" {
				hx.FromG(ga)
				hx.FromG(gb)
			}
			if os.Args[1] == "hx-refill" {
				hx.RefillG(ga, ra)
			}
			if os.Args[1] == "hx-uni" {
				x, y, err = ops.UnidirectionalBroadcast(ga, gb)
			}
		case "extradims":
			y, err = ops.AddExtraDimsToTensor(b, 2)
			x = a
		}
		runtime.GC()
		fmt.Println(i, err, x.Data(), y.Data())
		runtime.KeepAlive(x)
		runtime.KeepAlive(y)
	}
	fmt.Println("PROBE-OK")
}
