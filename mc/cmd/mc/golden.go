package main

import (
	"encoding/json"
	"fmt"
	"math"
	"os"
	"path/filepath"

	"verifmc/hx"
	"verifmc/ref"
)

// The reference interpreter is itself checked, before any verdict, against golden vectors produced
// by an independent second implementation (numpy, tools/gen_golden.py). A disagreement is a harness
// error (exit 2), never a verdict about gonnx.

type goldenTensor struct {
	DT    string    `json:"dt"`
	Shape []int     `json:"shape"`
	Data  []float64 `json:"data"`
}

type goldenAttr struct {
	Name   string    `json:"name"`
	Kind   string    `json:"kind"`
	I      int64     `json:"i"`
	Ints   []int64   `json:"ints"`
	F      float32   `json:"f"`
	Floats []float32 `json:"floats"`
	S      string    `json:"s"`
	Strs   []string  `json:"strs"`
}

type goldenCase struct {
	Op      string          `json:"op"`
	Attrs   []goldenAttr    `json:"attrs"`
	Inputs  []*goldenTensor `json:"inputs"`
	Outputs []*goldenTensor `json:"outputs"`
	Tol     float64         `json:"tol"`
}

func (g *goldenTensor) T() *ref.T {
	if g == nil {
		return nil
	}
	dt, ok := ref.DTFromName(g.DT)
	if !ok {
		hx.HarnessError("golden: bad dtype %s", g.DT)
	}
	sh := g.Shape
	if sh == nil {
		sh = []int{}
	}
	t := ref.New(dt, sh...)
	for i, v := range g.Data {
		switch {
		case dt.IsFloat():
			t.V[i] = ref.EncF(dt, v)
		case dt == ref.Bool:
			if v != 0 {
				t.V[i] = 1
			}
		default:
			t.V[i] = ref.EncI(dt, int64(v))
		}
	}
	return t
}

func goldenSelfCheck() {
	b, err := os.ReadFile(filepath.Join(hx.VerifDir(), "golden", "golden.json"))
	if err != nil {
		hx.HarnessError("cannot read golden vectors: %v", err)
	}
	var f struct {
		Cases []goldenCase `json:"cases"`
	}
	if err := json.Unmarshal(b, &f); err != nil {
		hx.HarnessError("bad golden file: %v", err)
	}
	if len(f.Cases) < 300 {
		hx.HarnessError("golden file has only %d cases", len(f.Cases))
	}
	for ci, c := range f.Cases {
		var attrs []hx.Attr
		for _, a := range c.Attrs {
			attrs = append(attrs, hx.Attr{Name: a.Name, Kind: a.Kind, I: a.I, Ints: a.Ints, F: a.F, Floats: a.Floats, S: a.S, Strs: a.Strs})
		}
		ins := make([]*ref.T, len(c.Inputs))
		for i, t := range c.Inputs {
			ins[i] = t.T()
		}
		outs, err := refEval(c.Op, attrs, ins)
		if err != nil {
			hx.HarnessError("reference self-check: golden case %d (%s %v): reference refuses: %v", ci, c.Op, c.Attrs, err)
		}
		if len(outs) < len(c.Outputs) {
			hx.HarnessError("reference self-check: golden case %d (%s): %d outputs, golden has %d", ci, c.Op, len(outs), len(c.Outputs))
		}
		for oi, g := range c.Outputs {
			want := g.T()
			got := outs[oi]
			if got.DT != want.DT || !ref.ShapeEq(got.Shape, want.Shape) {
				hx.HarnessError("reference self-check: golden case %d (%s %v) output %d: %s%v vs golden %s%v", ci, c.Op, c.Attrs, oi, got.DT, got.Shape, want.DT, want.Shape)
			}
			for i := range want.V {
				if want.DT.IsFloat() {
					a, b := got.F(i), want.F(i)
					if math.Abs(a-b) > c.Tol*(1+math.Abs(b)) {
						hx.HarnessError("reference self-check: golden case %d (%s %v) output %d element %d: %g vs golden %g", ci, c.Op, c.Attrs, oi, i, a, b)
					}
				} else if got.V[i] != want.V[i] {
					hx.HarnessError("reference self-check: golden case %d (%s %v) output %d element %d: %#x vs golden %#x", ci, c.Op, c.Attrs, oi, i, got.V[i], want.V[i])
				}
			}
		}
	}
}

func init() { selfChecks = append(selfChecks, goldenSelfCheck) }

var _ = fmt.Sprint
