package main

import (
	"fmt"
	"math"
	"strings"

	"verifmc/hx"
	"verifmc/ref"
)

// C11 — Constant, ConstantOfShape, Cast.

func init() { register("C11", "exploration", checkC11) }

var storable = []ref.DT{ref.F32, ref.F64, ref.I8, ref.I16, ref.I32, ref.I64, ref.U8, ref.U16, ref.U32, ref.U64, ref.Bool}
var numeric10 = []ref.DT{ref.F32, ref.F64, ref.I8, ref.I16, ref.I32, ref.I64, ref.U8, ref.U16, ref.U32, ref.U64}

func valueFill(dt ref.DT, sh []int) *ref.T {
	t := ref.New(dt, sh...)
	var alpha []uint64
	switch {
	case dt.IsFloat():
		alpha = ref.SpecialFloats(dt)
	case dt == ref.Bool:
		alpha = []uint64{1, 0, 1, 1, 0}
	default:
		alpha = ref.SpecialInts(dt)
	}
	for i := range t.V {
		t.V[i] = alpha[(i*3+1)%len(alpha)]
	}
	return t
}

func checkC11(c *hx.Checker) {
	c.Rule = "Constant: each of the 8 attribute names + an unknown name + 0 and 2 attributes; `value` with each of the 11 storable element types x {raw, typed} encoding x shapes of rank 0..2 (extents {1,2,3}) with special-value fills; value_float/value_int over the special alphabets; value_floats/value_ints of length 0..3. " +
		"ConstantOfShape: value in {absent, each of 11 types x {raw,typed} with one element, 0 elements, 2 elements, shape (1,1)} x shape operand over all rank 1..4 shapes of extents {1,2,3}, plus 0 / negative extents, wrong attribute name. " +
		"Cast: all 10x10 numeric (source,target) pairs x per-source alphabet restricted to values in range of the target (all 2^8 / 2^16 values for 8/16-bit sources; powers of two +-1 and extremes for wider ints; 87 floats incl. rounding ties) on shapes (n), plus (2,2) and rank 0; targets bool/string/float16/bfloat16/complex/undefined/99 must be refused. " +
		"Operator API route everywhere + Model.Run route on a sub-box. non-trivial = every case"
	c.Assumptions = []string{"Cast reference: math/big based C-style conversion (exact, truncation toward zero, round-to-nearest-even), independent of Go's native conversions; values out of the target's range are outside the statement and not asserted",
		"a zero-length list / zero-extent shape cannot be represented by gorgonia and must therefore be refused with an error (never a panic)"}
	var jobs []opJob
	// ---------------- Constant
	sh02 := ref.Box(0, 2, []int{1, 2, 3})
	for _, dt := range storable {
		for _, enc := range []string{"raw", "typed"} {
			for _, sh := range sh02 {
				v := valueFill(dt, sh)
				for _, route := range []string{"op", "model"} {
					if route == "model" && len(sh) == 2 && sh[0] == 3 {
						continue
					}
					jobs = append(jobs, newJob("Constant", []hx.Attr{hx.ATensor("value", v, enc)}, nil, []*ref.T{v}, nil, hx.DCompute, hx.Bits, route, nil,
						fmt.Sprintf("value/%s/%s/%v", dt, enc, sh), "attr=value", "vtype="+dt.String(), "enc="+enc))
				}
			}
		}
	}
	for _, b := range ref.SpecialFloats(ref.F32) {
		f := math.Float32frombits(uint32(b))
		exp := &ref.T{DT: ref.F32, Shape: []int{}, V: []uint64{b}}
		jobs = append(jobs, newJob("Constant", []hx.Attr{hx.AFloat("value_float", f)}, nil, []*ref.T{exp}, nil, hx.DCompute, hx.Bits, "op", nil, fmt.Sprintf("value_float/%x", b), "attr=value_float"))
	}
	for _, b := range ref.SpecialInts(ref.I64) {
		exp := &ref.T{DT: ref.I64, Shape: []int{}, V: []uint64{b}}
		jobs = append(jobs, newJob("Constant", []hx.Attr{hx.AInt("value_int", int64(b))}, nil, []*ref.T{exp}, nil, hx.DCompute, hx.Bits, "op", nil, fmt.Sprintf("value_int/%d", int64(b)), "attr=value_int"))
	}
	spf, spi := ref.SpecialFloats(ref.F32), ref.SpecialInts(ref.I64)
	for n := 0; n <= 3; n++ {
		for rot := 0; rot < 6; rot++ {
			fl := make([]float32, n)
			ef := ref.New(ref.F32, n)
			il := make([]int64, n)
			ei := ref.New(ref.I64, n)
			for i := 0; i < n; i++ {
				ef.V[i] = spf[(rot*5+i*7)%len(spf)]
				fl[i] = math.Float32frombits(uint32(ef.V[i]))
				ei.V[i] = spi[(rot*3+i*5)%len(spi)]
				il[i] = int64(ei.V[i])
			}
			var errN error
			_ = errN
			extra := []string{fmt.Sprintf("len=%d", n)}
			if n == 0 {
				continue // zero-length lists are outside the statement (extents >= 1) and not representable
			}
			for _, route := range []string{"op", "model"} {
				jobs = append(jobs, newJob("Constant", []hx.Attr{hx.AFloats("value_floats", fl...)}, nil, []*ref.T{ef}, errN, hx.DCompute, hx.Bits, route, nil, fmt.Sprintf("value_floats/%d/%d", n, rot), append(extra, "attr=value_floats")...))
				jobs = append(jobs, newJob("Constant", []hx.Attr{hx.AInts("value_ints", il...)}, nil, []*ref.T{ei}, errN, hx.DCompute, hx.Bits, route, nil, fmt.Sprintf("value_ints/%d/%d", n, rot), append(extra, "attr=value_ints")...))
			}
			if n == 0 {
				break
			}
		}
	}
	unsupported := ref.Invalid("unsupported attribute")
	jobs = append(jobs,
		newJob("Constant", []hx.Attr{hx.AStr("value_string", "x")}, nil, nil, unsupported, hx.DError, hx.Bits, "op", nil, "value_string"),
		newJob("Constant", []hx.Attr{hx.AStrs("value_strings", "x", "y")}, nil, nil, unsupported, hx.DError, hx.Bits, "op", nil, "value_strings"),
		newJob("Constant", []hx.Attr{{Name: "sparse_value", Kind: "int", I: 1}}, nil, nil, unsupported, hx.DError, hx.Bits, "op", nil, "sparse_value"),
		newJob("Constant", []hx.Attr{hx.AInt("values", 1)}, nil, nil, unsupported, hx.DError, hx.Bits, "op", nil, "unknown-name"),
		newJob("Constant", nil, nil, nil, unsupported, hx.DError, hx.Bits, "op", nil, "no-attribute"),
		newJob("Constant", []hx.Attr{hx.AInt("value_int", 1), hx.AFloat("value_float", 2)}, nil, nil, unsupported, hx.DError, hx.Bits, "op", nil, "two-attributes"),
		newJob("Constant", []hx.Attr{{Name: "value", Kind: "tensor"}}, nil, nil, unsupported, hx.DNoPanic, hx.Bits, "op", nil, "value-without-tensor"),
	)
	jobs[len(jobs)-1].dom = hx.DNoPanic
	// ---------------- ConstantOfShape
	shapeOps := ref.Box(1, 4, []int{1, 2, 3})
	type cosVal struct {
		attrs []hx.Attr
		val   *ref.T
		err   error
		desc  string
		tags  []string
	}
	var cvs []cosVal
	cvs = append(cvs, cosVal{nil, ref.FromF(ref.F32, []int{1}, 0), nil, "value-absent", []string{"value=absent"}})
	for _, dt := range storable {
		for _, enc := range []string{"raw", "typed"} {
			for k := 0; k < 3; k++ {
				one := valueFill(dt, []int{5})
				v := &ref.T{DT: dt, Shape: []int{1}, V: []uint64{one.V[k]}}
				cvs = append(cvs, cosVal{[]hx.Attr{hx.ATensor("value", v, enc)}, v, nil, fmt.Sprintf("value/%s/%s/%d", dt, enc, k), []string{"vtype=" + dt.String(), "enc=" + enc}})
			}
		}
		two := valueFill(dt, []int{2})
		cvs = append(cvs, cosVal{[]hx.Attr{hx.ATensor("value", two, "raw")}, nil, ref.Invalid("value must have one element"), fmt.Sprintf("value2/%s", dt), []string{"value-elements=2"}})
		sc := valueFill(dt, []int{})
		cvs = append(cvs, cosVal{[]hx.Attr{hx.ATensor("value", sc, "raw")}, &ref.T{DT: dt, Shape: []int{1}, V: sc.V}, nil, fmt.Sprintf("value-rank0/%s", dt), []string{"vtype=" + dt.String(), "value-rank0"}})
		m11 := valueFill(dt, []int{1, 1})
		cvs = append(cvs, cosVal{[]hx.Attr{hx.ATensor("value", m11, "raw")}, &ref.T{DT: dt, Shape: []int{1}, V: m11.V}, nil, fmt.Sprintf("value-1x1/%s", dt), []string{"vtype=" + dt.String(), "value-1x1"}})
	}
	cvs = append(cvs, cosVal{[]hx.Attr{hx.AInt("val", 1)}, nil, ref.Invalid("unknown attribute"), "wrong-attr", nil})
	for ci, cv := range cvs {
		shapes := shapeOps
		if ci > 0 && ci%4 != 1 {
			shapes = ref.Box(1, 2, []int{1, 2, 3})
		}
		for _, sh := range shapes {
			dims := make([]int64, len(sh))
			for i, e := range sh {
				dims[i] = int64(e)
			}
			var exp *ref.T
			if cv.err == nil {
				exp = ref.New(cv.val.DT, sh...)
				for i := range exp.V {
					exp.V[i] = cv.val.V[0]
				}
			}
			routes := []string{"op"}
			if len(sh) <= 2 {
				routes = append(routes, "model", "model-init")
			}
			for _, route := range routes {
				var init []bool
				if route == "model-init" {
					init = []bool{true}
				}
				dom := hx.DCompute
				if cv.val != nil && cv.val.DT == ref.Bool {
					dom = hx.DRefuse // bool fill value: computed correctly or refused with an error
				}
				jobs = append(jobs, newJob("ConstantOfShape", cv.attrs, []*ref.T{ref.I64Vec(dims...)}, []*ref.T{exp}, cv.err, dom, hx.Num, route, init, fmt.Sprintf("%s->%v", cv.desc, sh), cv.tags...))
			}
		}
	}
	for _, bad := range [][]int64{{0}, {2, 0}, {-1}, {2, -3}, {0, 0}} {
		jobs = append(jobs, newJob("ConstantOfShape", nil, []*ref.T{ref.I64Vec(bad...)}, nil, ref.Invalid("non-positive extent"), hx.DError, hx.Bits, "op", nil, fmt.Sprintf("bad-shape%v", bad)))
	}
	// ---------------- Cast
	castGate := map[ref.DT]bool{}
	for _, d := range gateDTs("Cast", 0) {
		castGate[d] = true
	}
	for _, from := range numeric10 {
		alpha := ref.CastAlphabet(from)
		for _, to := range numeric10 {
			var in, out []uint64
			for _, v := range alpha {
				if o, ok := ref.CastElem(from, to, v); ok {
					in, out = append(in, v), append(out, o)
				}
			}
			mk := func(sh []int, iv, ov []uint64, route, desc string) {
				x := &ref.T{DT: from, Shape: sh, V: iv}
				e := &ref.T{DT: to, Shape: sh, V: ov}
				dom := hx.DCompute
				if !castGate[from] {
					dom = hx.DRefuse // source type not accepted by the operator's own gate: computed correctly or refused
				}
				extra := []string{"to=" + to.String()}
				if strings.HasPrefix(desc, "large") {
					extra = append(extra, "large")
				}
				jobs = append(jobs, newJob("Cast", []hx.Attr{hx.AInt("to", int64(hx.OnnxDT(to)))}, []*ref.T{x}, []*ref.T{e}, nil, dom, hx.Bits, route, nil, fmt.Sprintf("%s->%s/%s", from, to, desc), extra...))
			}
			mk([]int{len(in)}, in, out, "op", "alphabet")
			mk([]int{2, 2}, in[:4], out[:4], "op", "2x2")
			mk([]int{}, in[len(in)/2:len(in)/2+1], out[len(in)/2:len(in)/2+1], "op", "scalar")
			mk([]int{2, 2}, in[:4], out[:4], "model", "2x2")
			mk([]int{3}, in[len(in)-3:], out[len(out)-3:], "model", "tail3")
			// larger tensors with odd element counts (block-splitting kernels): the alphabet repeated cyclically
			for _, n := range []int{2049, 4099, 32771, 65539, 4096, 65536} {
				iv, ov := make([]uint64, n), make([]uint64, n)
				for k := range iv {
					iv[k], ov[k] = in[(k*7+1)%len(in)], out[(k*7+1)%len(in)]
				}
				mk([]int{n}, iv, ov, "op", fmt.Sprintf("large%d", n))
			}
		}
		for _, code := range append([]int64{0, 8, 9, 10, 14, 15, 16, 17, 22, 99, -1, -2, 1<<32 + 1, 1<<32 + 7}, extremeInts...) {
			x := &ref.T{DT: from, Shape: []int{2}, V: alpha[:2]}
			jobs = append(jobs, newJob("Cast", []hx.Attr{hx.AInt("to", code)}, []*ref.T{x}, nil, ref.Invalid("unsupported target"), hx.DError, hx.Bits, "op", nil, fmt.Sprintf("%s->code%d", from, code), fmt.Sprintf("to=code%d", code)))
		}
	}
	jobs = append(jobs, newJob("Cast", nil, []*ref.T{ref.FromF(ref.F32, []int{1}, 1)}, nil, ref.Invalid("no to"), hx.DError, hx.Bits, "op", nil, "to-absent"),
		newJob("Cast", []hx.Attr{hx.AInt("too", 1)}, []*ref.T{ref.FromF(ref.F32, []int{1}, 1)}, nil, ref.Invalid("bad attr"), hx.DError, hx.Bits, "op", nil, "wrong-attr"))
	// an attribute the operator does not know next to `to`, before and after it: refused whatever the order
	for _, order := range [][]hx.Attr{{hx.AInt("to", 1), hx.AInt("saturate", 1)}, {hx.AInt("saturate", 1), hx.AInt("to", 1)}, {hx.AInt("to", 1), hx.AInt("too", 7)}, {hx.AInt("to", 1), hx.AInt("to", 7)}, {hx.AInt("to", 7), hx.AInt("to", 1)}} {
		jobs = append(jobs, newJob("Cast", order, []*ref.T{ref.FromF(ref.F32, []int{2}, 1, 2)}, nil, ref.Invalid("attribute list"), hx.DError, hx.Bits, "op", nil, fmt.Sprintf("extra-attribute %s,%s", order[0].Name, order[1].Name), "extra-attribute"))
	}
	runOpJobs(c, jobs)
	runReuseJobs(c, jobs)
}
