package main

import (
	"encoding/json"
	"fmt"
	"os"
	"strings"

	"verifmc/hx"
)

// replayers rebuild one case from its JSON body alone and re-run it on the current tree.
var replayers = map[string]func(raw json.RawMessage) *hx.Violation{}

func replayFile(path string) int {
	b, err := os.ReadFile(path)
	if err != nil {
		fmt.Println("cannot read replay file:", err)
		return 2
	}
	var f struct {
		Property string          `json:"property"`
		CaseID   string          `json:"case_id"`
		Kind     string          `json:"kind"`
		Detail   string          `json:"detail"`
		Replay   json.RawMessage `json:"replay"`
	}
	if err := json.Unmarshal(b, &f); err != nil {
		fmt.Println("bad replay file:", err)
		return 2
	}
	var k struct {
		ReplayKind string `json:"replay_kind"`
	}
	json.Unmarshal(f.Replay, &k)
	fn, ok := replayers[k.ReplayKind]
	if !ok {
		fmt.Printf("no replayer for kind %q\n", k.ReplayKind)
		return 2
	}
	fmt.Printf("replaying property=%s case=%s (recorded: %s: %s)\n", f.Property, f.CaseID, f.Kind, f.Detail)
	v := fn(f.Replay)
	if v == nil || strings.HasPrefix(v.Kind, "ok") {
		fmt.Println("REPLAY: case passes on the current tree")
		return 0
	}
	fmt.Printf("REPLAY: still fails: %s: %s\n", v.Kind, v.Detail)
	fmt.Printf("VIOLATION property=%s replay=%s\n", f.Property, path)
	return 1
}
