package main

import (
	"encoding/json"
	"fmt"
	"google.golang.org/protobuf/proto"

	gonnx "github.com/advancedclimatesystems/gonnx"
	"github.com/advancedclimatesystems/gonnx/onnx"
	"verifmc/hx"
	"verifmc/ref"
)

// C06 — RNN, GRU, LSTM: ONNX recurrences, optional inputs, attributes, splitting.

func init() {
	register("C06", "exploration", checkC06)
	replayers["rec-split"] = func(raw json.RawMessage) *hx.Violation {
		var r recSplit
		if err := json.Unmarshal(raw, &r); err != nil {
			return &hx.Violation{Kind: "bad-replay", Detail: err.Error()}
		}
		return r.run()
	}
}

func recFill(dt ref.DT, sh []int, salt int) *ref.T {
	return ref.Fill(dt, sh, func(i int) float64 {
		return (float64((i*7+salt*11)%19)/9.5 - 1) * 0.9
	})
}

type recCfg struct {
	Op               string `json:"op"`
	DT               string `json:"dt"`
	S, B, I, H       int
	HasB, HasH0      bool
	HasC0, HasP      bool
	Trail            bool     `json:"trail"`
	Acts             []string `json:"acts,omitempty"`
	LBR, InputForget bool
	Route            string    `json:"route"`
	ActAlpha         []float64 `json:"act_alpha,omitempty"` // activation_alpha (entry i for activation i)
	ActBeta          []float64 `json:"act_beta,omitempty"`
	Reverse          bool      `json:"reverse,omitempty"` // direction="reverse"
	XScale           float64   `json:"xscale,omitempty"`  // > 0: X multiplied by this (pre-activations far beyond +-88)
}

func (cf recCfg) gates() int { return map[string]int{"RNN": 1, "GRU": 3, "LSTM": 4}[cf.Op] }

func (cf recCfg) dt() ref.DT {
	d, _ := ref.DTFromName(cf.DT)
	return d
}

// tensors builds X, W, R, B, h0, c0, P for the configuration (nil where absent).
func (cf recCfg) tensors() (X, W, R, B, h0, c0, P *ref.T) {
	dt, g := cf.dt(), cf.gates()
	X = recFill(dt, []int{cf.S, cf.B, cf.I}, 1)
	if cf.XScale > 0 {
		x0 := X
		X = ref.Fill(dt, x0.Shape, func(i int) float64 { return x0.F(i) * cf.XScale })
	}
	W = recFill(dt, []int{1, g * cf.H, cf.I}, 2)
	R = recFill(dt, []int{1, g * cf.H, cf.H}, 3)
	if cf.HasB {
		B = recFill(dt, []int{1, 2 * g * cf.H}, 4)
	}
	if cf.HasH0 {
		h0 = recFill(dt, []int{1, cf.B, cf.H}, 5)
	}
	if cf.HasC0 {
		c0 = recFill(dt, []int{1, cf.B, cf.H}, 6)
	}
	if cf.HasP {
		P = recFill(dt, []int{1, 3 * cf.H}, 7)
	}
	return
}

func (cf recCfg) attrs() ([]hx.Attr, ref.RecAttrs) {
	as := []hx.Attr{hx.AInt("hidden_size", int64(cf.H))}
	ra := ref.RecAttrs{Hidden: cf.H, Activations: cf.Acts, LBR: cf.LBR, InputForget: cf.InputForget, Reverse: cf.Reverse}
	if cf.Reverse {
		as = append(as, hx.AStr("direction", "reverse"))
	}
	if cf.ActAlpha != nil {
		ra.ActAlpha = cf.ActAlpha
		v := make([]float32, len(cf.ActAlpha))
		for i, x := range cf.ActAlpha {
			v[i] = float32(x)
		}
		as = append(as, hx.AFloats("activation_alpha", v...))
	}
	if cf.ActBeta != nil {
		ra.ActBeta = cf.ActBeta
		v := make([]float32, len(cf.ActBeta))
		for i, x := range cf.ActBeta {
			v[i] = float32(x)
		}
		as = append(as, hx.AFloats("activation_beta", v...))
	}
	if cf.Acts != nil {
		as = append(as, hx.AStrs("activations", cf.Acts...))
	}
	if cf.LBR {
		as = append(as, hx.AInt("linear_before_reset", 1))
	}
	if cf.InputForget {
		as = append(as, hx.AInt("input_forget", 1))
	}
	return as, ra
}

func (cf recCfg) inputs(X, W, R, B, h0, c0, P *ref.T) []*ref.T {
	if cf.Op == "LSTM" {
		return []*ref.T{X, W, R, B, nil, h0, c0, P}
	}
	return []*ref.T{X, W, R, B, nil, h0}
}

func (cf recCfg) nOut() int {
	if cf.Op == "LSTM" {
		return 3
	}
	return 2
}

func (cf recCfg) cmp() hx.Cmp {
	if cf.XScale > 0 {
		// unbounded activations (relu) let intermediate values grow to 1e4..1e5 before they cancel: float32 rounding of
		// those is visible in the result; the scaled cases look for overflow (Inf / NaN against a finite value)
		return hx.Tol(2e-2, 2e-2)
	}
	if cf.dt() == ref.F64 {
		return hx.Tol(1e-11, 1e-11)
	}
	return hx.Tol(2e-5*float64(cf.S), 2e-5*float64(cf.S))
}

func (cf recCfg) tags() []string {
	t := []string{"op=" + cf.Op, "dtype=" + cf.DT, "route=" + cf.Route}
	if cf.H == 1 {
		t = append(t, "hidden=1")
	}
	if cf.HasH0 {
		t = append(t, "initial_h")
	}
	if cf.HasC0 {
		t = append(t, "initial_c")
	}
	if cf.HasP {
		t = append(t, "peepholes")
	}
	if !cf.HasB {
		t = append(t, "no-bias")
	}
	if cf.LBR {
		t = append(t, "linear_before_reset=1")
	}
	if cf.InputForget {
		t = append(t, "input_forget=1")
	}
	if cf.Acts != nil {
		t = append(t, "activations-given")
	}
	return t
}

func (cf recCfg) id() string {
	return fmt.Sprintf("%s/%s/%s/s%db%di%dh%d/B%v h0%v c0%v P%v trail%v acts%v lbr%v if%v rev%v xs%v", cf.Op, cf.DT, cf.Route, cf.S, cf.B, cf.I, cf.H, cf.HasB, cf.HasH0, cf.HasC0, cf.HasP, cf.Trail, cf.Acts, cf.LBR, cf.InputForget, cf.Reverse, cf.XScale)
}

func (cf recCfg) job() opJob {
	X, W, R, B, h0, c0, P := cf.tensors()
	attrs, ra := cf.attrs()
	exp, err := ref.Recurrent(cf.Op, X, W, R, B, h0, c0, P, ra)
	dom := hx.DCompute
	if cf.dt() != ref.F32 || cf.LBR || cf.InputForget || cf.Reverse {
		dom = hx.DRefuse // must be honoured (match the reference WITH the attribute) or refused
	}
	ins := cf.inputs(X, W, R, B, h0, c0, P)
	var init []bool
	rt := cf.Route
	if rt == "model" {
		init = make([]bool, len(ins))
		init[1], init[2], init[3] = true, true, true
		if len(ins) > 7 {
			init[7] = true
		}
	}
	if rt == "model-state-init" {
		rt = "model"
		init = make([]bool, len(ins))
		for i := 1; i < len(ins); i++ {
			init[i] = true
		}
	}
	j := newJob(cf.Op, attrs, ins, exp, err, dom, cf.cmp(), rt, init, cf.id())
	j.oc.Trail = cf.Trail
	j.oc.NOut = cf.nOut()
	j.id, j.tags = cf.id(), append(cf.tags(), "domain="+string(j.dom))
	return j
}

// ---- splitting ------------------------------------------------------------------------

type recSplit struct {
	ReplayKind string `json:"replay_kind"`
	Cfg        recCfg `json:"cfg"`
	K          int    `json:"k"`
	ViaModel   bool   `json:"via_model"`
	// StateOnly (with ViaModel): the first piece is run by a node that skips Y (outputs ["", "Y_h"(, "Y_c")]) -
	// only the final state is asked for, as a streaming caller would
	StateOnly bool `json:"state_only,omitempty"`
}

func sliceSeq(X *ref.T, from, to int) *ref.T {
	per := ref.NElem(X.Shape[1:])
	return &ref.T{DT: X.DT, Shape: append([]int{to - from}, X.Shape[1:]...), V: append([]uint64{}, X.V[from*per:to*per]...)}
}

func (r *recSplit) run() *hx.Violation {
	cf := r.Cfg
	X, W, R, B, h0, c0, P := cf.tensors()
	attrs, ra := cf.attrs()
	whole, err := ref.Recurrent(cf.Op, X, W, R, B, h0, c0, P, ra)
	if err != nil {
		return nil
	}
	mk := func(kind, detail string) *hx.Violation { return &hx.Violation{Kind: kind, Detail: detail, Replay: r} }
	X1, X2 := sliceSeq(X, 0, r.K), sliceSeq(X, r.K, cf.S)
	var o1, o2 []*ref.T
	if !r.ViaModel {
		c1 := &hx.OpCase{Op: cf.Op, Attrs: attrs, Inputs: hx.ToTJs(cf.inputs(X1, W, R, B, h0, c0, P)), NOut: cf.nOut(), Route: "op"}
		r1 := hx.RunOp(c1)
		if k, d := hx.Judge(hx.DNoPanic, r1, nil, cf.cmp()); k != "" {
			return mk(k, "first piece: "+d)
		}
		if r1.Err != nil {
			return hx.OK("split-refused")
		}
		o1 = r1.Outs
		var c02 *ref.T
		if cf.Op == "LSTM" {
			if len(o1) != 3 || o1[2] == nil {
				return mk("nil-output", "first piece returned no Y_c")
			}
			c02 = o1[2]
		}
		if len(o1) < 2 || o1[0] == nil || o1[1] == nil {
			return mk("nil-output", "first piece returned nil outputs")
		}
		c2 := &hx.OpCase{Op: cf.Op, Attrs: attrs, Inputs: hx.ToTJs(cf.inputs(X2, W, R, B, o1[1], c02, P)), NOut: cf.nOut(), Route: "op"}
		r2 := hx.RunOp(c2)
		if k, d := hx.Judge(hx.DCompute, r2, nil, cf.cmp()); k == "panic" || k == "mutated-input" || k == "refused" {
			return mk(k, "second piece: "+d)
		}
		o2 = r2.Outs
	} else {
		var v *hx.Violation
		o1, o2, v = r.runViaModel(X1, X2, W, R, B, h0, c0, P, attrs)
		if v != nil {
			return v
		}
		if o1 == nil {
			return hx.OK("split-refused")
		}
	}
	if len(o2) != cf.nOut() || o2[0] == nil || o2[1] == nil {
		return mk("nil-output", "second piece returned nil outputs")
	}
	if r.StateOnly {
		// only the second piece's Y is available: it must equal the tail of the whole Y
		per := ref.NElem(whole[0].Shape[1:])
		tail := &ref.T{DT: whole[0].DT, Shape: append([]int{cf.S - r.K}, whole[0].Shape[1:]...), V: whole[0].V[r.K*per:]}
		if k, d := hx.CompareT(o2[0], tail, cf.cmp()); k != "" {
			return mk(k, fmt.Sprintf("Y of the second piece after split at %d (first piece asked for the final state only) differs from the whole sequence: %s", r.K, d))
		}
		for i := 1; i < cf.nOut(); i++ {
			if k, d := hx.CompareT(o2[i], whole[i], cf.cmp()); k != "" {
				return mk(k, fmt.Sprintf("final state %d after split at %d (first piece asked for the final state only) differs from the whole sequence: %s", i, r.K, d))
			}
		}
		return hx.OK("split-consistent")
	}
	// concat(Y1, Y2) vs whole Y; final states vs whole
	if o1[0] == nil {
		return mk("nil-output", "first piece Y nil")
	}
	if len(o1[0].Shape) != 4 || len(o2[0].Shape) != 4 {
		return mk("wrong-shape", fmt.Sprintf("piece outputs have shapes %v and %v", o1[0].Shape, o2[0].Shape))
	}
	cat := &ref.T{DT: o1[0].DT, Shape: append([]int{o1[0].Shape[0] + o2[0].Shape[0]}, o1[0].Shape[1:]...), V: append(append([]uint64{}, o1[0].V...), o2[0].V...)}
	if k, d := hx.CompareT(cat, whole[0], cf.cmp()); k != "" {
		return mk(k, fmt.Sprintf("concat(Y1,Y2) after split at %d differs from the whole sequence: %s", r.K, d))
	}
	for i := 1; i < cf.nOut(); i++ {
		if k, d := hx.CompareT(o2[i], whole[i], cf.cmp()); k != "" {
			return mk(k, fmt.Sprintf("final state %d after split at %d differs from the whole sequence: %s", i, r.K, d))
		}
	}
	return hx.OK("split-consistent")
}

// runViaModel: one Model, two Runs; the state tensors returned by Run 1 are fed (as the very same
// tensor objects) into Run 2.
func (r *recSplit) runViaModel(X1, X2, W, R, B, h0, c0, P *ref.T, attrs []hx.Attr) (o1, o2 []*ref.T, v *hx.Violation) {
	cf := r.Cfg
	mk := func(kind, detail string) *hx.Violation { return &hx.Violation{Kind: kind, Detail: detail, Replay: r} }
	defer func() {
		if p := recover(); p != nil {
			v = mk("panic", fmt.Sprint(p))
		}
	}()
	names := []string{"X", "W", "R", "B", "", "h0"}
	outs := []string{"Y", "Y_h"}
	if cf.Op == "LSTM" {
		names = append(names, "c0", "P")
		outs = append(outs, "Y_c")
	}
	if B == nil {
		names[3] = ""
	}
	if P == nil && cf.Op == "LSTM" {
		names[7] = ""
	}
	// state inputs are always wired (zeros when the configuration has none) so that Run 2 can be fed
	if h0 == nil {
		h0 = ref.New(X1.DT, 1, cf.B, cf.H)
	}
	if cf.Op == "LSTM" && c0 == nil {
		c0 = ref.New(X1.DT, 1, cf.B, cf.H)
	}
	g := &onnx.GraphProto{Name: "g", Node: []*onnx.NodeProto{hx.Node(cf.Op, names, outs, attrs)}}
	g.Initializer = append(g.Initializer, hx.TensorProto("W", W, "raw"), hx.TensorProto("R", R, "raw"))
	if B != nil {
		g.Initializer = append(g.Initializer, hx.TensorProto("B", B, "raw"))
	}
	if P != nil {
		g.Initializer = append(g.Initializer, hx.TensorProto("P", P, "raw"))
	}
	g.Input = append(g.Input, hx.ValueInfo("X", X1.DT, []hx.DimSpec{{Param: "seq"}, {Fixed: int64(cf.B)}, {Fixed: int64(cf.I)}}),
		hx.ValueInfo("h0", X1.DT, hx.FixedDims(h0.Shape)))
	if cf.Op == "LSTM" {
		g.Input = append(g.Input, hx.ValueInfo("c0", X1.DT, hx.FixedDims(c0.Shape)))
	}
	for _, o := range outs {
		g.Output = append(g.Output, hx.ValueInfoNoShape(o))
	}
	m, err := gonnx.NewModelFromBytes(hx.Marshal(hx.Model(g, 13)))
	if err != nil {
		return nil, nil, mk("refused", "model did not load: "+err.Error())
	}
	m1 := m
	if r.StateOnly {
		g1 := proto.Clone(g).(*onnx.GraphProto)
		g1.Node[0].Output[0] = ""
		g1.Output = g1.Output[1:]
		if m1, err = gonnx.NewModelFromBytes(hx.Marshal(hx.Model(g1, 13))); err != nil {
			return nil, nil, mk("refused", "model did not load: "+err.Error())
		}
	}
	in1 := gonnx.Tensors{"X": hx.ToG(X1), "h0": hx.ToG(h0)}
	if cf.Op == "LSTM" {
		in1["c0"] = hx.ToG(c0)
	}
	r1, err := m1.Run(in1)
	if err != nil {
		return nil, nil, nil // refused: acceptable for D_refuse configurations; D_compute ones are judged by the unsplit case
	}
	read := func(res gonnx.Tensors) ([]*ref.T, *hx.Violation) {
		var o []*ref.T
		for i, n := range outs {
			if i == 0 && r.StateOnly && len(res) == len(outs)-1 {
				o = append(o, nil) // the first piece did not ask for Y
				continue
			}
			t, ok := res[n]
			if !ok || t == nil {
				return nil, mk("nil-output", "output "+n+" missing or nil")
			}
			rt, e := hx.FromG(t)
			if e != nil {
				return nil, mk("unreadable-output", e.Error())
			}
			o = append(o, rt)
		}
		return o, nil
	}
	if o1, v = read(r1); v != nil {
		return
	}
	in2 := gonnx.Tensors{"X": hx.ToG(X2), "h0": r1["Y_h"]}
	if cf.Op == "LSTM" {
		in2["c0"] = r1["Y_c"]
	}
	r2, err := m.Run(in2)
	if err != nil {
		return nil, nil, mk("refused", "second Run (fed with the states returned by the first) failed: "+err.Error())
	}
	o2, v = read(r2)
	return
}

func checkC06(c *hx.Checker) {
	thorough := c.Tier == "thorough"
	c.Rule = "op in {RNN,GRU,LSTM} x (seq,batch,input,hidden) in {1,2,3}^4 x every subset of optional inputs {B, initial_h (, initial_c, P)} x absent inputs spelled as omitted-trailing or empty name x linear_before_reset {0,1} (GRU) x input_forget {0,1} (LSTM), float32; " +
		"all activation tuples over {sigmoid,tanh,relu} (3 / 9 / 27) + unknown + wrong-arity tuples on a geometry sub-box; float64 on a sub-box; Operator API route everywhere, single-node Model.Run route (W,R,B,P initializers; and all operands incl. states as initializers) on a sub-box; " +
		"splitting: every case with seq>=2 x every split point k, through the Operator API and through two Runs on one Model feeding the returned state tensors back; instance-reuse histories. " +
		"non-trivial = every case; a discrimination self-check requires gate-order / bias-slot / peephole-slot / linear_before_reset / input_forget variants of the reference to differ from the truth by > 100x the tolerance"
	c.Assumptions = []string{"reference: ONNX equations evaluated per scalar in float64 (ref/recurrent.go), gate packing iofc / zrh, bias = [Wb, Rb], peepholes iof",
		"tolerance 2e-5*seq (abs+rel) for float32: the discrimination check shows every plausible mis-wiring differs by > 2e-3",
		"linear_before_reset=1, input_forget=1 and float64 are 'honoured or refused': expected = the reference WITH the attribute; a result equal to the reference without it is a violation (never ignored)"}
	var jobs []opJob
	var splits []recSplit
	geoms := seqs([]int64{1, 2, 3}, 4, 4)
	// discrimination self-check
	{
		disc := map[string]int{}
		for _, op := range []string{"GRU", "LSTM"} {
			cf := recCfg{Op: op, DT: "float32", S: 2, B: 2, I: 2, H: 2, HasB: true, HasH0: true, HasC0: op == "LSTM", HasP: op == "LSTM", Route: "op"}
			X, W, R, B, h0, c0, P := cf.tensors()
			truth, _ := ref.Recurrent(op, X, W, R, B, h0, c0, P, ref.RecAttrs{Hidden: 2})
			for _, variant := range []ref.RecAttrs{{Hidden: 2, Variant: "gate-order"}, {Hidden: 2, Variant: "bias-slots"}, {Hidden: 2, Variant: "peephole-slots"}, {Hidden: 2, LBR: true}, {Hidden: 2, InputForget: true}} {
				name := variant.Variant
				if variant.LBR {
					name = "lbr"
				}
				if variant.InputForget {
					name = "input_forget"
				}
				if (name == "peephole-slots" || name == "input_forget") && op != "LSTM" || name == "lbr" && op != "GRU" {
					continue
				}
				v, _ := ref.Recurrent(op, X, W, R, B, h0, c0, P, variant)
				ok := false
				for i := range truth[0].V {
					if d := truth[0].F(i) - v[0].F(i); d > 2e-3 || d < -2e-3 {
						ok = true
					}
				}
				if !ok {
					hx.HarnessError("recurrent fills do not discriminate variant %s of %s", name, op)
				}
				disc[op+"/"+name]++
			}
		}
		c.Extra["discrimination"] = disc
	}
	for _, op := range []string{"RNN", "GRU", "LSTM"} {
		for _, g := range geoms {
			S, Bn, I, H := int(g[0]), int(g[1]), int(g[2]), int(g[3])
			nOpt := 2
			if op == "LSTM" {
				nOpt = 4
			}
			for mask := 0; mask < 1<<nOpt; mask++ {
				base := recCfg{Op: op, DT: "float32", S: S, B: Bn, I: I, H: H, HasB: mask&1 != 0, HasH0: mask&2 != 0, HasC0: mask&4 != 0, HasP: mask&8 != 0, Route: "op"}
				var variants []recCfg
				variants = append(variants, base)
				tr := base
				tr.Trail = true
				variants = append(variants, tr)
				if op == "GRU" {
					v := base
					v.LBR = true
					variants = append(variants, v)
				}
				if op == "LSTM" {
					v := base
					v.InputForget = true
					variants = append(variants, v)
				}
				for _, v := range variants {
					jobs = append(jobs, v.job())
					if S >= 2 && !v.Trail {
						for k := 1; k < S; k++ {
							splits = append(splits, recSplit{ReplayKind: "rec-split", Cfg: v, K: k})
							if (Bn+I+H)%2 == 0 || thorough {
								splits = append(splits, recSplit{ReplayKind: "rec-split", Cfg: v, K: k, ViaModel: true})
								splits = append(splits, recSplit{ReplayKind: "rec-split", Cfg: v, K: k, ViaModel: true, StateOnly: true})
							}
						}
					}
				}
				if S <= 2 && I <= 2 && (H == 2 || H == 3) {
					m := base
					m.Route = "model"
					jobs = append(jobs, m.job())
					if Bn == 2 {
						m2 := base
						m2.Route = "model-state-init"
						jobs = append(jobs, m2.job())
					}
				}
			}
		}
		// activations
		acts := []string{"sigmoid", "tanh", "relu"}
		nAct := map[string]int{"RNN": 1, "GRU": 2, "LSTM": 3}[op]
		for _, g := range [][4]int{{2, 2, 2, 2}, {3, 1, 2, 3}, {1, 3, 3, 2}} {
			base := recCfg{Op: op, DT: "float32", S: g[0], B: g[1], I: g[2], H: g[3], HasB: true, HasH0: true, HasC0: op == "LSTM", HasP: op == "LSTM", Route: "op"}
			for _, ix := range seqs(rangeI64(0, 2), nAct, nAct) {
				v := base
				for _, k := range ix {
					v.Acts = append(v.Acts, acts[k])
				}
				jobs = append(jobs, v.job())
				// every activation tuple also together with linear_before_reset / input_forget (honoured or refused)
				if op == "GRU" {
					vl := v
					vl.LBR = true
					jobs = append(jobs, vl.job())
				}
				if op == "LSTM" {
					vl := v
					vl.InputForget = true
					jobs = append(jobs, vl.job())
				}
				vc := v
				vc.Acts = nil
				for _, k := range ix {
					vc.Acts = append(vc.Acts, []string{"Sigmoid", "Tanh", "Relu"}[k]) // ONNX spells activations capitalised
				}
				jc := vc.job()
				jc.tags = append(jc.tags, "activations-capitalised")
				jc.dom = hx.DRefuse
				jobs = append(jobs, jc)
			}
			// an unsupported name / the ONNX spelling at EACH single position of an otherwise supported list (a list is
			// refused as a whole, whichever entry is the offending one)
			for pos := 0; pos < nAct; pos++ {
				for _, odd := range []string{"softsign", "Tanh", "Sigmoid", ""} {
					bad := base
					bad.Acts = make([]string, nAct)
					for i := range bad.Acts {
						bad.Acts[i] = []string{"sigmoid", "tanh", "relu"}[(i+1)%3]
					}
					bad.Acts[pos] = odd
					jb := bad.job()
					jb.tags = append(jb.tags, "unknown-activation", fmt.Sprintf("odd-activation-at=%d", pos))
					if odd == "Tanh" || odd == "Sigmoid" || odd == "softsign" {
						jb.dom = hx.DRefuse // the reference knows the name: honoured or refused
					}
					jobs = append(jobs, jb)
				}
			}
			// the parametric ONNX activations at the first position, with default and with other alpha / beta (dyadic
			// values: exact in float32): honoured WITH those parameters or refused
			for _, name := range []string{"HardSigmoid", "LeakyRelu", "Elu", "ThresholdedRelu", "ScaledTanh", "Affine", "hardsigmoid", "leakyrelu"} {
				for _, par := range [][2][]float64{{nil, nil}, {{0.5}, {0.25}}, {{0.125}, nil}, {{2}, {-0.5}}} {
					v := base
					v.Acts = make([]string, nAct)
					for i := range v.Acts {
						v.Acts[i] = []string{"sigmoid", "tanh", "relu"}[(i+1)%3]
					}
					v.Acts[0] = name
					v.ActAlpha, v.ActBeta = par[0], par[1]
					jv := v.job()
					jv.id += fmt.Sprintf(" alpha%v beta%v", par[0], par[1])
					jv.tags = append(jv.tags, "activation="+name, "parametric-activation")
					jv.dom = hx.DRefuse
					jobs = append(jobs, jv)
				}
			}
			// further ONNX activations (honoured or refused) and every supported one with inputs 300 times larger:
			// pre-activations far beyond the range in which exp() is finite in float32
			for pos := 0; pos < nAct; pos++ {
				for _, name := range []string{"softplus", "Softplus", "softsign", "Softsign", "sigmoid", "tanh", "relu"} {
					for _, xs := range []float64{0, 300} {
						if xs == 0 && (name == "sigmoid" || name == "tanh" || name == "relu" || name == "softsign") {
							continue // covered above
						}
						v := base
						v.XScale = xs
						v.Acts = make([]string, nAct)
						for i := range v.Acts {
							v.Acts[i] = []string{"sigmoid", "tanh", "relu"}[(i+1)%3]
						}
						v.Acts[pos] = name
						jv := v.job()
						jv.tags = append(jv.tags, "activation="+name, fmt.Sprintf("xscale=%v", xs))
						if name != "sigmoid" && name != "tanh" && name != "relu" {
							jv.dom = hx.DRefuse
						}
						jobs = append(jobs, jv)
					}
				}
			}
			for _, n := range []int{nAct - 1, nAct + 1, 2 * nAct} {
				if n < 1 {
					continue
				}
				ar := base
				ar.Acts = make([]string, n)
				for i := range ar.Acts {
					ar.Acts[i] = "tanh"
				}
				ja := ar.job()
				ja.tags = append(ja.tags, "activation-arity")
				if n > nAct {
					// a forward node uses exactly nAct activations: surplus entries cannot be honoured, and "the list is
					// honoured or refused, never ignored" leaves refusal (a list of 2*nAct belongs to a bidirectional node)
					ja.dom, ja.exp = hx.DError, nil
				}
				jobs = append(jobs, ja)
			}
		}
		// explicit spellings of defaults and attributes outside the statement's scope
		{
			base := recCfg{Op: op, DT: "float32", S: 2, B: 2, I: 2, H: 2, HasB: true, HasH0: true, HasC0: op == "LSTM", Route: "op"}
			jd := base.job()
			jd.oc.Attrs = append(jd.oc.Attrs, hx.AStr("direction", "forward"))
			jd.id += " direction=forward"
			jobs = append(jobs, jd)
			ja := base.job()
			ja.oc.Attrs = append(ja.oc.Attrs, hx.AFloats("activation_alpha", 0.2), hx.AFloats("activation_beta", 0.5))
			ja.id += " activation_alpha/beta (unused by sigmoid/tanh/relu)"
			jobs = append(jobs, ja)
			// direction="reverse": honoured (Y keeps the time positions of X, Y_h is the state after time 0) or refused
			for _, g := range [][4]int{{1, 2, 2, 2}, {2, 2, 2, 2}, {3, 1, 2, 3}, {4, 2, 1, 2}} {
				for _, withState := range []bool{false, true} {
					rv := recCfg{Op: op, DT: "float32", S: g[0], B: g[1], I: g[2], H: g[3], HasB: true, HasH0: withState, HasC0: withState && op == "LSTM", Route: "op", Reverse: true}
					jv := rv.job()
					jv.tags = append(jv.tags, "direction=reverse")
					jobs = append(jobs, jv)
				}
			}
			for _, dir := range []string{"bidirectional", "sideways"} {
				jr := base.job()
				jr.oc.Attrs = append(jr.oc.Attrs, hx.AStr("direction", dir))
				jr.id += " direction=" + dir
				jr.dom = hx.DNoPanic // non-forward directions are outside the statement: only "no panic" (today: refused)
				jobs = append(jobs, jr)
			}
			jc := base.job()
			jc.oc.Attrs = append(jc.oc.Attrs, hx.AFloat("clip", 0.5))
			jc.id += " clip"
			jc.dom = hx.DNoPanic
			jobs = append(jobs, jc)
			// sequence_lens (outside the statement's quantifier, but an accepted input must never be ignored): every
			// assignment of valid lengths 1..S to the batch entries must be honoured (zero rows in Y beyond an entry's
			// length, its state carried to Y_h / Y_c) or refused
			for _, geo := range [][2]int{{2, 2}, {3, 2}, {3, 3}} {
				gb := base
				gb.S, gb.B = geo[0], geo[1]
				X, W, R, B, h0, c0, P := gb.tensors()
				attrs, ra := gb.attrs()
				for _, ls := range seqs(rangeI64(1, geo[0]), geo[1], geo[1]) {
					ra.SeqLens = make([]int, len(ls))
					lens := ref.New(ref.I32, len(ls))
					for i, l := range ls {
						ra.SeqLens[i] = int(l)
						lens.V[i] = uint64(l)
					}
					exp, err := ref.Recurrent(gb.Op, X, W, R, B, h0, c0, P, ra)
					ins := gb.inputs(X, W, R, B, h0, c0, P)
					ins[4] = lens
					for _, rt := range []string{"op", "model"} {
						var init []bool
						if rt == "model" {
							init = make([]bool, len(ins))
							init[1], init[2], init[3], init[4] = true, true, true, true
						}
						jq := newJob(gb.Op, attrs, ins, exp, err, hx.DRefuse, gb.cmp(), rt, init, gb.id()+fmt.Sprintf(" sequence_lens=%v", ls), "sequence_lens")
						jq.oc.NOut = gb.nOut()
						jobs = append(jobs, jq)
					}
				}
			}
		}
		// larger geometries beyond the exhaustive box
		for _, g := range [][4]int{{12, 4, 5, 9}, {20, 1, 3, 16}, {2, 7, 11, 4}, {5, 3, 37, 35}, {3, 17, 5, 67}, {41, 2, 3, 3}, {2, 19, 24, 32}, {2, 36, 64, 16}} {
			v := recCfg{Op: op, DT: "float32", S: g[0], B: g[1], I: g[2], H: g[3], HasB: true, HasH0: true, HasC0: op == "LSTM", HasP: op == "LSTM", Route: "op"}
			jl := v.job()
			jl.tags = append(jl.tags, "large")
			jobs = append(jobs, jl)
			splits = append(splits, recSplit{ReplayKind: "rec-split", Cfg: v, K: g[0] / 2})
		}
		// float64 sub-box
		for _, g := range [][4]int{{2, 2, 2, 2}, {1, 1, 2, 3}, {3, 2, 1, 2}} {
			for mask := 0; mask < 4; mask++ {
				v := recCfg{Op: op, DT: "float64", S: g[0], B: g[1], I: g[2], H: g[3], HasB: mask&1 != 0, HasH0: mask&2 != 0, HasC0: mask&2 != 0 && op == "LSTM", Route: "op"}
				jobs = append(jobs, v.job())
			}
		}
	}
	runOpJobs(c, jobs)
	runReuseJobs(c, jobs)
	c.ParallelFor(len(splits), func(i int) {
		sp := splits[i]
		tags := append(sp.Cfg.tags(), "split")
		if sp.ViaModel {
			tags = append(tags, "split-via-model")
		}
		id := fmt.Sprintf("split@%d/model=%v/state-only=%v/%s", sp.K, sp.ViaModel, sp.StateOnly, sp.Cfg.id())
		c.Case(hx.CaseInfo{ID: id, Tags: tags, NonTrivial: true}, func() *hx.Violation { return sp.run() })
	})
}
