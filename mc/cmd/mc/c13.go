package main

import (
	"encoding/base64"
	"encoding/json"
	"fmt"
	"runtime/debug"
	"sort"

	gonnx "github.com/advancedclimatesystems/gonnx"
	"github.com/advancedclimatesystems/gonnx/onnx"
	"gorgonia.org/tensor"
	"verifmc/hx"
	"verifmc/ref"
)

// C13 — Run accepts exactly the input sets that satisfy the declared signature.

func init() { register("C13", "exploration", checkC13) }

// dim codes: 2 / 3 fixed, -1 symbolic "N", 0 unspecified
func dimSpecs(codes []int64) []hx.DimSpec {
	out := make([]hx.DimSpec, len(codes))
	for i, c := range codes {
		switch {
		case c > 0:
			out[i] = hx.DimSpec{Fixed: c}
		case c == -1:
			out[i] = hx.DimSpec{Param: fmt.Sprintf("N%d", i)}
		case c == -2:
			out[i] = hx.DimSpec{EmptyParam: true}
		}
	}
	return out
}

func accepts(sig []int64, shape []int) bool {
	if len(sig) != len(shape) {
		return false
	}
	for i, c := range sig {
		if c > 0 && int(c) != shape[i] {
			return false
		}
	}
	return true
}

// reluModelDims declares input x with the literal fixed sizes given (d>0), symbolic (-1) or unspecified (0).
func reluModelDims(sig []int64) []byte {
	g := &onnx.GraphProto{Name: "g"}
	dims := make([]hx.DimSpec, len(sig))
	for i, d := range sig {
		switch {
		case d > 0:
			dims[i] = hx.DimSpec{Fixed: d}
		case d == -1:
			dims[i] = hx.DimSpec{Param: fmt.Sprintf("N%d", i)}
		}
	}
	g.Input = append(g.Input, hx.ValueInfo("x", ref.F32, dims))
	g.Node = append(g.Node, hx.Node("Relu", []string{"x"}, []string{"y_x"}, nil))
	g.Output = append(g.Output, hx.ValueInfoNoShape("y_x"))
	return hx.Marshal(hx.Model(g, 13))
}

func reluModel(inputs map[string][]int64, inits map[string]*ref.T) []byte {
	g := &onnx.GraphProto{Name: "g"}
	var names []string
	for n := range inputs {
		names = append(names, n)
	}
	sort.Strings(names)
	for _, n := range names {
		g.Input = append(g.Input, hx.ValueInfo(n, ref.F32, dimSpecs(inputs[n])))
		g.Node = append(g.Node, hx.Node("Relu", []string{n}, []string{"y_" + n}, nil))
		g.Output = append(g.Output, hx.ValueInfoNoShape("y_"+n))
	}
	var inames []string
	for n := range inits {
		inames = append(inames, n)
	}
	sort.Strings(inames)
	for _, n := range inames {
		g.Initializer = append(g.Initializer, hx.TensorProto(n, inits[n], "raw"))
	}
	return hx.Marshal(hx.Model(g, 13))
}

func checkC13(c *hx.Checker) {
	thorough := c.Tier == "thorough"
	maxSigRank, maxSupRank := 4, 5
	if thorough {
		maxSupRank = 6
	}
	c.Rule = "refused requests with a lazily transposed or column-window tensor (4 declarations x 7 base shapes x 2 layouts): refused and left untouched; dimension denotations: 7 labels x axis 0/1 x {fixed, symbolic, unspecified} x extents 1..4 on that axis, Run and InputShapes; " +
		fmt.Sprintf("one-input signatures: every rank 1..%d with each dim in {fixed 2, fixed 3, symbolic, unspecified (no value), symbolic with an empty name} x supplied tensor of EVERY shape of Box(rank 0..%d, extents {1,2,3}) on an identity-like graph (Relu); "+
			"introspection (InputNames / InputShapes / InputDimSize) compared with the declaration and with the observed accept/reject behaviour per axis; "+
			"call histories: every sequence of 1..3 Runs on one Model over 11 feeds of the three-input signature (good, other dynamic sizes, each input missing / wrong rank / wrong fixed dim), every call judged by the same predicate; three-input signatures (fixed, symbolic, mixed) x every subset of supplied names, an extra name, names permuted onto the wrong tensors; inputs shadowed by initializers (supplied / not supplied). "+
			"non-trivial = supplied shape differs from a trivially matching one (every reject case and every accept with a dynamic axis)", maxSigRank, maxSupRank)
	c.Assumptions = []string{"reference predicate: all non-initializer inputs present AND rank equal AND every fixed dim equal", "a supplied name the graph does not declare is outside the statement: only 'no panic' is asserted"}
	type job struct {
		mc   *modelCase
		id   string
		tags []string
		nt   bool
	}
	var jobs []job
	supplied := ref.Box(0, maxSupRank, []int{1, 2, 3})
	var sigs [][]int64
	for r := 1; r <= maxSigRank; r++ {
		// 2, 3: fixed; -1: symbolic (named); 0: unspecified (no value); -2: symbolic with an empty name
		alphabet := []int64{2, 3, -1, 0, -2}
		sigs = append(sigs, seqs(alphabet, r, r)...)
	}
	for _, sig := range sigs {
		model := reluModel(map[string][]int64{"x": sig}, nil)
		for _, sh := range supplied {
			x := ref.Distinct(ref.F32, sh)
			acc := accepts(sig, sh)
			var mc *modelCase
			if acc {
				exp, _ := ref.Unary("Relu", x)
				mc = newModelCase(model, map[string]*ref.T{"x": x}, "outputs", map[string]*ref.T{"y_x": exp}, hx.Num, "")
			} else {
				mc = newModelCase(model, map[string]*ref.T{"x": x}, "error", nil, hx.Num, "")
			}
			dyn := false
			for _, d := range sig {
				if d <= 0 {
					dyn = true
				}
			}
			tags := []string{fmt.Sprintf("accept=%v", acc), fmt.Sprintf("sigrank=%d", len(sig))}
			if len(sh) > len(sig) {
				tags = append(tags, "supplied-rank-higher")
			}
			if len(sh) < len(sig) {
				tags = append(tags, "supplied-rank-lower")
			}
			jobs = append(jobs, job{mc, fmt.Sprintf("sig%v<-%v", sig, sh), tags, !acc || dyn})
		}
	}
	// larger extents (fixed 7 / 64 and dynamic axes fed with 1, 5, 100)
	for _, sig := range [][]int64{{7}, {-1, 64}, {64, 0}, {7, -1, 7}} {
		model := reluModelDims(sig)
		for _, sh := range [][]int{{7}, {5}, {100, 64}, {1, 64}, {64, 5}, {64, 64}, {7, 100, 7}, {7, 1, 8}, {64}, {7, 7}} {
			x := ref.Distinct(ref.F32, sh)
			acc := len(sig) == len(sh)
			if acc {
				for i, d := range sig {
					if d > 0 && int(d) != sh[i] {
						acc = false
					}
				}
			}
			var mc *modelCase
			if acc {
				exp, _ := ref.Unary("Relu", x)
				mc = newModelCase(model, map[string]*ref.T{"x": x}, "outputs", map[string]*ref.T{"y_x": exp}, hx.Num, "")
			} else {
				mc = newModelCase(model, map[string]*ref.T{"x": x}, "error", nil, hx.Num, "")
			}
			jobs = append(jobs, job{mc, fmt.Sprintf("large-sig%v<-%v", sig, sh), []string{fmt.Sprintf("accept=%v", acc), "large"}, true})
		}
	}
	// multi-input
	sig3 := map[string][]int64{"a": {2, 3}, "b": {-1, 3}, "c": {0, 2, -1}}
	good := map[string]*ref.T{"a": ref.Distinct(ref.F32, []int{2, 3}), "b": ref.Distinct(ref.F32, []int{1, 3}), "c": ref.Distinct(ref.F32, []int{3, 2, 2})}
	m3 := reluModel(sig3, nil)
	names := []string{"a", "b", "c"}
	for mask := 0; mask < 8; mask++ {
		feed := map[string]*ref.T{}
		exp := map[string]*ref.T{}
		for i, n := range names {
			if mask&(1<<i) != 0 {
				feed[n] = good[n]
			}
			e, _ := ref.Unary("Relu", good[n])
			exp["y_"+n] = e
		}
		if mask == 7 {
			jobs = append(jobs, job{newModelCase(m3, feed, "outputs", exp, hx.Num, ""), "multi/all", []string{"multi"}, false})
			f2 := map[string]*ref.T{"a": good["a"], "b": good["b"], "c": good["c"], "zzz": good["a"]}
			jobs = append(jobs, job{newModelCase(m3, f2, "nopanic", nil, hx.Num, ""), "multi/extra-name", []string{"multi", "extra-name"}, true})
		} else {
			jobs = append(jobs, job{newModelCase(m3, feed, "error", nil, hx.Num, ""), fmt.Sprintf("multi/missing-mask%d", mask), []string{"multi", "missing-input"}, true})
		}
	}
	for _, p := range [][3]string{{"b", "a", "c"}, {"c", "b", "a"}, {"a", "c", "b"}, {"b", "c", "a"}} {
		feed := map[string]*ref.T{"a": good[p[0]], "b": good[p[1]], "c": good[p[2]]}
		ok := accepts(sig3["a"], feed["a"].Shape) && accepts(sig3["b"], feed["b"].Shape) && accepts(sig3["c"], feed["c"].Shape)
		if ok {
			exp := map[string]*ref.T{}
			for _, n := range names {
				e, _ := ref.Unary("Relu", feed[n])
				exp["y_"+n] = e
			}
			jobs = append(jobs, job{newModelCase(m3, feed, "outputs", exp, hx.Num, ""), fmt.Sprintf("multi/permuted%v", p), []string{"multi", "permuted"}, true})
		} else {
			jobs = append(jobs, job{newModelCase(m3, feed, "error", nil, hx.Num, ""), fmt.Sprintf("multi/permuted%v", p), []string{"multi", "permuted"}, true})
		}
	}
	// inputs that are also initializers: not required; if supplied, validated? (statement: not required)
	wInit := ref.Distinct(ref.F32, []int{2, 3})
	mi := reluModel(map[string][]int64{"a": {2, 3}, "w": {2, 3}}, map[string]*ref.T{"w": wInit})
	ea, _ := ref.Unary("Relu", good["a"])
	ew, _ := ref.Unary("Relu", wInit)
	jobs = append(jobs, job{newModelCase(mi, map[string]*ref.T{"a": good["a"]}, "outputs", map[string]*ref.T{"y_a": ea, "y_w": ew}, hx.Num, ""), "init-input/not-supplied", []string{"initializer-input"}, true})
	jobs = append(jobs, job{newModelCase(mi, map[string]*ref.T{}, "error", nil, hx.Num, ""), "init-input/required-missing", []string{"initializer-input", "missing-input"}, true})
	// the defaulted input left out AND the other input wrong (rank, fixed extent): refused whichever of the two the
	// validation meets first; several defaulted inputs around a required one
	for _, bad := range [][]int{{2, 2}, {3, 3}, {2}, {2, 3, 1}, {}} {
		jobs = append(jobs, job{newModelCase(mi, map[string]*ref.T{"a": ref.Distinct(ref.F32, bad)}, "error", nil, hx.Num, ""), fmt.Sprintf("init-input/not-supplied/other-input%v", bad), []string{"initializer-input", "wrong-shape"}, true})
	}
	{
		mi3 := reluModel(map[string][]int64{"a": {2, 3}, "v": {2, 3}, "w": {2, 3}, "z": {2, 3}}, map[string]*ref.T{"v": wInit, "w": wInit, "z": wInit})
		for _, bad := range [][]int{{2, 2}, {2}, {2, 3, 1}} {
			jobs = append(jobs, job{newModelCase(mi3, map[string]*ref.T{"a": ref.Distinct(ref.F32, bad)}, "error", nil, hx.Num, ""), fmt.Sprintf("init-input/three-defaults/other-input%v", bad), []string{"initializer-input", "wrong-shape"}, true})
		}
		jobs = append(jobs, job{newModelCase(mi3, map[string]*ref.T{}, "error", nil, hx.Num, ""), "init-input/three-defaults/required-missing", []string{"initializer-input", "missing-input"}, true})
	}
	// symbolic names carry no constraint: two inputs (and two axes of one input) sharing the name "N", and unnamed
	// dimensions, accept different sizes
	{
		g := &onnx.GraphProto{Name: "g"}
		N := hx.DimSpec{Param: "N"}
		g.Input = append(g.Input, hx.ValueInfo("p", ref.F32, []hx.DimSpec{N, {Fixed: 2}}), hx.ValueInfo("q", ref.F32, []hx.DimSpec{N, N}), hx.ValueInfo("r", ref.F32, []hx.DimSpec{{}, {}}), hx.ValueInfo("s", ref.F32, []hx.DimSpec{{EmptyParam: true}, {EmptyParam: true}}))
		for _, n := range []string{"p", "q", "r", "s"} {
			g.Node = append(g.Node, hx.Node("Relu", []string{n}, []string{"y_" + n}, nil))
			g.Output = append(g.Output, hx.ValueInfoNoShape("y_"+n))
		}
		mb := hx.Marshal(hx.Model(g, 13))
		for _, sz := range [][4][2]int{{{1, 2}, {1, 1}, {1, 1}, {1, 1}}, {{3, 2}, {2, 5}, {2, 3}, {3, 1}}, {{2, 2}, {4, 4}, {1, 7}, {5, 6}}, {{5, 2}, {3, 3}, {3, 3}, {3, 3}}} {
			feed, exp := map[string]*ref.T{}, map[string]*ref.T{}
			for i, n := range []string{"p", "q", "r", "s"} {
				feed[n] = ref.Distinct(ref.F32, []int{sz[i][0], sz[i][1]})
				e, _ := ref.Unary("Relu", feed[n])
				exp["y_"+n] = e
			}
			jobs = append(jobs, job{newModelCase(mb, feed, "outputs", exp, hx.Num, ""), fmt.Sprintf("shared-symbolic-names/%v", sz), []string{"multi", "shared-symbolic-name"}, true})
		}
	}
	// inputs declared without a shape (type only / name only) or with rank 0 carry no constraint a supplied tensor
	// could violate: every tensor is accepted for them (missing ones are still reported by the node that reads them)
	{
		g := &onnx.GraphProto{Name: "g"}
		g.Input = append(g.Input, hx.ValueInfoTypeOnly("p", ref.F32), hx.ValueInfoNoShape("q"), hx.ValueInfo("r", ref.F32, hx.FixedDims([]int{2})))
		for _, n := range []string{"p", "q", "r"} {
			g.Node = append(g.Node, hx.Node("Relu", []string{n}, []string{"y_" + n}, nil))
			g.Output = append(g.Output, hx.ValueInfoNoShape("y_"+n))
		}
		mb := hx.Marshal(hx.Model(g, 13))
		for _, shp := range [][2][]int{{{}, {3}}, {{2}, {2, 2}}, {{1, 2, 3}, {}}, {{4, 1}, {1}}} {
			feed := map[string]*ref.T{"p": ref.Distinct(ref.F32, shp[0]), "q": ref.Distinct(ref.F32, shp[1]), "r": ref.Distinct(ref.F32, []int{2})}
			exp := map[string]*ref.T{}
			for n, t := range feed {
				e, _ := ref.Unary("Relu", t)
				exp["y_"+n] = e
			}
			jobs = append(jobs, job{newModelCase(mb, feed, "outputs", exp, hx.Num, ""), fmt.Sprintf("shapeless-inputs/%v", shp), []string{"multi", "shapeless-declaration"}, true})
		}
	}
	// declaration ORDER and inputs nothing reads: a declaration without shape information (type only / name only / an
	// empty dim list) listed BEFORE fixed-shape inputs must not loosen them, and a declared input that no node reads and
	// the graph does not return is required and validated like every other
	{
		kinds := []string{"type-only", "no-shape", "rank0", "fixed"}
		decl := func(n, kind string) *onnx.ValueInfoProto {
			switch kind {
			case "type-only":
				return hx.ValueInfoTypeOnly(n, ref.F32)
			case "no-shape":
				return hx.ValueInfoNoShape(n)
			case "rank0":
				return hx.ValueInfo(n, ref.F32, hx.FixedDims([]int{}))
			}
			return hx.ValueInfo(n, ref.F32, hx.FixedDims([]int{2}))
		}
		for _, k0 := range kinds {
			for _, unusedPos := range []int{-1, 0, 1, 2, 3} { // -1: no unused input; else its position in the input list
				g := &onnx.GraphProto{Name: "g"}
				names := []string{"p", "f1", "f2"}
				kindOf := map[string]string{"p": k0, "f1": "fixed", "f2": "fixed", "u": "fixed"}
				if unusedPos >= 0 {
					names = append(append(append([]string{}, names[:unusedPos]...), "u"), names[unusedPos:]...)
				}
				for _, n := range names {
					g.Input = append(g.Input, decl(n, kindOf[n]))
					if n != "u" {
						g.Node = append(g.Node, hx.Node("Relu", []string{n}, []string{"y_" + n}, nil))
						g.Output = append(g.Output, hx.ValueInfoNoShape("y_"+n))
					}
				}
				mb := hx.Marshal(hx.Model(g, 13))
				goodFeed := func() map[string]*ref.T {
					f := map[string]*ref.T{}
					for _, n := range names {
						f[n] = ref.Distinct(ref.F32, []int{2})
					}
					return f
				}
				exp := map[string]*ref.T{}
				for _, n := range names {
					if n != "u" {
						e, _ := ref.Unary("Relu", ref.Distinct(ref.F32, []int{2}))
						exp["y_"+n] = e
					}
				}
				base := fmt.Sprintf("decl-order/first=%s/unused@%d", k0, unusedPos)
				tg := []string{"multi", "declaration-order", "first=" + k0}
				if unusedPos >= 0 {
					tg = append(tg, "unused-input")
				}
				jobs = append(jobs, job{newModelCase(mb, goodFeed(), "outputs", exp, hx.Num, ""), base + "/good", tg, true})
				for _, n := range names {
					miss := goodFeed()
					delete(miss, n)
					jobs = append(jobs, job{newModelCase(mb, miss, "error", nil, hx.Num, ""), base + "/missing-" + n, append(append([]string{}, tg...), "missing-input"), true})
					if kindOf[n] == "fixed" {
						for _, bad := range [][]int{{3}, {2, 2}, {}, {1}} {
							f := goodFeed()
							f[n] = ref.Distinct(ref.F32, bad)
							jobs = append(jobs, job{newModelCase(mb, f, "error", nil, hx.Num, ""), fmt.Sprintf("%s/%s-supplied%v", base, n, bad), append(append([]string{}, tg...), "wrong-shape"), true})
						}
					}
				}
			}
		}
	}
	// an initializer-backed input is validated against its DECLARATION (here [N,3]; the default has 2 rows), not
	// against the default's shape: other row counts are accepted, a wrong fixed dim or rank is refused
	{
		md := reluModel(map[string][]int64{"a": {2, 3}, "w": {-1, 3}}, map[string]*ref.T{"w": wInit})
		for _, sh := range [][]int{{2, 3}, {4, 3}, {1, 3}, {7, 3}, {2, 2}, {4, 4}, {3}, {2, 3, 1}} {
			wv := ref.Distinct(ref.F32, sh)
			feed := map[string]*ref.T{"a": good["a"], "w": wv}
			if accepts([]int64{-1, 3}, sh) {
				e, _ := ref.Unary("Relu", wv)
				jobs = append(jobs, job{newModelCase(md, feed, "outputs", map[string]*ref.T{"y_a": ea, "y_w": e}, hx.Num, ""), fmt.Sprintf("init-input/dynamic-declared/supplied%v", sh), []string{"initializer-input", "supplied"}, true})
			} else {
				jobs = append(jobs, job{newModelCase(md, feed, "error", nil, hx.Num, ""), fmt.Sprintf("init-input/dynamic-declared/supplied%v", sh), []string{"initializer-input", "supplied"}, true})
			}
		}
	}
	// unused initializer that is also declared as input must still not be required
	mu := reluModel(map[string][]int64{"a": {2, 3}}, map[string]*ref.T{"unused": wInit})
	jobs = append(jobs, job{newModelCase(mu, map[string]*ref.T{"a": good["a"]}, "outputs", map[string]*ref.T{"y_a": ea}, hx.Num, ""), "init-unused", []string{"initializer-input"}, true})
	{
		// declared input shadowed by an initializer that no node reads
		g := &onnx.GraphProto{Name: "g"}
		g.Input = append(g.Input, hx.ValueInfo("a", ref.F32, dimSpecs([]int64{2, 3})), hx.ValueInfo("B", ref.F32, dimSpecs([]int64{2, 3})))
		g.Initializer = append(g.Initializer, hx.TensorProto("B", wInit, "raw"))
		g.Node = append(g.Node, hx.Node("Relu", []string{"a"}, []string{"y_a"}, nil))
		g.Output = append(g.Output, hx.ValueInfoNoShape("y_a"))
		jobs = append(jobs, job{newModelCase(hx.Marshal(hx.Model(g, 13)), map[string]*ref.T{"a": good["a"]}, "outputs", map[string]*ref.T{"y_a": ea}, hx.Num, ""), "init-input/unread-not-supplied", []string{"initializer-input"}, true})
	}
	// ---------------- call histories on ONE model: every sequence of up to 3 calls over an alphabet of accepted
	// and refused feeds of the three-input signature; each call is judged by the same predicate, whatever came before
	{
		type callT struct {
			name string
			feed map[string]*ref.T
		}
		with := func(k string, t *ref.T) map[string]*ref.T {
			f := map[string]*ref.T{}
			for n, v := range good {
				f[n] = v
			}
			if t == nil {
				delete(f, k)
			} else {
				f[k] = t
			}
			return f
		}
		d := func(sh ...int) *ref.T { return ref.Distinct(ref.F32, sh) }
		calls := []callT{{"good", with("", nil)}, {"dyn-sizes", map[string]*ref.T{"a": good["a"], "b": d(5, 3), "c": d(1, 2, 4)}},
			{"missing-a", with("a", nil)}, {"missing-b", with("b", nil)}, {"missing-c", with("c", nil)},
			{"a-rank", with("a", d(2, 3, 1))}, {"a-dim", with("a", d(2, 2))}, {"b-rank", with("b", d(3))}, {"b-dim", with("b", d(1, 2))},
			{"c-rank", with("c", d(3, 2))}, {"c-dim", with("c", d(3, 3, 2))}}
		calls[0].feed = map[string]*ref.T{"a": good["a"], "b": good["b"], "c": good["c"]}
		step := func(cl callT) *modelCase {
			ok := len(cl.feed) == 3
			for n, t := range cl.feed {
				if !accepts(sig3[n], t.Shape) {
					ok = false
				}
			}
			if !ok {
				mc := newModelCase(nil, cl.feed, "error", nil, hx.Num, cl.name)
				return mc
			}
			exp := map[string]*ref.T{}
			for n, t := range cl.feed {
				e, _ := ref.Unary("Relu", t)
				exp["y_"+n] = e
			}
			return newModelCase(nil, cl.feed, "outputs", exp, hx.Num, cl.name)
		}
		maxLen := 3
		if thorough {
			maxLen = 4
		}
		var seqsIdx [][]int64
		seqsIdx = seqs(rangeI64(0, len(calls)-1), 1, maxLen)
		c.AddTraces(int64(len(seqsIdx)))
		c.ParallelFor(len(seqsIdx), func(i int) {
			ix := seqsIdx[i]
			h := &modelHistory{ReplayKind: "model-history", Model: base64.StdEncoding.EncodeToString(m3)}
			id := "history"
			for _, k := range ix {
				h.Steps = append(h.Steps, step(calls[k]))
				id += "/" + calls[k].name
			}
			h.Desc = id
			c.Case(hx.CaseInfo{ID: id, Tags: []string{"history", fmt.Sprintf("calls=%d", len(ix))}, NonTrivial: len(ix) > 1}, func() *hx.Violation { return h.run() })
		})
	}
	c.ParallelFor(len(jobs), func(i int) {
		j := jobs[i]
		for _, t := range j.tags {
			if t == "multi" || t == "initializer-input" {
				j.mc.Repeat = 8 // signatures with several inputs are validated in map order
			}
		}
		c.Case(hx.CaseInfo{ID: j.id, Tags: j.tags, NonTrivial: j.nt, Sample: map[string]any{"case": j.id, "expect": j.mc.Expect}}, func() *hx.Violation { return j.mc.run() })
	})
	// symbolic dimensions whose NAME looks like a number (or like nothing): still symbolic - any extent is accepted and
	// the accessors report a dynamic axis
	for _, name := range []string{"2", "16", "0", "-1", " 3", "3 ", "1e1", "0x2", "N", "batch_size"} {
		name := name
		g := &onnx.GraphProto{Name: "g"}
		g.Input = append(g.Input, hx.ValueInfo("x", ref.F32, []hx.DimSpec{{Param: name}, {Fixed: 3}}))
		g.Node = append(g.Node, hx.Node("Relu", []string{"x"}, []string{"y_x"}, nil))
		g.Output = append(g.Output, hx.ValueInfoNoShape("y_x"))
		mb := hx.Marshal(hx.Model(g, 13))
		for _, rows := range []int{1, 2, 3, 5, 16} {
			x := ref.Distinct(ref.F32, []int{rows, 3})
			e, _ := ref.Unary("Relu", x)
			mcase := newModelCase(mb, map[string]*ref.T{"x": x}, "outputs", map[string]*ref.T{"y_x": e}, hx.Num, "")
			c.Case(hx.CaseInfo{ID: fmt.Sprintf("numeric-looking-dim-name/%q/rows=%d", name, rows), Tags: []string{"symbolic-name"}, NonTrivial: true}, func() *hx.Violation { return mcase.run() })
		}
		mbad := newModelCase(mb, map[string]*ref.T{"x": ref.Distinct(ref.F32, []int{2, 2})}, "error", nil, hx.Num, "")
		c.Case(hx.CaseInfo{ID: fmt.Sprintf("numeric-looking-dim-name/%q/wrong-fixed", name), Tags: []string{"symbolic-name"}, NonTrivial: true}, func() *hx.Violation { return mbad.run() })
		c.Case(hx.CaseInfo{ID: fmt.Sprintf("numeric-looking-dim-name/%q/introspection", name), Tags: []string{"symbolic-name", "introspection"}, NonTrivial: true}, func() *hx.Violation {
			mk := func(kind, d string) *hx.Violation {
				return &hx.Violation{Kind: kind, Detail: d, Replay: map[string]any{"replay_kind": "introspection-name", "name": name}}
			}
			m, err := gonnx.NewModelFromBytes(mb)
			if err != nil {
				return mk("refused", err.Error())
			}
			sh := m.InputShapes()["x"]
			if len(sh) != 2 || !sh[0].IsDynamic || sh[1].IsDynamic || sh[1].Size != 3 {
				return mk("wrong-introspection", fmt.Sprintf("InputShapes[x] = %+v for declared [%q, 3]", sh, name))
			}
			if sz, err := m.InputDimSize("x", 0); err != nil || sz != 0 {
				return mk("wrong-introspection", fmt.Sprintf("InputDimSize(x,0) = %d, %v for the symbolic dimension %q", sz, err, name))
			}
			return hx.OK("introspection")
		})
	}
	// dimension denotations (DATA_BATCH, DATA_CHANNEL, ...) are labels: a fixed dimension that carries one stays fixed, a
	// symbolic / unspecified one stays free, on every axis
	for _, den := range []string{"DATA_BATCH", "DATA_CHANNEL", "DATA_TIME", "DATA_FEATURE", "FILTER_IN_CHANNEL", "batch", "N"} {
		for axis := 0; axis < 2; axis++ {
			for _, kind := range []string{"fixed", "symbolic", "unspecified"} {
				den, axis, kind := den, axis, kind
				dims := []hx.DimSpec{{Fixed: 2}, {Fixed: 3}}
				switch kind {
				case "symbolic":
					dims[axis] = hx.DimSpec{Param: "N"}
				case "unspecified":
					dims[axis] = hx.DimSpec{}
				}
				dims[axis].Denotation = den
				g := &onnx.GraphProto{Name: "g"}
				g.Input = append(g.Input, hx.ValueInfo("x", ref.F32, dims))
				g.Node = append(g.Node, hx.Node("Relu", []string{"x"}, []string{"y_x"}, nil))
				g.Output = append(g.Output, hx.ValueInfoNoShape("y_x"))
				mb := hx.Marshal(hx.Model(g, 13))
				for _, ext := range []int{1, 2, 3, 4} {
					shape := []int{2, 3}
					shape[axis] = ext
					x := ref.Distinct(ref.F32, shape)
					ok := kind != "fixed" || ext == []int{2, 3}[axis]
					var mcase *modelCase
					if ok {
						e, _ := ref.Unary("Relu", x)
						mcase = newModelCase(mb, map[string]*ref.T{"x": x}, "outputs", map[string]*ref.T{"y_x": e}, hx.Num, "")
					} else {
						mcase = newModelCase(mb, map[string]*ref.T{"x": x}, "error", nil, hx.Num, "")
					}
					c.Case(hx.CaseInfo{ID: fmt.Sprintf("denotation/%s/axis=%d/%s/extent=%d", den, axis, kind, ext), Tags: []string{"denotation"}, NonTrivial: true}, func() *hx.Violation { return mcase.run() })
				}
				c.Case(hx.CaseInfo{ID: fmt.Sprintf("denotation/%s/axis=%d/%s/introspection", den, axis, kind), Tags: []string{"denotation", "introspection"}, NonTrivial: true}, func() *hx.Violation {
					mk := func(k, d string) *hx.Violation {
						return &hx.Violation{Kind: k, Detail: d, Replay: map[string]any{"replay_kind": "introspection-denotation", "denotation": den, "axis": axis, "kind": kind}}
					}
					m, err := gonnx.NewModelFromBytes(mb)
					if err != nil {
						return mk("refused", err.Error())
					}
					sh := m.InputShapes()["x"]
					if len(sh) != 2 {
						return mk("wrong-introspection", fmt.Sprintf("InputShapes[x] = %+v", sh))
					}
					for i := range sh {
						wantDyn := i == axis && kind != "fixed"
						if sh[i].IsDynamic != wantDyn || (!wantDyn && sh[i].Size != int64([]int{2, 3}[i])) {
							return mk("wrong-introspection", fmt.Sprintf("InputShapes[x] = %+v for a %s dimension denoted %q on axis %d of (2,3)", sh, kind, den, axis))
						}
					}
					return hx.OK("introspection")
				})
			}
		}
	}
	// a refused request leaves the supplied tensors as they are whatever their memory layout: operands with a pending lazy
	// transpose and column windows of a wider tensor (only refusals are judged - what kernels do with such layouts is outside
	// every input space, validation comes before them)
	for _, decl := range [][]int64{{2, 3}, {-1, 3}, {2, 3, 2}, {3}} {
		decl := decl
		mb := reluModelDims(decl)
		for _, base := range [][]int{{4, 2}, {3, 3}, {2, 2}, {5, 3}, {2, 3, 4}, {3, 2, 2}, {4, 4}} {
			for _, layout := range []string{"lazy-transpose", "column-window"} {
				base, layout := base, layout
				c.Case(hx.CaseInfo{ID: fmt.Sprintf("refused-layout/%v/%v/%s", decl, base, layout), Tags: []string{"layout", "refused-untouched"}, NonTrivial: true}, func() (v *hx.Violation) {
					mk := func(k, d string) *hx.Violation {
						return &hx.Violation{Kind: k, Detail: d, Replay: map[string]any{"replay_kind": "refused-layout", "decl": decl, "base": base, "layout": layout}}
					}
					d, _ := hx.ToG(ref.Distinct(ref.F32, base)).(*tensor.Dense)
					if d == nil {
						return hx.OK("not-applicable")
					}
					var x tensor.Tensor = d
					if layout == "lazy-transpose" {
						if err := d.T(); err != nil {
							return hx.OK("not-applicable")
						}
					} else {
						sl := make([]tensor.Slice, len(base))
						sl[len(base)-1] = tensor.S(0, base[len(base)-1]-1)
						w, err := d.Slice(sl...)
						if err != nil || base[len(base)-1] < 3 {
							return hx.OK("not-applicable")
						}
						x = w
					}
					if accepts(decl, x.Shape()) {
						return hx.OK("accepted-shape/not-judged")
					}
					before, whole := hx.Snapshot(x), hx.Snapshot(d)
					m, err := gonnx.NewModelFromBytes(mb)
					if err != nil {
						return mk("refused", "load: "+err.Error())
					}
					defer func() {
						if p := recover(); p != nil {
							v = mk("panic", fmt.Sprintf("Run panicked: %v", p))
						}
					}()
					outs, rerr := m.Run(map[string]tensor.Tensor{"x": x})
					if rerr == nil {
						return mk("not-refused", fmt.Sprintf("tensor of shape %v accepted for declaration %v (%d outputs)", x.Shape(), decl, len(outs)))
					}
					if diff := before.Diff(hx.Snapshot(x)); diff != "" {
						return mk("mutated-input", "refused Run changed the supplied tensor: "+diff)
					}
					if diff := whole.Diff(hx.Snapshot(d)); diff != "" {
						return mk("mutated-input", "refused Run changed the tensor the supplied window belongs to: "+diff)
					}
					return hx.OK("refused-untouched")
				})
			}
		}
	}
	// a nil input map is an empty input set: accepted when nothing is required, refused otherwise - never a panic
	for name, spec := range map[string]struct {
		model []byte
		ok    bool
	}{
		"all-inputs-defaulted": {reluModel(map[string][]int64{"w": {2, 3}}, map[string]*ref.T{"w": wInit}), true},
		"no-inputs-declared":   {reluModel(map[string][]int64{}, nil), true},
		"one-required-input":   {reluModel(map[string][]int64{"a": {2, 3}}, nil), false},
		"required-and-default": {mi, false},
	} {
		name, spec := name, spec
		c.Case(hx.CaseInfo{ID: "nil-input-map/" + name, Tags: []string{"nil-input-map"}, NonTrivial: true}, func() (v *hx.Violation) {
			mk := func(kind, d string) *hx.Violation {
				return &hx.Violation{Kind: kind, Detail: d, Replay: map[string]any{"replay_kind": "nil-input-map", "model_b64": base64.StdEncoding.EncodeToString(spec.model), "ok": spec.ok}}
			}
			defer func() {
				if p := recover(); p != nil {
					v = mk("panic", fmt.Sprintf("Run(nil) panicked: %v :: %s", p, firstLines(string(debug.Stack()), 12)))
				}
			}()
			m, err := gonnx.NewModelFromBytes(spec.model)
			if err != nil {
				return mk("refused", "model does not load: "+err.Error())
			}
			for _, in := range []gonnx.Tensors{nil, {}} {
				outs, rerr := m.Run(in)
				if spec.ok && rerr != nil {
					return mk("refused", fmt.Sprintf("Run(%v) of a model that requires nothing failed: %v", in == nil, rerr))
				}
				if !spec.ok && rerr == nil {
					return mk("not-refused", fmt.Sprintf("Run(nil=%v) of a model with a required input returned %d outputs", in == nil, len(outs)))
				}
			}
			return hx.OK("match")
		})
	}
	// an initializer-backed graph input is still a declared input: every accessor reports it, consistently
	c.Case(hx.CaseInfo{ID: "introspection/initializer-backed-input", Tags: []string{"introspection", "initializer-input"}, NonTrivial: true}, func() *hx.Violation {
		mk := func(kind, d string) *hx.Violation {
			return &hx.Violation{Kind: kind, Detail: d, Replay: map[string]any{"replay_kind": "introspection-init"}}
		}
		m, err := gonnx.NewModelFromBytes(mi)
		if err != nil {
			return mk("refused", err.Error())
		}
		// the same with w declared [N,3] (its default has 2 rows): the axis is dynamic for every accessor, as it is for Run
		if md2, err := gonnx.NewModelFromBytes(reluModel(map[string][]int64{"a": {2, 3}, "w": {-1, 3}}, map[string]*ref.T{"w": wInit})); err == nil {
			shw := md2.InputShapes()["w"]
			if len(shw) != 2 || !shw[0].IsDynamic || shw[1].Size != 3 {
				return mk("wrong-introspection", fmt.Sprintf("InputShapes[w] = %+v for declared [N,3]", shw))
			}
			if sz, err := md2.InputDimSize("w", 0); err != nil || sz != 0 {
				return mk("wrong-introspection", fmt.Sprintf("InputDimSize(w,0) = %d, %v for a symbolic dimension of an initializer-backed input (the default's extent is not the declaration)", sz, err))
			}
		} else {
			return mk("refused", "model with a symbolic declaration of an initializer-backed input does not load: "+err.Error())
		}
		names := append([]string{}, m.InputNames()...)
		sort.Strings(names)
		if fmt.Sprint(names) != "[a w]" {
			return mk("wrong-introspection", fmt.Sprintf("InputNames = %v for declared inputs a, w (w has an initializer)", m.InputNames()))
		}
		shapes := m.InputShapes()
		for _, n := range []string{"a", "w"} {
			if sh, ok := shapes[n]; !ok || len(sh) != 2 || sh[0].Size != 2 || sh[1].Size != 3 {
				return mk("wrong-introspection", fmt.Sprintf("InputShapes[%s] = %v, declared [2,3]", n, sh))
			}
			for ax, want := range []int{2, 3} {
				if sz, err := m.InputDimSize(n, ax); err != nil || sz != want {
					return mk("wrong-introspection", fmt.Sprintf("InputDimSize(%s,%d) = %d, %v; declared %d", n, ax, sz, err, want))
				}
			}
		}
		return hx.OK("introspection")
	})
	// ---------------- introspection: what the accessors report is what Run enforces
	c.ParallelFor(len(sigs), func(i int) {
		sig := sigs[i]
		id := fmt.Sprintf("introspection/sig%v", sig)
		c.Case(hx.CaseInfo{ID: id, Tags: []string{"introspection"}, NonTrivial: true}, func() *hx.Violation {
			mk := func(kind, d string) *hx.Violation {
				return &hx.Violation{Kind: kind, Detail: d, Replay: map[string]any{"replay_kind": "introspection", "sig": sig}}
			}
			m, err := gonnx.NewModelFromBytes(reluModel(map[string][]int64{"x": sig}, nil))
			if err != nil {
				return mk("refused", err.Error())
			}
			if n := m.InputNames(); len(n) != 1 || n[0] != "x" {
				return mk("wrong-introspection", fmt.Sprintf("InputNames = %v", n))
			}
			shp, ok := m.InputShapes()["x"]
			if !ok || len(shp) != len(sig) {
				return mk("wrong-introspection", fmt.Sprintf("InputShapes[x] = %v for declared %v", shp, sig))
			}
			for ax, d := range sig {
				fixed := d > 0
				if shp[ax].IsDynamic == fixed || (fixed && shp[ax].Size != d) {
					return mk("wrong-introspection", fmt.Sprintf("axis %d: reported %+v, declared %d", ax, shp[ax], d))
				}
				sz, err := m.InputDimSize("x", ax)
				if err != nil || (fixed && int64(sz) != d) || (!fixed && sz != 0) {
					return mk("wrong-introspection", fmt.Sprintf("InputDimSize(x,%d) = %d, %v; declared %d", ax, sz, err, d))
				}
				// observed behaviour per axis must agree with the report
				for _, e := range []int{1, 2, 3} {
					sh := make([]int, len(sig))
					for k, dk := range sig {
						sh[k] = 2
						if dk > 0 {
							sh[k] = int(dk)
						}
					}
					sh[ax] = e
					_, rerr := m.Run(gonnx.Tensors{"x": hx.ToG(ref.Distinct(ref.F32, sh))})
					enforced := rerr != nil
					shouldReject := !shp[ax].IsDynamic && int64(e) != shp[ax].Size
					if enforced != shouldReject {
						return mk("introspection-mismatch", fmt.Sprintf("axis %d reported %+v but Run(extent %d) error=%v", ax, shp[ax], e, rerr))
					}
				}
			}
			// what the accessors return is the caller's to modify: scribbling on it must not rewrite the signature
			scr := m.InputShapes()
			for ax := range scr["x"] {
				scr["x"][ax].IsDynamic = !scr["x"][ax].IsDynamic
				scr["x"][ax].Size += 5
				scr["x"][ax].Name = "scribbled"
			}
			scr["y"] = scr["x"]
			delete(scr, "x")
			names := m.InputNames()
			for i := range names {
				names[i] = "scribbled"
			}
			again, ok2 := m.InputShapes()["x"]
			if !ok2 || len(again) != len(sig) || len(m.InputNames()) != 1 || m.InputNames()[0] != "x" {
				return mk("wrong-introspection", fmt.Sprintf("after the caller modified the returned shapes / names: InputShapes[x] = %v, InputNames = %v", again, m.InputNames()))
			}
			for ax, d := range sig {
				fixed := d > 0
				if again[ax].IsDynamic == fixed || (fixed && again[ax].Size != d) {
					return mk("wrong-introspection", fmt.Sprintf("after the caller modified the returned shapes: axis %d reported %+v, declared %d", ax, again[ax], d))
				}
				for _, e := range []int{2, 3} {
					sh := make([]int, len(sig))
					for k, dk := range sig {
						sh[k] = 2
						if dk > 0 {
							sh[k] = int(dk)
						}
					}
					sh[ax] = e
					_, rerr := m.Run(gonnx.Tensors{"x": hx.ToG(ref.Distinct(ref.F32, sh))})
					if (rerr != nil) != (fixed && int64(e) != d) {
						return mk("introspection-mismatch", fmt.Sprintf("after the caller modified the returned shapes: axis %d declared %d but Run(extent %d) error=%v", ax, d, e, rerr))
					}
				}
			}
			if _, err := m.InputDimSize("x", len(sig)); err == nil {
				return mk("wrong-introspection", "InputDimSize beyond the rank did not fail")
			}
			if _, err := m.InputDimSize("nope", 0); err == nil {
				return mk("wrong-introspection", "InputDimSize of an unknown input did not fail")
			}
			return hx.OK("introspection")
		})
	})
}

func init() {
	replayers["introspection"] = func(raw json.RawMessage) *hx.Violation {
		// re-run the whole (cheap) introspection sweep for the recorded signature
		var r struct {
			Sig []int64 `json:"sig"`
		}
		json.Unmarshal(raw, &r)
		m, err := gonnx.NewModelFromBytes(reluModel(map[string][]int64{"x": r.Sig}, nil))
		if err != nil {
			return &hx.Violation{Kind: "refused", Detail: err.Error()}
		}
		shp := m.InputShapes()["x"]
		if len(shp) != len(r.Sig) {
			return &hx.Violation{Kind: "wrong-introspection", Detail: fmt.Sprintf("InputShapes[x] = %v for declared %v", shp, r.Sig)}
		}
		for ax, d := range r.Sig {
			if shp[ax].IsDynamic == (d > 0) || (d > 0 && shp[ax].Size != d) {
				return &hx.Violation{Kind: "wrong-introspection", Detail: fmt.Sprintf("axis %d: reported %+v, declared %d", ax, shp[ax], d)}
			}
		}
		return nil
	}
}
