package main

import (
	"encoding/base64"
	"encoding/json"
	"errors"
	"fmt"
	"google.golang.org/protobuf/proto"
	"runtime/debug"
	"sort"
	"strings"

	gonnx "github.com/advancedclimatesystems/gonnx"
	"github.com/advancedclimatesystems/gonnx/onnx"
	"github.com/advancedclimatesystems/gonnx/ops"
	"github.com/advancedclimatesystems/gonnx/ops/opset13"
	"gorgonia.org/tensor"
	"verifmc/hx"
	"verifmc/ref"
)

// C15 — every operator's input gate; registry lookups are independent.

func init() {
	register("C15", "model_checking", checkC15)
	replayers["gate"] = func(raw json.RawMessage) *hx.Violation {
		var g gateCase
		if err := json.Unmarshal(raw, &g); err != nil {
			return &hx.Violation{Kind: "bad-replay", Detail: err.Error()}
		}
		return g.run()
	}
	replayers["gate-model"] = func(raw json.RawMessage) *hx.Violation {
		var r struct {
			Model   string `json:"model_b64"`
			N       int    `json:"n"`
			InRange bool   `json:"in_range"`
		}
		if err := json.Unmarshal(raw, &r); err != nil {
			return &hx.Violation{Kind: "bad-replay", Detail: err.Error()}
		}
		if r.InRange {
			return nil
		}
		b, _ := base64.StdEncoding.DecodeString(r.Model)
		res := hx.RunModelBytes(b, zeroFeedFor(b), []string{"y"})
		switch {
		case res.Panic != "":
			return &hx.Violation{Kind: "panic", Detail: res.Panic}
		case res.Err == nil:
			return &hx.Violation{Kind: "not-refused", Detail: "ran"}
		}
		var ie *ops.InputError
		if !errors.As(res.Err, &ie) {
			return &hx.Violation{Kind: "wrong-error", Detail: res.Err.Error()}
		}
		return nil
	}
	replayers["lookup-history"] = func(raw json.RawMessage) *hx.Violation {
		var h lookupHistory
		if err := json.Unmarshal(raw, &h); err != nil {
			return &hx.Violation{Kind: "bad-replay", Detail: err.Error()}
		}
		return h.run()
	}
}

// gateCase: operator name + the dtype (or "nil") at every supplied position.
type gateCase struct {
	ReplayKind string   `json:"replay_kind"`
	Op         string   `json:"op"`
	DTypes     []string `json:"dtypes"`
	// Spare: the input list is a sub-slice of a longer array whose hidden elements are other tensors
	Spare bool `json:"spare,omitempty"`
	// Prev: an earlier request gated by the same operator object (its outcome is ignored)
	Prev    []string `json:"prev,omitempty"`
	HasPrev bool     `json:"has_prev,omitempty"`
	// SameObject: every non-nil position receives one and the same tensor object (a value wired to several inputs)
	SameObject bool `json:"same_object,omitempty"`
	// Rank0: the supplied tensors are rank-0 (scalars) instead of vectors of two elements
	Rank0 bool `json:"rank0,omitempty"`
	// InitRep: index+1 into repCases(): the operator object is initialised from that case's node (its attributes) before
	// the gate is asked - the state Model.Run always puts an operator in (0 = freshly looked up, never initialised)
	InitRep int `json:"init_rep,omitempty"`
}

func (g *gateCase) run() (v *hx.Violation) {
	mk := func(kind, detail string) *hx.Violation { return &hx.Violation{Kind: kind, Detail: detail, Replay: g} }
	defer func() {
		if p := recover(); p != nil {
			v = mk("panic", fmt.Sprintf("%v :: %s", p, firstLines(string(debug.Stack()), 12)))
		}
	}()
	op, err := opset13.GetOperator(g.Op)
	if err != nil {
		return mk("refused", "registered name does not resolve: "+err.Error())
	}
	if g.InitRep > 0 {
		rcs := repCases()
		if g.InitRep-1 < len(rcs) && rcs[g.InitRep-1].Op == g.Op {
			if ierr := op.Init(hx.NodeForCase(rcs[g.InitRep-1].opCase())); ierr != nil {
				return hx.OK("init-refused")
			}
		}
	}
	min, max := op.GetMinInputs(), op.GetMaxInputs()
	tc := op.GetInputTypeConstraints()
	if g.HasPrev {
		func() {
			defer func() { recover() }()
			pin := make([]tensor.Tensor, len(g.Prev))
			for i, d := range g.Prev {
				if d != "nil" {
					dt, _ := ref.DTFromName(d)
					pin[i] = hx.ToG(ref.Distinct(dt, []int{3}))
				}
			}
			op.ValidateInputs(pin)
		}()
	}
	in := make([]tensor.Tensor, len(g.DTypes))
	if g.Spare {
		backing := make([]tensor.Tensor, len(g.DTypes)+4)
		for i := range backing {
			backing[i] = hx.ToG(ref.Distinct(ref.F32, []int{1}))
		}
		in = backing[:len(g.DTypes)]
		for i := range in {
			in[i] = nil
		}
	}
	snaps := make([]hx.Snap, len(in))
	native := make([]bool, len(in))
	for i, d := range g.DTypes {
		if d == "nil" {
			continue
		}
		// Go-native int / uint backings are tensors gorgonia can build but no ONNX element type: never allowed
		if d == "go-int" {
			in[i], native[i] = tensor.New(tensor.WithShape(2), tensor.WithBacking([]int{1, 2})), true
			continue
		}
		if d == "go-uint" {
			in[i], native[i] = tensor.New(tensor.WithShape(2), tensor.WithBacking([]uint{1, 2})), true
			continue
		}
		dt, _ := ref.DTFromName(d)
		shape := []int{2}
		if g.Rank0 {
			shape = []int{}
		}
		in[i] = hx.ToG(ref.Distinct(dt, shape))
		snaps[i] = hx.Snapshot(in[i])
	}
	if g.SameObject {
		var first tensor.Tensor
		for i := range in {
			if in[i] == nil {
				continue
			}
			if first == nil {
				first = in[i]
			}
			in[i] = first
		}
	}
	n := len(in)
	if g.Op == "Concat" { // variadic: min 1, no maximum
		max = n
		if max < 1 {
			max = 1
		}
	}
	// expectation from the operator's own declaration
	expectOK := n >= min && n <= max
	why := ""
	if !expectOK {
		why = fmt.Sprintf("%d inputs outside [%d,%d]", n, min, max)
	}
	if expectOK && g.Op != "Concat" && len(tc) < max {
		return mk("gate-inconsistent", fmt.Sprintf("type constraint table has %d rows but the operator accepts up to %d inputs", len(tc), max))
	}
	if expectOK {
		for i, t := range in {
			if t == nil {
				continue
			}
			allowed := false
			var row []tensor.Dtype
			if g.Op == "Concat" {
				row = ops.AllTypes
			} else {
				row = tc[i]
			}
			for _, a := range row {
				if a == t.Dtype() {
					allowed = true
				}
			}
			if !allowed {
				expectOK, why = false, fmt.Sprintf("dtype %s not allowed at position %d", g.DTypes[i], i)
				break
			}
		}
	}
	if expectOK && g.Op == "PRelu" && g.DTypes[0] != g.DTypes[1] {
		expectOK, why = false, "PRelu requires equal dtypes"
	}
	// required inputs given as nil: not asserted either way beyond "no panic" (ONNX has no nil required inputs)
	requiredNil := false
	for i := 0; i < n && i < min; i++ {
		if in[i] == nil {
			requiredNil = true
		}
	}
	orig := append([]tensor.Tensor{}, in...)
	out, verr := op.ValidateInputs(in)
	for i := range orig {
		if in[i] != orig[i] {
			return mk("mutated-input", fmt.Sprintf("the gate overwrote entry %d of the caller's input list", i))
		}
	}
	for i, t := range in {
		if t != nil && !native[i] {
			if d := snaps[i].Diff(hx.Snapshot(t)); d != "" {
				return mk("mutated-input", fmt.Sprintf("input %d changed by the gate: %s", i, d))
			}
		}
	}
	if requiredNil {
		return hx.OK("required-nil/nopanic")
	}
	if !expectOK {
		if verr == nil {
			return mk("not-refused", "gate accepted: "+why)
		}
		var ie *ops.InputError
		var te *ops.InvalidTensorError
		if !errors.As(verr, &ie) && !(g.Op == "PRelu" && errors.As(verr, &te)) {
			return mk("wrong-error", fmt.Sprintf("rejected with %T (%v), expected an input error; reason: %s", verr, verr, why))
		}
		return hx.OK("rejected")
	}
	if verr != nil {
		return mk("refused", "acceptable input list rejected: "+verr.Error())
	}
	if len(out) != max {
		return mk("wrong-padding", fmt.Sprintf("returned %d entries, expected %d", len(out), max))
	}
	for i := range out {
		if i < n {
			if out[i] != in[i] {
				return mk("not-passed-through", fmt.Sprintf("entry %d is not the supplied tensor", i))
			}
		} else if out[i] != nil {
			return mk("wrong-padding", fmt.Sprintf("trailing entry %d is not nil", i))
		}
	}
	return hx.OK("accepted")
}

// ---- lookup independence -----------------------------------------------------------------

type lookupSpec struct {
	Op     string    `json:"op"`
	AttrsA []hx.Attr `json:"attrs_a"`
	AttrsB []hx.Attr `json:"attrs_b"`
	Inputs []*hx.TJ  `json:"inputs"`
	NOut   int       `json:"n_out"`
	// expected outputs per attribute set from the reference interpreter (independent of any state the
	// process may have accumulated); nil = not modelled, fall back to the isolated result
	ExpA []*hx.TJ `json:"exp_a,omitempty"`
	ExpB []*hx.TJ `json:"exp_b,omitempty"`
	Cmp  hx.Cmp   `json:"cmp"`
}

// lookupHistory: threads[i] uses attribute set Sets[i]; Schedule lists thread ids, each thread's
// k-th occurrence performs step k of (Get, Init, Apply).
type lookupHistory struct {
	ReplayKind string     `json:"replay_kind"`
	Spec       lookupSpec `json:"spec"`
	Sets       []string   `json:"sets"` // "A" | "B" per thread
	Schedule   []int      `json:"schedule"`
}

func (h *lookupHistory) attrs(set string) []hx.Attr {
	if set == "A" {
		return h.Spec.AttrsA
	}
	return h.Spec.AttrsB
}

func (h *lookupHistory) isolated(set string) hx.Result {
	oc := &hx.OpCase{Op: h.Spec.Op, Attrs: h.attrs(set), Inputs: h.Spec.Inputs, NOut: h.Spec.NOut, Route: "op"}
	return hx.RunOp(oc)
}

func sameResult(a, b hx.Result) string {
	if (a.Err != nil) != (b.Err != nil) {
		return fmt.Sprintf("error-ness differs: %v vs %v", a.Err, b.Err)
	}
	if (a.Panic != "") != (b.Panic != "") {
		return "panic-ness differs: " + a.Panic + b.Panic
	}
	if len(a.Outs) != len(b.Outs) {
		return "output count differs"
	}
	for i := range a.Outs {
		if k, d := hx.CompareT(a.Outs[i], b.Outs[i], hx.Bits); k != "" {
			return fmt.Sprintf("output %d: %s", i, d)
		}
	}
	return ""
}

func (h *lookupHistory) run() (v *hx.Violation) {
	mk := func(kind, detail string) *hx.Violation { return &hx.Violation{Kind: kind, Detail: detail, Replay: h} }
	defer func() {
		if p := recover(); p != nil {
			v = mk("panic", fmt.Sprintf("%v :: %s", p, firstLines(string(debug.Stack()), 12)))
		}
	}()
	iso := map[string]hx.Result{"A": h.isolated("A"), "B": h.isolated("B")}
	nT := len(h.Sets)
	opsI := make([]ops.Operator, nT)
	step := make([]int, nT)
	for _, t := range h.Schedule {
		set := h.Sets[t]
		oc := &hx.OpCase{Op: h.Spec.Op, Attrs: h.attrs(set), Inputs: h.Spec.Inputs, NOut: h.Spec.NOut, Route: "op"}
		switch step[t] {
		case 0:
			o, err := opset13.GetOperator(h.Spec.Op)
			if err != nil {
				return mk("refused", err.Error())
			}
			opsI[t] = o
		case 1:
			if err := opsI[t].Init(hx.NodeForCase(oc)); err != nil {
				if iso[set].Err == nil {
					return mk("history-dependent", fmt.Sprintf("thread %d (set %s): Init failed (%v) but succeeds in isolation", t, set, err))
				}
			}
		case 2:
			var res hx.Result
			func() {
				defer func() {
					if p := recover(); p != nil {
						res.Panic = fmt.Sprint(p)
					}
				}()
				in, err := opsI[t].ValidateInputs(hx.ToGs(hx.TJsT(h.Spec.Inputs)))
				if err != nil {
					res.Err = err
					return
				}
				outs, err := opsI[t].Apply(in)
				if err != nil {
					res.Err = err
					return
				}
				for _, o := range outs {
					r, _ := hx.FromG(o)
					res.Outs = append(res.Outs, r)
				}
			}()
			exp := h.Spec.ExpA
			if set == "B" {
				exp = h.Spec.ExpB
			}
			if exp != nil {
				if k, d := hx.Judge(hx.DCompute, res, hx.TJsT(exp), h.Spec.Cmp); k != "" {
					return mk("history-dependent", fmt.Sprintf("thread %d (attribute set %s) under schedule %v differs from the reference result for its own attributes: %s: %s", t, set, h.Schedule, k, d))
				}
				break
			}
			if iso[set].Err != nil && res.Err != nil {
				break
			}
			if d := sameResult(res, iso[set]); d != "" {
				return mk("history-dependent", fmt.Sprintf("thread %d (attribute set %s) under schedule %v differs from its isolated result: %s", t, set, h.Schedule, d))
			}
		}
		step[t]++
	}
	return hx.OK("independent")
}

// merges enumerates all interleavings of nT threads with 3 steps each.
func merges(nT int) [][]int {
	var out [][]int
	left := make([]int, nT)
	for i := range left {
		left[i] = 3
	}
	cur := []int{}
	var rec func()
	rec = func() {
		done := true
		for t := 0; t < nT; t++ {
			if left[t] > 0 {
				done = false
				left[t]--
				cur = append(cur, t)
				rec()
				cur = cur[:len(cur)-1]
				left[t]++
			}
		}
		if done {
			out = append(out, append([]int{}, cur...))
		}
	}
	rec()
	return out
}

// withRef fills the reference expectations of a spec by evaluating the reference interpreter.
func withRef(sp lookupSpec) lookupSpec {
	eval := func(attrs []hx.Attr) []*hx.TJ {
		in := hx.TJsT(sp.Inputs)
		geti := func(name string, def int64) int64 {
			for _, a := range attrs {
				if a.Name == name {
					return a.I
				}
			}
			return def
		}
		getf := func(name string, def float32) float32 {
			for _, a := range attrs {
				if a.Name == name {
					return a.Float()
				}
			}
			return def
		}
		getis := func(name string) ([]int64, bool) {
			for _, a := range attrs {
				if a.Name == name {
					return a.Ints, true
				}
			}
			return nil, false
		}
		getfs := func(name string) []float32 {
			for _, a := range attrs {
				if a.Name == name {
					return a.FloatList()
				}
			}
			return nil
		}
		toInts := func(v []int64) []int {
			if v == nil {
				return nil
			}
			o := make([]int, len(v))
			for i, x := range v {
				o[i] = int(x)
			}
			return o
		}
		var out []*ref.T
		var err error
		one := func(t *ref.T, e error) { out, err = []*ref.T{t}, e }
		switch sp.Op {
		case "Gemm":
			one(ref.Gemm(in[0], in[1], in[2], getf("alpha", 1), getf("beta", 1), geti("transA", 0) != 0, geti("transB", 0) != 0))
		case "Concat":
			one(ref.Concat(in, int(geti("axis", 0))))
		case "Flatten":
			one(ref.Flatten(in[0], int(geti("axis", 1))))
		case "Transpose":
			p, ok := getis("perm")
			one(ref.Transpose(in[0], p, ok))
		case "Softmax", "LogSoftmax":
			one(ref.Softmax(in[0], int(geti("axis", -1)), sp.Op == "LogSoftmax"))
		case "ArgMax":
			one(ref.ArgMax(in[0], int(geti("axis", 0)), geti("keepdims", 1) != 0))
		case "ReduceMax", "ReduceMin":
			ax, ok := getis("axes")
			one(ref.Reduce(in[0], ax, ok, geti("keepdims", 1) != 0, sp.Op == "ReduceMax"))
		case "Gather":
			one(ref.Gather(in[0], in[1], int(geti("axis", 0))))
		case "Conv":
			a := ref.ConvAttrs{}
			for _, at := range attrs {
				switch at.Name {
				case "strides":
					a.Strides = toInts(at.Ints)
				case "pads":
					a.Pads = toInts(at.Ints)
				case "dilations":
					a.Dilations = toInts(at.Ints)
				case "kernel_shape":
					a.Kernel = toInts(at.Ints)
				case "auto_pad":
					a.AutoPad = at.S
				}
			}
			one(ref.Conv(in[0], in[1], in[2], a))
		case "Scaler":
			one(ref.Scaler(in[0], getfs("offset"), getfs("scale")))
		case "LinearRegressor":
			one(ref.LinearRegressor(in[0], getfs("coefficients"), getfs("intercepts"), int(geti("targets", 1))))
		case "RNN", "GRU", "LSTM":
			ra := ref.RecAttrs{Hidden: int(geti("hidden_size", 0)), LBR: geti("linear_before_reset", 0) != 0}
			for _, at := range attrs {
				if at.Name == "activations" {
					ra.Activations = at.Strs
				}
			}
			var B *ref.T
			if len(in) > 3 {
				B = in[3]
			}
			out, err = ref.Recurrent(sp.Op, in[0], in[1], in[2], B, nil, nil, nil, ra)
		default:
			return nil
		}
		if err != nil {
			return nil
		}
		return hx.ToTJs(out)
	}
	sp.ExpA, sp.ExpB = eval(sp.AttrsA), eval(sp.AttrsB)
	sp.Cmp = hx.Tol(1e-4, 1e-4)
	return sp
}

func lookupSpecsRaw() []lookupSpec {
	f := func(sh ...int) *hx.TJ { return hx.ToTJ(linFill(ref.F32, sh, 3)) }
	rec := func(op string, ng int, acts1, acts2 []string, withState bool) lookupSpec {
		ins := []*hx.TJ{hx.ToTJ(recFill(ref.F32, []int{2, 2, 2}, 1)), hx.ToTJ(recFill(ref.F32, []int{1, ng * 2, 2}, 2)), hx.ToTJ(recFill(ref.F32, []int{1, ng * 2, 2}, 3))}
		n := 2
		if op == "LSTM" {
			n = 3
		}
		return lookupSpec{Op: op, AttrsA: []hx.Attr{hx.AInt("hidden_size", 2), hx.AStrs("activations", acts1...)}, AttrsB: []hx.Attr{hx.AInt("hidden_size", 2)}, Inputs: ins, NOut: n}
	}
	_ = rec
	return []lookupSpec{
		{Op: "Gemm", AttrsA: []hx.Attr{hx.AFloat("alpha", 0.5), hx.AInt("transB", 1)}, AttrsB: []hx.Attr{hx.AFloat("beta", 2)}, Inputs: []*hx.TJ{f(2, 2), f(2, 2), f(2, 2)}, NOut: 1},
		{Op: "Concat", AttrsA: []hx.Attr{hx.AInt("axis", 0)}, AttrsB: []hx.Attr{hx.AInt("axis", 1)}, Inputs: []*hx.TJ{f(2, 2), f(2, 2)}, NOut: 1},
		{Op: "Flatten", AttrsA: []hx.Attr{hx.AInt("axis", 0)}, AttrsB: []hx.Attr{hx.AInt("axis", 2)}, Inputs: []*hx.TJ{f(2, 3, 2)}, NOut: 1},
		{Op: "Flatten", AttrsA: []hx.Attr{hx.AInt("axis", -1)}, AttrsB: nil, Inputs: []*hx.TJ{f(2, 3, 2)}, NOut: 1},
		{Op: "Transpose", AttrsA: []hx.Attr{hx.AInts("perm", 1, 0, 2)}, AttrsB: []hx.Attr{hx.AInts("perm", 2, 1, 0)}, Inputs: []*hx.TJ{f(2, 3, 2)}, NOut: 1},
		{Op: "Softmax", AttrsA: []hx.Attr{hx.AInt("axis", 0)}, AttrsB: nil, Inputs: []*hx.TJ{f(2, 3)}, NOut: 1},
		{Op: "LogSoftmax", AttrsA: []hx.Attr{hx.AInt("axis", 0)}, AttrsB: nil, Inputs: []*hx.TJ{f(2, 3)}, NOut: 1},
		{Op: "ArgMax", AttrsA: []hx.Attr{hx.AInt("axis", 1), hx.AInt("keepdims", 0)}, AttrsB: nil, Inputs: []*hx.TJ{f(2, 3)}, NOut: 1},
		{Op: "ReduceMax", AttrsA: []hx.Attr{hx.AInts("axes", 1), hx.AInt("keepdims", 0)}, AttrsB: []hx.Attr{hx.AInts("axes", 0)}, Inputs: []*hx.TJ{f(2, 3)}, NOut: 1},
		{Op: "ReduceMin", AttrsA: []hx.Attr{hx.AInts("axes", -1)}, AttrsB: []hx.Attr{hx.AInt("keepdims", 0)}, Inputs: []*hx.TJ{f(2, 3)}, NOut: 1},
		{Op: "Gather", AttrsA: []hx.Attr{hx.AInt("axis", 1)}, AttrsB: nil, Inputs: []*hx.TJ{f(2, 3), hx.ToTJ(ref.I64Vec(1, 0))}, NOut: 1},
		{Op: "Cast", AttrsA: []hx.Attr{hx.AInt("to", 7)}, AttrsB: []hx.Attr{hx.AInt("to", 11)}, Inputs: []*hx.TJ{f(2, 2)}, NOut: 1},
		{Op: "Constant", AttrsA: []hx.Attr{hx.AFloat("value_float", 1.5)}, AttrsB: []hx.Attr{hx.AInts("value_ints", 4, 5)}, Inputs: nil, NOut: 1},
		{Op: "ConstantOfShape", AttrsA: []hx.Attr{hx.ATensor("value", ref.FromI(ref.I64, []int{1}, 7), "raw")}, AttrsB: nil, Inputs: []*hx.TJ{hx.ToTJ(ref.I64Vec(2, 2))}, NOut: 1},
		{Op: "Conv", AttrsA: []hx.Attr{hx.AInts("strides", 2, 1), hx.AInts("pads", 1, 0, 0, 1)}, AttrsB: []hx.Attr{hx.AInts("dilations", 1, 2)}, Inputs: []*hx.TJ{f(1, 2, 4, 4), f(2, 2, 2, 2), f(2)}, NOut: 1},
		{Op: "Conv", AttrsA: []hx.Attr{hx.AStr("auto_pad", "SAME_LOWER"), hx.AInts("kernel_shape", 2, 2)}, AttrsB: nil, Inputs: []*hx.TJ{f(1, 2, 4, 4), f(2, 2, 2, 2), nil}, NOut: 1},
		{Op: "Scaler", AttrsA: []hx.Attr{hx.AFloats("offset", 1, 2), hx.AFloats("scale", 0.5, 2)}, AttrsB: []hx.Attr{hx.AFloats("offset", 0), hx.AFloats("scale", 3)}, Inputs: []*hx.TJ{f(2, 2)}, NOut: 1},
		{Op: "LinearRegressor", AttrsA: []hx.Attr{hx.AFloats("coefficients", 1, 2, 3, 4), hx.AInt("targets", 2)}, AttrsB: []hx.Attr{hx.AFloats("coefficients", 0.5, -1), hx.AInt("targets", 1), hx.AFloats("intercepts", 2)}, Inputs: []*hx.TJ{f(2, 2)}, NOut: 1},
		rec("RNN", 1, []string{"relu"}, nil, false),
		rec("GRU", 3, []string{"tanh", "relu"}, nil, false),
		rec("LSTM", 4, []string{"tanh", "sigmoid", "relu"}, nil, false),
		{Op: "GRU", AttrsA: []hx.Attr{hx.AInt("hidden_size", 2), hx.AInt("linear_before_reset", 1)}, AttrsB: []hx.Attr{hx.AInt("hidden_size", 2)},
			Inputs: []*hx.TJ{hx.ToTJ(recFill(ref.F32, []int{2, 2, 2}, 1)), hx.ToTJ(recFill(ref.F32, []int{1, 6, 2}, 2)), hx.ToTJ(recFill(ref.F32, []int{1, 6, 2}, 3)), hx.ToTJ(recFill(ref.F32, []int{1, 12}, 4))}, NOut: 2},
	}
}

func lookupSpecs() []lookupSpec {
	raw := lookupSpecsRaw()
	out := make([]lookupSpec, len(raw))
	for i, sp := range raw {
		out[i] = withRef(sp)
	}
	return out
}

var nonRegisteredOnnxOps = []string{"onnx::Relu", "aten::Softmax", "mylib::Relu", "ai.onnx::Add", "a::b::Tanh", "::Relu", "Relu::", "ai.onnx.Relu", "ai.onnx/Relu", "com.example:Relu", "Relu.1", "Relu_13", "Relu-13", "opset13.Relu",
	"Abs ", " Abs", "abs", "ABS", "", "Identity", "AveragePool", "MaxPool", "BatchNormalization", "Clip", "Dropout", "Elu", "Erf", "Exp", "Floor", "Ceil", "GlobalAveragePool", "HardSigmoid", "LeakyRelu", "Log", "Max", "Min",
	"Mean", "Neg", "Pad", "Pow", "Reciprocal", "ReduceMean", "ReduceSum", "ReduceProd", "Resize", "Round", "Selu", "Sign", "Softplus", "Softsign", "Split", "Sqrt", "Sum", "Tile", "TopK", "Where", "ConvTranspose", "InstanceNormalization",
	"LRN", "LpNormalization", "MatMulInteger", "NonZero", "OneHot", "Range", "ReduceL1", "ReduceL2", "ReduceLogSum", "ReduceSumSquare", "Scan", "Loop", "If", "ScatterND", "ScatterElements", "GatherND", "GatherElements", "Einsum", "CumSum",
	"DepthToSpace", "SpaceToDepth", "Hardmax", "IsNaN", "IsInf", "Mod", "BitShift", "QuantizeLinear", "DequantizeLinear", "DynamicQuantizeLinear", "QLinearConv", "QLinearMatMul", "RoiAlign", "NonMaxSuppression", "StringNormalizer", "TfIdfVectorizer",
	"Compress", "EyeLike", "RandomNormal", "RandomUniform", "Multinomial", "ThresholdedRelu", "Shrink", "MeanVarianceNormalization", "Celu", "GreaterOrEqual ", "Lessorequal", "Matmul", "GEMM", "lstm", "Gru", "Rnn", "ReduceMaxx", "Relu6", "PReLU",
	"LogSoftMax", "SoftMax", "ArgMin", "Unique", "ReverseSequence", "SequenceAt", "ConcatFromSequence", "SplitToSequence", "Det", "NegativeLogLikelihoodLoss", "SoftmaxCrossEntropyLoss", "Trilu", "HardSwish", "Bernoulli", "GridSample", "Optional", "LayerNormalization"}

// names of unusual length and content: 1..3 around every power of two up to 4096 plus 65537 characters (a message that
// abbreviates a long name must still be the unsupported-operator error), format verbs, NUL, look-alike characters
func init() {
	for _, n := range []int{15, 16, 17, 31, 32, 33, 63, 64, 65, 66, 127, 128, 129, 255, 256, 257, 511, 512, 513, 1023, 1024, 1025, 4095, 4096, 4097, 65537} {
		nonRegisteredOnnxOps = append(nonRegisteredOnnxOps, strings.Repeat("R", n), "Relu"+strings.Repeat("x", n-4))
	}
	nonRegisteredOnnxOps = append(nonRegisteredOnnxOps, "%s", "%v%d", "Relu%s", "%!s(MISSING)", "Relu\x00", "\x00Relu", "Re\x00lu", "Relu\n", "Relu\u00a0", "\u200bRelu", "Ｒelu")
}

func checkC15(c *hx.Checker) {
	c.Rule = "names from opset13.GetOpNames() (must be exactly the registered set); per operator: every input count 0..max+2 (Concat 0..5) x dtype placement (the 14 ONNX element types plus Go-native int / uint tensors, which no gate may accept): full product of the dtypes over all positions when max<=2, else every homogeneous row and every single- and two-position deviation from every homogeneous allowed row x nil at every position; " +
		"every homogeneous list additionally with one and the same tensor object at every position, as a sub-slice of a longer array (spare capacity holding other tensors) and as the second request gated by one operator object after a longer / shorter / over-long / wrongly typed / empty first request; unknown names: 192 non-registered operator names (ONNX operators outside the set, case/space variants, empty string, names of 15..65537 characters, format verbs, NUL, look-alike characters); lookup independence: for 22 (operator, attribute set A, attribute set B) specs ALL interleavings of 2 lookups (20) and of 3 lookups (1680) of <Get, Init, Apply>, each Apply compared with its isolated result. " +
		"states = distinct (operator, attribute-thread progress) configurations visited; transitions = Get/Init/Apply steps executed. non-trivial = every gate case with >= 1 input and every interleaving"
	c.Assumptions = []string{"the allowed dtypes per position are the operator's own GetInputTypeConstraints (the property is about the gate enforcing its declaration before computing)",
		"a nil at a *required* position is not an ONNX-expressible request: only 'no panic' is asserted there"}
	names := opset13.GetOpNames()
	sort.Strings(names)
	c.Extra["registered_operators"] = len(names)
	var cases []gateCase
	seen := map[string]bool{}
	add := func(op string, dts []string) {
		k := op + "|" + strings.Join(dts, ",")
		if !seen[k] {
			seen[k] = true
			cases = append(cases, gateCase{ReplayKind: "gate", Op: op, DTypes: append([]string{}, dts...)})
		}
	}
	all := append([]string{}, "nil")
	for _, d := range ref.AllDT {
		all = append(all, d.String())
	}
	all = append(all, "go-int", "go-uint")
	for _, name := range names {
		op, err := opset13.GetOperator(name)
		if err != nil {
			c.Note(hx.CaseInfo{ID: "lookup/" + name, NonTrivial: true}, "refused", &hx.Violation{Kind: "refused", Detail: "GetOpNames entry does not resolve: " + err.Error(), Replay: map[string]any{"replay_kind": "gate", "op": name, "dtypes": []string{}}})
			continue
		}
		max := op.GetMaxInputs()
		top := max + 2
		if name == "Concat" {
			max, top = 3, 5
		}
		tc := op.GetInputTypeConstraints()
		// homogeneous allowed rows: for each dtype allowed at position 0 use it everywhere it is allowed, else the first allowed
		var bases [][]string
		if len(tc) > 0 || name == "Concat" {
			var first []tensor.Dtype
			if name == "Concat" {
				first = ops.AllTypes
			} else {
				first = tc[0]
			}
			for _, d0 := range first {
				row := make([]string, top)
				for p := 0; p < top; p++ {
					row[p] = d0.String()
					if name != "Concat" && p < len(tc) {
						ok := false
						for _, a := range tc[p] {
							if a == d0 {
								ok = true
							}
						}
						if !ok && len(tc[p]) > 0 {
							row[p] = tc[p][0].String()
						}
					}
				}
				bases = append(bases, row)
			}
		}
		for n := 0; n <= top; n++ {
			if n == 0 {
				add(name, nil)
				continue
			}
			if max <= 2 && n <= 2 {
				for _, ix := range seqs(rangeI64(0, int(len(all)-1)), n, n) {
					row := make([]string, n)
					for i, k := range ix {
						row[i] = all[k]
					}
					add(name, row)
				}
				continue
			}
			for _, base := range bases {
				add(name, base[:n])
				for p := 0; p < n; p++ {
					for _, d := range all {
						r1 := append([]string{}, base[:n]...)
						r1[p] = d
						add(name, r1)
					}
				}
			}
			// two-position deviations from the first base row only (keeps the space finite and stated)
			if len(bases) > 0 {
				base := bases[0]
				for p := 0; p < n; p++ {
					for q := p + 1; q < n; q++ {
						for _, d1 := range []string{"nil", "string", "int64", "float32", "bool"} {
							for _, d2 := range []string{"nil", "string", "int32", "float64"} {
								r2 := append([]string{}, base[:n]...)
								r2[p], r2[q] = d1, d2
								add(name, r2)
							}
						}
					}
				}
			}
		}
	}
	// the variadic operator with long input lists (tables sized after the largest fixed arity - LSTM's 8 - end there)
	for _, n := range []int{6, 7, 8, 9, 10, 16, 33, 64, 65, 100, 257} {
		for _, d := range []string{"float32", "int64", "bool"} {
			row := make([]string, n)
			for k := range row {
				row[k] = d
			}
			add("Concat", row)
			mixed := append([]string{}, row...)
			mixed[n-1] = "string"
			add("Concat", mixed)
		}
	}
	// the same lists (homogeneous rows of every length) as sub-slices with spare capacity, and as the second request
	// gated by one operator object after a longer / shorter / over-long / wrongly typed first request
	repCasesCached := repCases()
	nPlain := len(cases)
	for i := 0; i < nPlain; i++ {
		g := cases[i]
		homogeneous := true
		for _, d := range g.DTypes {
			if d != g.DTypes[0] && d != "nil" {
				homogeneous = false
			}
		}
		if !homogeneous || len(g.DTypes) == 0 {
			if len(g.DTypes) != 0 {
				continue
			}
		}
		sp := g
		sp.Spare = true
		cases = append(cases, sp)
		r0 := g
		r0.Rank0 = true
		cases = append(cases, r0)
		for ri, rc := range repCasesCached {
			if rc.Op == g.Op && len(rc.Attrs) > 0 {
				iv := g
				iv.InitRep = ri + 1
				cases = append(cases, iv)
			}
		}
		if len(g.DTypes) >= 2 {
			so := g
			so.SameObject = true
			cases = append(cases, so)
		}
		op, err := opset13.GetOperator(g.Op)
		if err != nil {
			continue
		}
		max := op.GetMaxInputs()
		if g.Op == "Concat" {
			max = 4
		}
		d0 := "float32"
		if len(g.DTypes) > 0 && g.DTypes[0] != "nil" {
			d0 = g.DTypes[0]
		}
		row := func(n int, d string) []string {
			r := make([]string, n)
			for k := range r {
				r[k] = d
			}
			return r
		}
		for _, prev := range [][]string{row(max, d0), row(op.GetMinInputs(), d0), row(max+1, d0), row(max, "string"), row(max+3, d0), {}} {
			h := g
			h.Prev, h.HasPrev = prev, true
			cases = append(cases, h)
		}
	}
	var transitions int64
	c.ParallelFor(len(cases), func(i int) {
		g := cases[i]
		id := fmt.Sprintf("gate/%s/%v", g.Op, g.DTypes)
		if g.Rank0 {
			id += "/rank-0-tensors"
		}
		if g.InitRep > 0 {
			id += fmt.Sprintf("/initialised-from-rep%d", g.InitRep-1)
		}
		if g.Spare {
			id += "/spare-capacity"
		}
		if g.SameObject {
			id += "/same-object-at-every-position"
		}
		if g.HasPrev {
			id += fmt.Sprintf("/after%v", g.Prev)
		}
		c.Case(hx.CaseInfo{ID: id, Tags: []string{"op=" + g.Op, "gate", fmt.Sprintf("n=%d", len(g.DTypes))}, NonTrivial: len(g.DTypes) > 0, Sample: g}, func() *hx.Violation { return g.run() })
	})
	transitions += int64(len(cases))
	// the gate as Model.Run applies it: single-node models with 0..max+2 graph inputs wired to the node; a count
	// outside the operator's range must make Run fail with the input error (inside the range the outcome is the
	// operator's business and not judged)
	for _, name := range names {
		op, err := opset13.GetOperator(name)
		if err != nil {
			continue
		}
		min, max := op.GetMinInputs(), op.GetMaxInputs()
		top := max + 2
		if name == "Concat" {
			min, max, top = 1, 1<<30, 4
		}
		tc := op.GetInputTypeConstraints()
		for n := 0; n <= top; n++ {
			n := n
			g := &onnx.GraphProto{Name: "g", Output: []*onnx.ValueInfoProto{hx.ValueInfoNoShape("y")}}
			var ins []string
			feed := gonnx.Tensors{}
			for i := 0; i < n; i++ {
				dt := ref.F32
				if name != "Concat" && i < len(tc) && len(tc[i]) > 0 {
					if d, ok := hx.DTOf(tc[i][0]); ok {
						dt = d
					}
				}
				nm := fmt.Sprintf("x%d", i)
				ins = append(ins, nm)
				g.Input = append(g.Input, hx.ValueInfo(nm, dt, hx.FixedDims([]int{2})))
				feed[nm] = hx.ToG(ref.Distinct(dt, []int{2}))
			}
			// attributes of the operator's representative (valid) case, so that Init succeeds and the gate is reached
			var attrs []hx.Attr
			for _, rc := range repCases() {
				if rc.Op == name {
					attrs = rc.Attrs
					break
				}
			}
			g.Node = []*onnx.NodeProto{hx.Node(name, ins, []string{"y"}, attrs)}
			mb := hx.Marshal(hx.Model(g, 13))
			inRange := n >= min && n <= max
			for _, dangling := range []bool{false, true} {
				dangling := dangling
				id := fmt.Sprintf("gate-through-model/%s/n=%d", name, n)
				if dangling {
					// the node is a side branch: nothing reads its output and the graph does not return it; it is still
					// a node of the graph and its input list is still checked
					g2 := proto.Clone(g).(*onnx.GraphProto)
					g2.Input = append(g2.Input, hx.ValueInfo("main_in", ref.F32, hx.FixedDims([]int{2})))
					g2.Node = append([]*onnx.NodeProto{hx.Node("Relu", []string{"main_in"}, []string{"main_out"}, nil)}, g2.Node...)
					g2.Output = []*onnx.ValueInfoProto{hx.ValueInfoNoShape("main_out")}
					mb = hx.Marshal(hx.Model(g2, 13))
					feed = cloneFeed(feed)
					feed["main_in"] = hx.ToG(ref.Distinct(ref.F32, []int{2}))
					id += "/dangling-side-branch"
				}
				mb, feed := mb, feed
				c.Case(hx.CaseInfo{ID: id, Tags: []string{"op=" + name, "gate", "through-model", fmt.Sprintf("in-range=%v", inRange)}, NonTrivial: true}, func() (v *hx.Violation) {
					mk := func(kind, detail string) *hx.Violation {
						return &hx.Violation{Kind: kind, Detail: detail, Replay: map[string]any{"replay_kind": "gate-model", "model_b64": base64.StdEncoding.EncodeToString(mb), "n": n, "in_range": inRange}}
					}
					if inRange {
						// what the operator does with well-counted but arbitrary operands is not this property's business
						return hx.OK("in-range/not-judged")
					}
					defer func() {
						if p := recover(); p != nil {
							v = mk("panic", fmt.Sprintf("Run panicked: %v :: %s", p, firstLines(string(debug.Stack()), 12)))
						}
					}()
					m, err := gonnx.NewModelFromBytes(mb)
					if err != nil {
						return mk("refused", "model does not load: "+err.Error())
					}
					_, rerr := m.Run(feed)
					if rerr == nil {
						return mk("not-refused", fmt.Sprintf("a %s node with %d inputs (allowed %d..%d) ran", name, n, min, max))
					}
					var ie *ops.InputError
					if !errors.As(rerr, &ie) {
						return mk("wrong-error", fmt.Sprintf("Run failed with %T (%v), expected the input error", rerr, rerr))
					}
					return hx.OK("rejected-through-model")
				})
			}
		}
	}
	// unknown names
	reg := map[string]bool{}
	for _, n := range names {
		reg[n] = true
	}
	for _, n := range nonRegisteredOnnxOps {
		name := n
		if reg[name] {
			continue
		}
		c.Case(hx.CaseInfo{ID: "unknown/" + fmt.Sprintf("%q", name), Tags: []string{"unknown-name"}, NonTrivial: true}, func() *hx.Violation {
			mk := func(k, d string) *hx.Violation {
				return &hx.Violation{Kind: k, Detail: d, Replay: map[string]any{"replay_kind": "unknown-op", "name": name}}
			}
			op, err := opset13.GetOperator(name)
			if err == nil {
				return mk("not-refused", fmt.Sprintf("unregistered name %q resolved to %v", name, op))
			}
			if !errors.Is(err, ops.ErrUnsupportedOperator) {
				return mk("wrong-error", fmt.Sprintf("error %v is not ErrUnsupportedOperator", err))
			}
			return hx.OK("unsupported-operator")
		})
		transitions++
	}
	// lookup independence
	specs := lookupSpecs()
	type hjob struct {
		h  lookupHistory
		id string
	}
	var hjobs []hjob
	states := map[string]bool{}
	for si, sp := range specs {
		for _, sets := range [][]string{{"A", "B"}, {"B", "A"}, {"A", "A"}, {"A", "B", "A"}, {"B", "A", "B"}} {
			for mi, sched := range merges(len(sets)) {
				if len(sets) == 3 && c.Tier != "thorough" && mi%7 != 0 {
					continue
				}
				hjobs = append(hjobs, hjob{lookupHistory{ReplayKind: "lookup-history", Spec: sp, Sets: sets, Schedule: sched}, fmt.Sprintf("lookup/%d-%s/%v/%v", si, sp.Op, sets, sched)})
				prog := make([]int, len(sets))
				for _, t := range sched {
					prog[t]++
					states[fmt.Sprintf("%d|%v|%v", si, sets, prog)] = true
				}
				transitions += int64(len(sched))
			}
		}
	}
	c.ParallelFor(len(hjobs), func(i int) {
		j := hjobs[i]
		c.Case(hx.CaseInfo{ID: j.id, Tags: []string{"op=" + j.h.Spec.Op, "lookup-history"}, NonTrivial: true}, func() *hx.Violation { return j.h.run() })
	})
	c.AddStates(int64(len(states) + len(cases)))
	c.AddTransitions(transitions)
	c.AddTraces(int64(len(hjobs) + len(cases)))
}

func init() {
	replayers["unknown-op"] = func(raw json.RawMessage) *hx.Violation {
		var r struct {
			Name string `json:"name"`
		}
		json.Unmarshal(raw, &r)
		_, err := opset13.GetOperator(r.Name)
		if err == nil || !errors.Is(err, ops.ErrUnsupportedOperator) {
			return &hx.Violation{Kind: "not-refused", Detail: fmt.Sprintf("lookup of %q: %v", r.Name, err)}
		}
		return nil
	}
}

// zeroFeedFor: a tensor of the declared element type and shape (2) for every graph input of the model.
func zeroFeedFor(b []byte) map[string]*ref.T {
	feed := map[string]*ref.T{}
	mp, err := gonnx.ModelProtoFromBytes(b)
	if err != nil {
		return feed
	}
	for _, in := range mp.GetGraph().GetInput() {
		dt, ok := hx.RefDTOfOnnx(in.GetType().GetTensorType().GetElemType())
		if !ok {
			dt = ref.F32
		}
		feed[in.GetName()] = ref.Distinct(dt, []int{2})
	}
	return feed
}

func cloneFeed(f gonnx.Tensors) gonnx.Tensors {
	o := gonnx.Tensors{}
	for k, v := range f {
		o[k] = v
	}
	return o
}
