package main

import (
	"fmt"
	"runtime"

	"verifmc/hx"
	"verifmc/ref"
)

// C07 — Reshape, Flatten, Squeeze, Unsqueeze, Shape.

func init() { register("C07", "exploration", checkC07) }

func seqs(alpha []int64, minLen, maxLen int) [][]int64 {
	var out [][]int64
	for l := minLen; l <= maxLen; l++ {
		cur := make([]int64, l)
		var rec func(i int)
		rec = func(i int) {
			if i == l {
				out = append(out, append([]int64{}, cur...))
				return
			}
			for _, a := range alpha {
				cur[i] = a
				rec(i + 1)
			}
		}
		rec(0)
	}
	return out
}

func rangeI64(lo, hi int) []int64 {
	var out []int64
	for i := lo; i <= hi; i++ {
		out = append(out, int64(i))
	}
	return out
}

func checkC07(c *hx.Checker) {
	thorough := c.Tier == "thorough"
	maxRank, maxAxes := 4, 2
	if thorough {
		maxRank, maxAxes = 5, 3
	}
	c.Rule = "Reshape targets of length 1..3 over {-6,-4,-3,-2,-1,1,2,3} with at least one entry below -1 on 4 shapes (op and model route); Unsqueeze to output rank 8, 9, 10 from 4 shapes (contiguous runs of new axes at every offset, run + last / -1 / out-of-range position, duplicate at the last position, all-negative); " +
		fmt.Sprintf("inputs: all shapes of Box(rank 0..%d, extents {1,2,3}) with distinct float32 fill. Reshape: every target of rank 1..4 over {-1,0,1,2,3,4,6} (valid and invalid as decided by the reference); "+
			"Flatten: every axis in [-rank-1, rank+1] and axis absent; Squeeze: axes absent + every axes sequence of length 1..%d over [-rank-1, rank] (both spellings, unsorted, duplicated, out of range, extent != 1); "+
			"Unsqueeze: every axes sequence of length 1..%d over [-(r+k)-1, r+k]; Shape: every shape; all 14 element types on the rank<=2 extents {1,2} sub-box; single-node Model.Run route (operand as input and as initializer) on that sub-box; "+
			"each case also runs on an operator instance that already served another case of the same node (instance reuse). non-trivial = request changes the shape or must be refused. "+
			"Not enumerable: zero-length shape/axes operands and rank-0 Reshape targets (gorgonia cannot construct a 0-element tensor)", maxRank, maxAxes, maxAxes)
	c.Assumptions = []string{"reference: ONNX operator text transcribed as shape arithmetic (ref/shapeops.go); element order = identity on the row-major backing"}
	var jobs []opJob
	add := func(op string, attrs []hx.Attr, ins []*ref.T, exp *ref.T, err error, route string, init []bool, nt bool, desc string, extra ...string) {
		dom := hx.DCompute
		var exps []*ref.T
		if err != nil {
			dom = hx.DError
		} else {
			exps = []*ref.T{exp}
		}
		oc := &hx.OpCase{Op: op, Attrs: attrs, Inputs: hx.ToTJs(ins), NOut: 1, Route: route, Init: init}
		tags := append([]string{"op=" + op, "dtype=" + ins[0].DT.String(), "route=" + route, "domain=" + string(dom), fmt.Sprintf("rank=%d", len(ins[0].Shape))}, extra...)
		id := fmt.Sprintf("%s/%s/%s%v/%v/%s", op, ins[0].DT, route, init, ins[0].Shape, desc)
		jobs = append(jobs, opJob{id: id, tags: tags, nt: nt || err != nil, oc: oc, dom: dom, exp: exps, cmp: hx.Bits})
	}
	box := ref.Box(0, maxRank, []int{1, 2, 3})
	sub := ref.Box(0, 2, []int{1, 2})
	targets := seqs([]int64{-1, 0, 1, 2, 3, 4, 6}, 1, 4)
	type variant struct {
		dt     ref.DT
		shapes [][]int
		routes []string
	}
	vars := []variant{{ref.F32, box, []string{"op"}}}
	for _, dt := range ref.AllDT {
		routes := []string{"op"}
		if dt != ref.C64 && dt != ref.C128 && dt != ref.Str {
			routes = append(routes, "model", "model-init")
		}
		vars = append(vars, variant{dt, sub, routes})
	}
	// jobs are run in batches (memory: the thorough box has several million jobs with their expected tensors)
	flush := func(min int) {
		if len(jobs) >= min && len(jobs) > 0 {
			runOpJobs(c, jobs)
			runReuseJobs(c, jobs)
			jobs = nil
			runtime.GC()
		}
	}
	for vi, v := range vars {
		for _, sh := range v.shapes {
			flush(250000)
			r := len(sh)
			data := ref.Distinct(v.dt, sh)
			for _, route := range v.routes {
				var init []bool
				rt := route
				if route == "model-init" {
					rt, init = "model", []bool{false, true}
				}
				// Reshape
				tg := targets
				if vi > 0 {
					tg = seqs([]int64{-1, 0, 1, 2, 4}, 1, 3)
				}
				for _, t := range tg {
					exp, err := ref.Reshape(data, t)
					var extra []string
					for _, d := range t {
						if d == -1 {
							extra = append(extra, "has-1")
							break
						}
					}
					add("Reshape", nil, []*ref.T{data, ref.I64Vec(t...)}, exp, err, rt, init, true, fmt.Sprint(t), extra...)
				}
				// Flatten
				if route != "model-init" {
					for ax := -r - 1; ax <= r+1; ax++ {
						exp, err := ref.Flatten(data, ax)
						add("Flatten", []hx.Attr{hx.AInt("axis", int64(ax))}, []*ref.T{data}, exp, err, rt, nil, true, fmt.Sprintf("axis=%d", ax))
					}
					exp, err := ref.Flatten(data, 1)
					if r == 0 {
						exp, err = nil, ref.Invalid("default axis 1 on rank 0")
					}
					add("Flatten", nil, []*ref.T{data}, exp, err, rt, nil, true, "axis-absent")
					// Shape
					add("Shape", nil, []*ref.T{data}, ref.ShapeOf(data), nil, rt, nil, true, "")
					// Squeeze without axes
					exps, errs := ref.Squeeze(data, nil, false)
					add("Squeeze", nil, []*ref.T{data, nil}, exps, errs, rt, nil, true, "axes-absent")
				}
				sqAxes := seqs(rangeI64(-r-1, r), 1, maxAxes)
				if maxAxes < 3 && r <= 3 && vi == 0 && route == "op" {
					// axes lists of length 3 (a duplicate separated by another axis, ...) on ranks <= 3 also in the quick tier
					sqAxes = seqs(rangeI64(-r-1, r), 1, 3)
				}
				for _, ax := range sqAxes {
					exp, err := ref.Squeeze(data, ax, true)
					add("Squeeze", nil, []*ref.T{data, ref.I64Vec(ax...)}, exp, err, rt, init, true, fmt.Sprint(ax))
				}
				for k := 1; k <= maxAxes; k++ {
					for _, ax := range seqs(rangeI64(-(r+k)-1, r+k), k, k) {
						exp, err := ref.Unsqueeze(data, ax)
						add("Unsqueeze", nil, []*ref.T{data, ref.I64Vec(ax...)}, exp, err, rt, init, true, fmt.Sprint(ax))
					}
				}
			}
		}
	}
	// extreme integers as axis / axes / target-shape entries: all of them are out of range and must be refused
	for _, sh := range [][]int{{}, {2, 3}, {1, 2, 1}, {1}} {
		data := ref.Distinct(ref.F32, sh)
		bad := ref.Invalid("extreme integer")
		for _, e := range extremeInts {
			for _, rt := range []string{"op", "model"} {
				add("Flatten", []hx.Attr{hx.AInt("axis", e)}, []*ref.T{data}, nil, bad, rt, nil, true, fmt.Sprintf("axis=%d", e), "extreme-int")
				for _, ax := range [][]int64{{e}, {0, e}, {e, e}} {
					add("Squeeze", nil, []*ref.T{data, ref.I64Vec(ax...)}, nil, bad, rt, nil, true, fmt.Sprint(ax), "extreme-int")
					add("Unsqueeze", nil, []*ref.T{data, ref.I64Vec(ax...)}, nil, bad, rt, nil, true, fmt.Sprint(ax), "extreme-int")
				}
				for _, t := range [][]int64{{e}, {e, -1}, {-1, e}, {2, e}, {e, e}, {e, 0}, {-1, e, e}, {e, e, -1}, {e, -1, e}, {e, 4, -1}, {-1, 4, e}, {0, e, -1}} {
					add("Reshape", nil, []*ref.T{data, ref.I64Vec(t...)}, nil, bad, rt, nil, true, fmt.Sprint(t), "extreme-int")
				}
			}
		}
	}
	// Reshape targets with negative entries other than -1 (pairs whose signs cancel in the product have the right element
	// count and must still be refused), and Unsqueeze up to output rank 10 (every axes set of a fixed length whose result
	// has rank 9 / 10 would be too many: the new axes are a contiguous run, a run plus the last position, or the extremes)
	for _, sh := range [][]int{{2, 3}, {6}, {1, 4}, {2, 1, 2}} {
		data := ref.Distinct(ref.F32, sh)
		for _, t := range seqs([]int64{-6, -4, -3, -2, -1, 1, 2, 3}, 1, 3) {
			neg := false
			for _, d := range t {
				neg = neg || d < -1
			}
			if !neg {
				continue
			}
			exp, err := ref.Reshape(data, t)
			for _, rt := range []string{"op", "model"} {
				add("Reshape", nil, []*ref.T{data, ref.I64Vec(t...)}, exp, err, rt, nil, true, fmt.Sprint(t), "negative-extent")
			}
		}
	}
	for _, sh := range [][]int{{2, 3}, {3}, {1, 2, 1, 2, 3}, {}} {
		data := ref.Distinct(ref.F32, sh)
		r := len(sh)
		for _, outRank := range []int{8, 9, 10} {
			k := outRank - r
			var sets [][]int64
			for start := 0; start+k <= outRank; start++ { // contiguous run of new axes
				sets = append(sets, rangeI64(start, start+k-1))
			}
			run := rangeI64(0, k-2)
			sets = append(sets, append(append([]int64{}, run...), int64(outRank-1)), append(append([]int64{}, run...), -1),
				append([]int64{int64(outRank - 1)}, run...), append(append([]int64{}, run...), int64(outRank)), append(append([]int64{}, run...), int64(-outRank-1)))
			if k >= 2 {
				sets = append(sets, append(append([]int64{}, rangeI64(0, k-3)...), int64(outRank-1), -1)) // duplicate at the last position
				neg := rangeI64(-k, -1)
				sets = append(sets, neg)
			}
			for _, ax := range sets {
				exp, err := ref.Unsqueeze(data, ax)
				add("Unsqueeze", nil, []*ref.T{data, ref.I64Vec(ax...)}, exp, err, "op", nil, true, fmt.Sprint(ax), "high-rank")
			}
		}
	}
	// larger shapes beyond the exhaustive box
	for _, sh := range [][]int{{4, 5, 6}, {7, 1, 9}, {2, 3, 4, 5, 6}, {64}, {1, 128}, {4099}, {3, 1367}, {1, 32771}, {7, 1, 9363}} {
		data := ref.Distinct(ref.F32, sh)
		n := int64(ref.NElem(sh))
		for _, t := range [][]int64{{-1}, {n}, {2, -1}, {0, -1}, {-1, int64(sh[len(sh)-1])}, {n, 1, 1}, {3, -1}, {n + 1}} {
			exp, err := ref.Reshape(data, t)
			add("Reshape", nil, []*ref.T{data, ref.I64Vec(t...)}, exp, err, "op", nil, true, "large"+fmt.Sprint(t), "large")
		}
		for ax := -len(sh); ax <= len(sh); ax++ {
			exp, err := ref.Flatten(data, ax)
			add("Flatten", []hx.Attr{hx.AInt("axis", int64(ax))}, []*ref.T{data}, exp, err, "op", nil, true, fmt.Sprintf("large axis=%d", ax), "large")
		}
		for _, ax := range [][]int64{{0}, {-1}, {1, 0}, {int64(len(sh))}, {0, int64(len(sh)) + 1}} {
			exp, err := ref.Unsqueeze(data, ax)
			add("Unsqueeze", nil, []*ref.T{data, ref.I64Vec(ax...)}, exp, err, "op", nil, true, "large"+fmt.Sprint(ax), "large")
			exps, errs := ref.Squeeze(data, ax, true)
			add("Squeeze", nil, []*ref.T{data, ref.I64Vec(ax...)}, exps, errs, "op", nil, true, "large"+fmt.Sprint(ax), "large")
		}
		exps, errs := ref.Squeeze(data, nil, false)
		add("Squeeze", nil, []*ref.T{data, nil}, exps, errs, "op", nil, true, "large axes-absent", "large")
		add("Shape", nil, []*ref.T{data}, ref.ShapeOf(data), nil, "op", nil, true, "large", "large")
	}
	flush(0)
}
