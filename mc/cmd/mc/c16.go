package main

import (
	"encoding/json"
	"fmt"
	"math"
	"sort"
	"strings"

	"github.com/advancedclimatesystems/gonnx/onnx"
	"verifmc/hx"
	"verifmc/ref"
)

// C16 — samples in a batch do not influence one another.

func init() {
	register("C16", "exploration", checkC16)
	replayers["batch"] = func(raw json.RawMessage) *hx.Violation {
		var r struct {
			Model string `json:"model"`
			Batch []int  `json:"batch"`
		}
		if err := json.Unmarshal(raw, &r); err != nil {
			return &hx.Violation{Kind: "bad-replay", Detail: err.Error()}
		}
		for _, bm := range batchModels(true) {
			if bm.Name == r.Model {
				return bm.check(r.Batch, 5)
			}
		}
		return &hx.Violation{Kind: "bad-replay", Detail: "unknown model " + r.Model}
	}
}

type batchIO struct {
	Shape []int // per-sample shape with the batch axis present as extent 1
	Axis  int
}

type batchModel struct {
	Name      string
	Bytes     []byte
	In        map[string]batchIO
	Out       map[string]int // output name -> batch axis
	solo      map[int]map[string]*ref.T
	NonFinite bool    // sample 1 of the pool holds +Inf, sample 2 a NaN (in the first per-sample element): 0 * Inf = NaN must not depend on who shares the batch
	Big       float64 // > 0: sample 2 of the pool is this many times larger than sample 0 (both signs), sample 1 large and all positive, sample 3 large and all negative
}

// stack concatenates per-sample tensors (extent 1 on axis) along axis.
func stack(ts []*ref.T, axis int) *ref.T {
	out, err := ref.Concat(ts, axis)
	if err != nil {
		hx.HarnessError("stack: %v", err)
	}
	return out
}

// row extracts sample i along axis (keeping the axis with extent 1).
func row(t *ref.T, axis, i int) *ref.T {
	out, err := ref.Slice(t, []ref.SliceSpec{{Start: int64(i), End: int64(i + 1), Step: 1, Axis: int64(axis)}})
	if err != nil {
		hx.HarnessError("row: %v", err)
	}
	return out
}

func (bm *batchModel) sample(name string, k int) *ref.T {
	io := bm.In[name]
	salt := 3 + 17*k
	for _, c := range name {
		salt += int(c)
	}
	t := recFill(ref.F32, io.Shape, salt)
	if bm.NonFinite && (k == 1 || k == 2) {
		t0 := t
		t = ref.Fill(ref.F32, io.Shape, func(i int) float64 {
			if i == 0 && k == 1 {
				return math.Inf(1)
			}
			if i == 1%len(t0.V) && k == 2 {
				return math.NaN()
			}
			return t0.F(i)
		})
	}
	switch {
	case bm.Big > 0 && k == 2:
		t = ref.Fill(ref.F32, io.Shape, func(i int) float64 { return t.F(i) * bm.Big })
	case bm.Big > 0 && k == 3:
		// a second large sample, all negative (sample 2 has both signs): a kernel that switches formula for the
		// whole tensor as soon as one element is extreme shows when the two meet in one batch
		t = ref.Fill(ref.F32, io.Shape, func(i int) float64 { return -math.Abs(t.F(i))*bm.Big - bm.Big })
	case bm.Big > 0 && k == 1:
		t = ref.Fill(ref.F32, io.Shape, func(i int) float64 { return math.Abs(t.F(i))*bm.Big + bm.Big })
	}
	return t
}

func (bm *batchModel) run(batch []int) (hx.Result, []string) {
	feed := map[string]*ref.T{}
	for name, io := range bm.In {
		var ts []*ref.T
		for _, k := range batch {
			ts = append(ts, bm.sample(name, k))
		}
		feed[name] = stack(ts, io.Axis)
	}
	var outs []string
	for o := range bm.Out {
		outs = append(outs, o)
	}
	sort.Strings(outs)
	return hx.RunModelBytes(bm.Bytes, feed, outs), outs
}

func (bm *batchModel) check(batch []int, pool int) *hx.Violation {
	mk := func(kind, detail string) *hx.Violation {
		return &hx.Violation{Kind: kind, Detail: detail, Replay: map[string]any{"replay_kind": "batch", "model": bm.Name, "batch": batch}}
	}
	res, outs := bm.run(batch)
	if res.Panic != "" {
		return mk("panic", res.Panic)
	}
	if res.Mutated != "" {
		return mk("mutated-input", res.Mutated)
	}
	if res.Err != nil {
		return mk("refused", fmt.Sprintf("batch %v refused: %v", batch, res.Err))
	}
	if res.ReadErr != "" {
		return mk("wrong-outputs", res.ReadErr)
	}
	exact := 0
	for i, k := range batch {
		soloRes, _ := bm.run([]int{k})
		if soloRes.Err != nil || soloRes.Panic != "" {
			return mk("refused", fmt.Sprintf("sample %d alone fails (%v %s) but inside batch %v it is computed", k, soloRes.Err, soloRes.Panic, batch))
		}
		for oi, o := range outs {
			ax := bm.Out[o]
			if res.Outs[oi] == nil || len(res.Outs[oi].Shape) <= ax || res.Outs[oi].Shape[ax] != len(batch) {
				sh := []int(nil)
				if res.Outs[oi] != nil {
					sh = res.Outs[oi].Shape
				}
				return mk("wrong-shape", fmt.Sprintf("output %q of batch %v has shape %v: batch axis %d should have extent %d", o, batch, sh, ax, len(batch)))
			}
			got := row(res.Outs[oi], ax, i)
			want := soloRes.Outs[oi]
			cmp := hx.Tol(1e-5, 1e-6)
			if bm.Big > 0 {
				cmp = hx.Tol(1e-5, 2e-4) // rounding of intermediate values of magnitude ~300 (ulp 3e-5)
			}
			if strings.Contains(bm.Name, "/wide") {
				// dot products of length 64 accumulated in float32 in a batch-size dependent order: |d| <= 2*64*eps*sum|a||b|
				cmp = hx.Tol(1e-4, 2e-3)
			}
			if !got.DT.IsFloat() {
				cmp = hx.Bits
			}
			if k2, d := hx.CompareT(got, want, cmp); k2 != "" {
				return mk("batch-dependent", fmt.Sprintf("output %q: position %d of batch %v (sample %d) differs from evaluating that sample alone: %s", o, i, batch, k, d))
			}
			if k3, _ := hx.CompareT(got, want, hx.Bits); k3 == "" {
				exact++
			}
		}
	}
	if exact == len(batch)*len(outs) {
		return hx.OK("rows-bit-identical")
	}
	return hx.OK("rows-within-rounding")
}

func batchModels(all bool) []*batchModel {
	var out []*batchModel
	N := hx.DimSpec{Param: "N"}
	fx := func(d int) hx.DimSpec { return hx.DimSpec{Fixed: int64(d)} }
	init := func(name string, sh ...int) *onnx.TensorProto {
		return hx.TensorProto(name, recFill(ref.F32, sh, len(name)*3+len(sh)), "raw")
	}
	iinit := func(name string, v ...int64) *onnx.TensorProto { return hx.TensorProto(name, ref.I64Vec(v...), "raw") }
	type stage struct {
		name  string
		nodes func(in, out string) []*onnx.NodeProto
		inits []*onnx.TensorProto
	}
	mkModel := func(name string, inName string, inDims []hx.DimSpec, io batchIO, pre *stage, nodes []*onnx.NodeProto, inits []*onnx.TensorProto, outs map[string]int, extraIn map[string]batchIO, extraDims map[string][]hx.DimSpec) {
		g := &onnx.GraphProto{Name: "g"}
		g.Input = append(g.Input, hx.ValueInfo(inName, ref.F32, inDims))
		ins := map[string]batchIO{inName: io}
		for k, v := range extraIn {
			ins[k] = v
			g.Input = append(g.Input, hx.ValueInfo(k, ref.F32, extraDims[k]))
		}
		full := name
		if pre != nil {
			full = pre.name + ">" + name
			g.Node = append(g.Node, pre.nodes(inName, "pre_out")...)
			g.Initializer = append(g.Initializer, pre.inits...)
			for _, n := range nodes {
				for i, s := range n.Input {
					if s == inName {
						n.Input[i] = "pre_out"
					}
				}
			}
		}
		g.Node = append(g.Node, nodes...)
		g.Initializer = append(g.Initializer, inits...)
		var onames []string
		for o := range outs {
			onames = append(onames, o)
		}
		sort.Strings(onames)
		for _, o := range onames {
			g.Output = append(g.Output, hx.ValueInfoNoShape(o))
		}
		out = append(out, &batchModel{Name: full, Bytes: hx.Marshal(hx.Model(g, 13)), In: ins, Out: outs})
	}
	// per-sample models on x [N,3]
	type m2 struct {
		name  string
		nodes []*onnx.NodeProto
		inits []*onnx.TensorProto
		outs  map[string]int
	}
	vec := func() []m2 {
		return []m2{
			{"Gemm", []*onnx.NodeProto{hx.Node("Gemm", []string{"x", "W", "b"}, []string{"y"}, nil)}, []*onnx.TensorProto{init("W", 3, 2), init("b", 2)}, map[string]int{"y": 0}},
			{"Gemm{transB,bias(1,N)}", []*onnx.NodeProto{hx.Node("Gemm", []string{"x", "Wt", "b1"}, []string{"y"}, []hx.Attr{hx.AInt("transB", 1), hx.AFloat("beta", 2)})}, []*onnx.TensorProto{init("Wt", 2, 3), init("b1", 1, 2)}, map[string]int{"y": 0}},
			{"MatMul", []*onnx.NodeProto{hx.Node("MatMul", []string{"x", "W"}, []string{"y"}, nil)}, []*onnx.TensorProto{init("W", 3, 2)}, map[string]int{"y": 0}},
			{"mlp", []*onnx.NodeProto{hx.Node("Gemm", []string{"x", "W", "b"}, []string{"h"}, nil), hx.Node("Relu", []string{"h"}, []string{"r"}, nil), hx.Node("Gemm", []string{"r", "W2", "b2"}, []string{"y"}, nil)},
				[]*onnx.TensorProto{init("W", 3, 2), init("b", 2), init("W2", 2, 2), init("b2", 2)}, map[string]int{"y": 0, "h": 0}},
			{"Add-bias", []*onnx.NodeProto{hx.Node("Add", []string{"x", "b3"}, []string{"y"}, nil)}, []*onnx.TensorProto{init("b3", 3)}, map[string]int{"y": 0}},
			{"Mul-Sub-Div", []*onnx.NodeProto{hx.Node("Mul", []string{"x", "b3"}, []string{"m"}, nil), hx.Node("Sub", []string{"m", "x"}, []string{"s"}, nil), hx.Node("Div", []string{"s", "c3"}, []string{"y"}, nil)},
				[]*onnx.TensorProto{init("b3", 3), hx.TensorProto("c3", ref.FromF(ref.F32, []int{3}, 2, 4, -0.5), "raw")}, map[string]int{"y": 0}},
			{"activations", []*onnx.NodeProto{hx.Node("Tanh", []string{"x"}, []string{"t"}, nil), hx.Node("Sigmoid", []string{"t"}, []string{"s"}, nil), hx.Node("Relu", []string{"s"}, []string{"y"}, nil)}, nil, map[string]int{"y": 0, "t": 0}},
			{"PRelu", []*onnx.NodeProto{hx.Node("PRelu", []string{"x", "slope"}, []string{"y"}, nil)}, []*onnx.TensorProto{init("slope", 3)}, map[string]int{"y": 0}},
			{"Softmax{-1}", []*onnx.NodeProto{hx.Node("Softmax", []string{"x"}, []string{"y"}, []hx.Attr{hx.AInt("axis", -1)})}, nil, map[string]int{"y": 0}},
			{"LogSoftmax{1}", []*onnx.NodeProto{hx.Node("LogSoftmax", []string{"x"}, []string{"y"}, []hx.Attr{hx.AInt("axis", 1)})}, nil, map[string]int{"y": 0}},
			{"Scaler", []*onnx.NodeProto{hx.Node("Scaler", []string{"x"}, []string{"y"}, []hx.Attr{hx.AFloats("offset", 0.5, -1, 2), hx.AFloats("scale", 2, 0.5, -1)})}, nil, map[string]int{"y": 0}},
			{"LinearRegressor", []*onnx.NodeProto{hx.Node("LinearRegressor", []string{"x"}, []string{"y"}, []hx.Attr{hx.AFloats("coefficients", 0.5, -1, 2, 0.25, 1, -0.5), hx.AInt("targets", 2), hx.AFloats("intercepts", 0.5, -0.25)})}, nil, map[string]int{"y": 0}},
			{"Gather{axis=1}", []*onnx.NodeProto{hx.Node("Gather", []string{"x", "idx"}, []string{"y"}, []hx.Attr{hx.AInt("axis", 1)})}, []*onnx.TensorProto{iinit("idx", 2, 0)}, map[string]int{"y": 0}},
			{"Slice{axis=1}", []*onnx.NodeProto{hx.Node("Slice", []string{"x", "st", "en", "ax"}, []string{"y"}, nil)}, []*onnx.TensorProto{iinit("st", 1), iinit("en", 3), iinit("ax", 1)}, map[string]int{"y": 0}},
			{"ArgMax+ReduceMax", []*onnx.NodeProto{hx.Node("ArgMax", []string{"x"}, []string{"am"}, []hx.Attr{hx.AInt("axis", 1), hx.AInt("keepdims", 1)}), hx.Node("ReduceMax", []string{"x"}, []string{"rm"}, []hx.Attr{hx.AInts("axes", 1), hx.AInt("keepdims", 1)}),
				hx.Node("ReduceMin", []string{"x"}, []string{"rn"}, []hx.Attr{hx.AInts("axes", -1), hx.AInt("keepdims", 1)})}, nil, map[string]int{"am": 0, "rm": 0, "rn": 0}},
			{"Unsqueeze+Squeeze", []*onnx.NodeProto{hx.Node("Unsqueeze", []string{"x", "ax1"}, []string{"u"}, nil), hx.Node("Squeeze", []string{"u", "ax1"}, []string{"y"}, nil)}, []*onnx.TensorProto{iinit("ax1", 1)}, map[string]int{"y": 0, "u": 0}},
			{"Concat{axis=1}", []*onnx.NodeProto{hx.Node("Relu", []string{"x"}, []string{"r"}, nil), hx.Node("Concat", []string{"x", "r"}, []string{"y"}, []hx.Attr{hx.AInt("axis", 1)})}, nil, map[string]int{"y": 0}},
			{"Cast", []*onnx.NodeProto{hx.Node("Cast", []string{"x"}, []string{"y"}, []hx.Attr{hx.AInt("to", 11)})}, nil, map[string]int{"y": 0}},
			{"Reshape(0,-1)+Gemm", []*onnx.NodeProto{hx.Node("Reshape", []string{"x", "shp"}, []string{"r"}, nil), hx.Node("Gemm", []string{"r", "W", "b"}, []string{"y"}, nil)}, []*onnx.TensorProto{iinit("shp", 0, -1), init("W", 3, 2), init("b", 2)}, map[string]int{"y": 0}},
			{"Expand-bias", []*onnx.NodeProto{hx.Node("Unsqueeze", []string{"x", "ax1"}, []string{"u"}, nil), hx.Node("Expand", []string{"u", "eshape"}, []string{"y"}, nil)}, []*onnx.TensorProto{iinit("ax1", 1), iinit("eshape", 1, 2, 3)}, map[string]int{"y": 0}},
		}
	}
	pres := []*stage{nil,
		{"Relu", func(in, o string) []*onnx.NodeProto {
			return []*onnx.NodeProto{hx.Node("Relu", []string{in}, []string{o}, nil)}
		}, nil},
		{"Add-bias", func(in, o string) []*onnx.NodeProto {
			return []*onnx.NodeProto{hx.Node("Add", []string{in, "pre_b"}, []string{o}, nil)}
		}, []*onnx.TensorProto{init("pre_b", 3)}},
		{"Mul", func(in, o string) []*onnx.NodeProto {
			return []*onnx.NodeProto{hx.Node("Mul", []string{in, in}, []string{o}, nil)}
		}, nil},
		{"Tanh", func(in, o string) []*onnx.NodeProto {
			return []*onnx.NodeProto{hx.Node("Tanh", []string{in}, []string{o}, nil)}
		}, nil},
	}
	for _, pre := range pres {
		for _, m := range vec() {
			mkModel(m.name, "x", []hx.DimSpec{N, fx(3)}, batchIO{[]int{1, 3}, 0}, pre, m.nodes, m.inits, m.outs, nil, nil)
		}
	}
	// wide layers: products large enough for size thresholds (blocked / parallel kernels); checked with EVERY batch size
	// 1..72 (row-block remainders) instead of the exhaustive short batches
	mkModel("Gemm/wide(N,64)x(64,48)", "x", []hx.DimSpec{N, fx(64)}, batchIO{[]int{1, 64}, 0}, nil, []*onnx.NodeProto{hx.Node("Gemm", []string{"x", "W", "b"}, []string{"y"}, nil)}, []*onnx.TensorProto{init("W", 64, 48), init("b", 48)}, map[string]int{"y": 0}, nil, nil)
	mkModel("Gemm{transB}/wide(N,64)x(48,64)", "x", []hx.DimSpec{N, fx(64)}, batchIO{[]int{1, 64}, 0}, nil, []*onnx.NodeProto{hx.Node("Gemm", []string{"x", "Wt"}, []string{"y"}, []hx.Attr{hx.AInt("transB", 1), hx.AFloat("alpha", 0.5)})}, []*onnx.TensorProto{init("Wt", 48, 64)}, map[string]int{"y": 0}, nil, nil)
	mkModel("MatMul/wide(N,64)x(64,48)", "x", []hx.DimSpec{N, fx(64)}, batchIO{[]int{1, 64}, 0}, nil, []*onnx.NodeProto{hx.Node("MatMul", []string{"x", "W"}, []string{"y"}, nil)}, []*onnx.TensorProto{init("W", 64, 48)}, map[string]int{"y": 0}, nil, nil)
	mkModel("MatMul-batched/wide(N,8,32)x(32,40)", "x", []hx.DimSpec{N, fx(8), fx(32)}, batchIO{[]int{1, 8, 32}, 0}, nil, []*onnx.NodeProto{hx.Node("MatMul", []string{"x", "W"}, []string{"y"}, nil)}, []*onnx.TensorProto{init("W", 32, 40)}, map[string]int{"y": 0}, nil, nil)
	mkModel("GRU/wide(seq2,N,24)h32", "x", []hx.DimSpec{fx(2), N, fx(24)}, batchIO{[]int{2, 1, 24}, 1}, nil, []*onnx.NodeProto{hx.Node("GRU", []string{"x", "W", "R", "B"}, []string{"Y", "Yh"}, []hx.Attr{hx.AInt("hidden_size", 32)})}, []*onnx.TensorProto{init("W", 1, 96, 24), init("R", 1, 96, 32), init("B", 1, 192)}, map[string]int{"Y": 2, "Yh": 1}, nil, nil)
	mkModel("LSTM/wide(seq2,N,24)h32", "x", []hx.DimSpec{fx(2), N, fx(24)}, batchIO{[]int{2, 1, 24}, 1}, nil, []*onnx.NodeProto{hx.Node("LSTM", []string{"x", "W", "R", "B"}, []string{"Y", "Yh", "Yc"}, []hx.Attr{hx.AInt("hidden_size", 32)})}, []*onnx.TensorProto{init("W", 1, 128, 24), init("R", 1, 128, 32), init("B", 1, 256)}, map[string]int{"Y": 2, "Yh": 1, "Yc": 1}, nil, nil)
	// weights with exact zeros against samples that hold Inf / NaN: every batch size 1..72 (kernels that treat zero
	// multipliers specially, chosen by the shape of the batch)
	{
		zw := func(name string, sh ...int) *onnx.TensorProto {
			b := recFill(ref.F32, sh, len(name)*3+len(sh))
			return hx.TensorProto(name, ref.Fill(ref.F32, sh, func(i int) float64 {
				if i%3 == 0 {
					return 0
				}
				return b.F(i)
			}), "raw")
		}
		mkModel("Gemm{transB}/wide-zero-weights(N,4)x(8,4)", "x", []hx.DimSpec{N, fx(4)}, batchIO{[]int{1, 4}, 0}, nil, []*onnx.NodeProto{hx.Node("Gemm", []string{"x", "Wz"}, []string{"y"}, []hx.Attr{hx.AInt("transB", 1)})}, []*onnx.TensorProto{zw("Wz", 8, 4)}, map[string]int{"y": 0}, nil, nil)
		out[len(out)-1].NonFinite = true
		mkModel("Gemm/wide-zero-weights(N,4)x(4,8)", "x", []hx.DimSpec{N, fx(4)}, batchIO{[]int{1, 4}, 0}, nil, []*onnx.NodeProto{hx.Node("Gemm", []string{"x", "Wz2", "bz"}, []string{"y"}, nil)}, []*onnx.TensorProto{zw("Wz2", 4, 8), zw("bz", 8)}, map[string]int{"y": 0}, nil, nil)
		out[len(out)-1].NonFinite = true
		mkModel("MatMul/wide-zero-weights(N,4)x(4,8)", "x", []hx.DimSpec{N, fx(4)}, batchIO{[]int{1, 4}, 0}, nil, []*onnx.NodeProto{hx.Node("MatMul", []string{"x", "Wz2"}, []string{"y"}, nil)}, []*onnx.TensorProto{zw("Wz2", 4, 8)}, map[string]int{"y": 0}, nil, nil)
		out[len(out)-1].NonFinite = true
	}
	// the weight as the LEFT operand of a stack of per-sample matrices, small and wide
	mkModel("MatMul-weight-left(2,3)x(N,3,2)", "x", []hx.DimSpec{N, fx(3), fx(2)}, batchIO{[]int{1, 3, 2}, 0}, nil, []*onnx.NodeProto{hx.Node("MatMul", []string{"Wl", "x"}, []string{"y"}, nil)}, []*onnx.TensorProto{init("Wl", 2, 3)}, map[string]int{"y": 0}, nil, nil)
	mkModel("MatMul-weight-left(4,3)x(N,3,1)", "x", []hx.DimSpec{N, fx(3), fx(1)}, batchIO{[]int{1, 3, 1}, 0}, nil, []*onnx.NodeProto{hx.Node("MatMul", []string{"Wl4", "x"}, []string{"y"}, nil)}, []*onnx.TensorProto{init("Wl4", 4, 3)}, map[string]int{"y": 0}, nil, nil)
	mkModel("MatMul-weight-left/wide(24,32)x(N,32,8)", "x", []hx.DimSpec{N, fx(32), fx(8)}, batchIO{[]int{1, 32, 8}, 0}, nil, []*onnx.NodeProto{hx.Node("MatMul", []string{"Wlw", "x"}, []string{"y"}, nil)}, []*onnx.TensorProto{init("Wlw", 24, 32)}, map[string]int{"y": 0}, nil, nil)
	mkModel("MatMul-weight-left-rank4(2,3)x(N,2,3,2)", "x", []hx.DimSpec{N, fx(2), fx(3), fx(2)}, batchIO{[]int{1, 2, 3, 2}, 0}, nil, []*onnx.NodeProto{hx.Node("MatMul", []string{"Wl", "x"}, []string{"y"}, nil)}, []*onnx.TensorProto{init("Wl", 2, 3)}, map[string]int{"y": 0}, nil, nil)
	// tensors with more structure per sample
	mkModel("MatMul-batched(N,2,3)", "x", []hx.DimSpec{N, fx(2), fx(3)}, batchIO{[]int{1, 2, 3}, 0}, nil, []*onnx.NodeProto{hx.Node("MatMul", []string{"x", "W"}, []string{"y"}, nil)}, []*onnx.TensorProto{init("W", 3, 2)}, map[string]int{"y": 0}, nil, nil)
	mkModel("Flatten+Gemm(N,2,3)", "x", []hx.DimSpec{N, fx(2), fx(3)}, batchIO{[]int{1, 2, 3}, 0}, nil, []*onnx.NodeProto{hx.Node("Flatten", []string{"x"}, []string{"f"}, []hx.Attr{hx.AInt("axis", 1)}), hx.Node("Gemm", []string{"f", "W6", "b"}, []string{"y"}, nil)}, []*onnx.TensorProto{init("W6", 6, 2), init("b", 2)}, map[string]int{"y": 0, "f": 0}, nil, nil)
	mkModel("Softmax{axis=1}(N,3,2)", "x", []hx.DimSpec{N, fx(3), fx(2)}, batchIO{[]int{1, 3, 2}, 0}, nil, []*onnx.NodeProto{hx.Node("Softmax", []string{"x"}, []string{"y"}, []hx.Attr{hx.AInt("axis", 1)}), hx.Node("Transpose", []string{"y"}, []string{"t"}, []hx.Attr{hx.AInts("perm", 0, 2, 1)})}, nil, map[string]int{"y": 0, "t": 0}, nil, nil)
	// data-movement operators on (N,seq,feat) and (N,c,h,w) samples: Gather on every non-batch axis with a scalar (rank-0), a
	// vector and a matrix index, non-negative and negative ("the last step"); Transpose with every permutation of rank 3
	// and the layout changes of rank 4 - the batch axis then sits wherever the permutation sends it
	for _, ax := range []int{1, 2, -1, -2} {
		for iname, idx := range map[string]*ref.T{"scalar0": ref.FromI(ref.I64, []int{}, 0), "scalar-1": ref.FromI(ref.I64, []int{}, -1), "scalar1": ref.FromI(ref.I64, []int{}, 1),
			"vec": ref.I64Vec(-1, 0), "vec1": ref.I64Vec(-2), "mat": ref.FromI(ref.I64, []int{2, 1}, 1, -1)} {
			mkModel(fmt.Sprintf("Gather{axis=%d,%s}(N,3,2)", ax, iname), "x", []hx.DimSpec{N, fx(3), fx(2)}, batchIO{[]int{1, 3, 2}, 0}, nil,
				[]*onnx.NodeProto{hx.Node("Gather", []string{"x", "gidx"}, []string{"y"}, []hx.Attr{hx.AInt("axis", int64(ax))})}, []*onnx.TensorProto{hx.TensorProto("gidx", idx, "raw")}, map[string]int{"y": 0}, nil, nil)
		}
	}
	for _, perm := range [][]int64{{0, 1, 2}, {0, 2, 1}, {1, 0, 2}, {1, 2, 0}, {2, 0, 1}, {2, 1, 0}, {0, 2, 3, 1}, {0, 3, 1, 2}, {1, 0, 2, 3}, {3, 2, 1, 0}, {2, 3, 0, 1}, {1, 2, 3, 0}, {3, 0, 1, 2}, {2, 0, 3, 1}} {
		dims, sample := []hx.DimSpec{N, fx(3), fx(2)}, []int{1, 3, 2}
		if len(perm) == 4 {
			dims, sample = []hx.DimSpec{N, fx(2), fx(3), fx(2)}, []int{1, 2, 3, 2}
		}
		at := 0
		for i, p := range perm {
			if p == 0 {
				at = i
			}
		}
		mkModel(fmt.Sprintf("Transpose{perm=%v}", perm), "x", dims, batchIO{sample, 0}, nil, []*onnx.NodeProto{hx.Node("Transpose", []string{"x"}, []string{"y"}, []hx.Attr{hx.AInts("perm", perm...)})}, nil, map[string]int{"y": at}, nil, nil)
	}
	mkModel("Conv2D+bias", "x", []hx.DimSpec{N, fx(2), fx(3), fx(4)}, batchIO{[]int{1, 2, 3, 4}, 0}, nil, []*onnx.NodeProto{hx.Node("Conv", []string{"x", "K", "kb"}, []string{"y"}, []hx.Attr{hx.AInts("pads", 1, 0, 0, 1), hx.AInts("strides", 1, 2)})}, []*onnx.TensorProto{init("K", 2, 2, 2, 2), init("kb", 2)}, map[string]int{"y": 0}, nil, nil)
	mkModel("Conv2D-1x1", "x", []hx.DimSpec{N, fx(2), fx(3), fx(4)}, batchIO{[]int{1, 2, 3, 4}, 0}, nil, []*onnx.NodeProto{hx.Node("Conv", []string{"x", "K1"}, []string{"y"}, nil)}, []*onnx.TensorProto{init("K1", 3, 2, 1, 1)}, map[string]int{"y": 0}, nil, nil)
	mkModel("Conv1D+bias", "x", []hx.DimSpec{N, fx(2), fx(5)}, batchIO{[]int{1, 2, 5}, 0}, nil, []*onnx.NodeProto{hx.Node("Conv", []string{"x", "K", "kb"}, []string{"y"}, []hx.Attr{hx.AInts("dilations", 2)})}, []*onnx.TensorProto{init("K", 2, 2, 2), init("kb", 2)}, map[string]int{"y": 0}, nil, nil)
	// samples of very different magnitude in one batch (sample 2 is 150 times larger): Softmax slices are independent
	for _, lg := range []string{"Softmax", "LogSoftmax"} {
		for _, big := range []float64{150, 1e7} {
			mkModel(fmt.Sprintf("%s{axis=1}(N,3,2)/big-sample-x%g", lg, big), "x", []hx.DimSpec{N, fx(3), fx(2)}, batchIO{[]int{1, 3, 2}, 0}, nil, []*onnx.NodeProto{hx.Node(lg, []string{"x"}, []string{"y"}, []hx.Attr{hx.AInt("axis", 1)})}, nil, map[string]int{"y": 0}, nil, nil)
			out[len(out)-1].Big = big
			mkModel(fmt.Sprintf("%s{-1}(N,3)/big-sample-x%g", lg, big), "x", []hx.DimSpec{N, fx(3)}, batchIO{[]int{1, 3}, 0}, nil, []*onnx.NodeProto{hx.Node(lg, []string{"x"}, []string{"y"}, []hx.Attr{hx.AInt("axis", -1)})}, nil, map[string]int{"y": 0}, nil, nil)
			out[len(out)-1].Big = big
		}
	}
	for _, act := range []string{"Sigmoid", "Tanh", "Relu", "Abs", "Atan", "Sinh"} {
		for _, big := range []float64{150, 1e7} {
			if act == "Sinh" && big > 150 {
				continue
			}
			mkModel(fmt.Sprintf("%s/big-sample-x%g", act, big), "x", []hx.DimSpec{N, fx(3)}, batchIO{[]int{1, 3}, 0}, nil, []*onnx.NodeProto{hx.Node(act, []string{"x"}, []string{"y"}, nil)}, nil, map[string]int{"y": 0}, nil, nil)
			out[len(out)-1].Big = big
		}
	}
	for _, op := range []string{"GRU", "LSTM", "RNN"} {
		ng := map[string]int{"RNN": 1, "GRU": 3, "LSTM": 4}[op]
		mkModel(op+"/big-sample-x150", "x", []hx.DimSpec{fx(2), N, fx(3)}, batchIO{[]int{2, 1, 3}, 1}, nil, []*onnx.NodeProto{hx.Node(op, []string{"x", "W", "R", "B"}, []string{"Y", "Yh"}, []hx.Attr{hx.AInt("hidden_size", 2)})},
			[]*onnx.TensorProto{init("W", 1, ng*2, 3), init("R", 1, ng*2, 2), init("B", 1, 2*ng*2)}, map[string]int{"Y": 2, "Yh": 1}, nil, nil)
		out[len(out)-1].Big = 150
	}
	mkModel("Gemm+Tanh/big-sample", "x", []hx.DimSpec{N, fx(3)}, batchIO{[]int{1, 3}, 0}, nil, []*onnx.NodeProto{hx.Node("Gemm", []string{"x", "W", "b"}, []string{"h"}, nil), hx.Node("Tanh", []string{"h"}, []string{"y"}, nil)}, []*onnx.TensorProto{init("W", 3, 2), init("b", 2)}, map[string]int{"y": 0, "h": 0}, nil, nil)
	out[len(out)-1].Big = 150
	// LSTM with peephole weights (input 7), with and without initial states
	{
		inits := []*onnx.TensorProto{init("W", 1, 8, 3), init("R", 1, 8, 2), init("B", 1, 16), init("P", 1, 6)}
		outsL := map[string]int{"Y": 2, "Yh": 1, "Yc": 1}
		mkModel("LSTM-peepholes-no-state", "x", []hx.DimSpec{fx(3), N, fx(3)}, batchIO{[]int{3, 1, 3}, 1}, nil, []*onnx.NodeProto{hx.Node("LSTM", []string{"x", "W", "R", "B", "", "", "", "P"}, []string{"Y", "Yh", "Yc"}, []hx.Attr{hx.AInt("hidden_size", 2)})}, inits, outsL, nil, nil)
		mkModel("LSTM-peepholes-with-state", "x", []hx.DimSpec{fx(3), N, fx(3)}, batchIO{[]int{3, 1, 3}, 1}, nil, []*onnx.NodeProto{hx.Node("LSTM", []string{"x", "W", "R", "B", "", "h0", "c0", "P"}, []string{"Y", "Yh", "Yc"}, []hx.Attr{hx.AInt("hidden_size", 2)})}, inits, outsL,
			map[string]batchIO{"h0": {[]int{1, 1, 2}, 1}, "c0": {[]int{1, 1, 2}, 1}}, map[string][]hx.DimSpec{"h0": {fx(1), N, fx(2)}, "c0": {fx(1), N, fx(2)}})
		mkModel("GRU-linear_before_reset", "x", []hx.DimSpec{fx(3), N, fx(3)}, batchIO{[]int{3, 1, 3}, 1}, nil, []*onnx.NodeProto{hx.Node("GRU", []string{"x", "W6", "R6", "B12"}, []string{"Y", "Yh"}, []hx.Attr{hx.AInt("hidden_size", 2), hx.AInt("linear_before_reset", 1)})},
			[]*onnx.TensorProto{init("W6", 1, 6, 3), init("R6", 1, 6, 2), init("B12", 1, 12)}, map[string]int{"Y": 2, "Yh": 1}, nil, nil)
	}
	// per-head weights, kernels as large as the (padded) image, strides as large as the image
	mkModel("MatMul-per-head-weights(N,2,2,3)x(2,3,2)", "x", []hx.DimSpec{N, fx(2), fx(2), fx(3)}, batchIO{[]int{1, 2, 2, 3}, 0}, nil, []*onnx.NodeProto{hx.Node("MatMul", []string{"x", "Wh"}, []string{"y"}, nil)}, []*onnx.TensorProto{init("Wh", 2, 3, 2)}, map[string]int{"y": 0}, nil, nil)
	mkModel("MatMul-shared-weights(N,2,2,3)x(3,2)", "x", []hx.DimSpec{N, fx(2), fx(2), fx(3)}, batchIO{[]int{1, 2, 2, 3}, 0}, nil, []*onnx.NodeProto{hx.Node("MatMul", []string{"x", "W"}, []string{"y"}, nil)}, []*onnx.TensorProto{init("W", 3, 2)}, map[string]int{"y": 0}, nil, nil)
	mkModel("MatMul-per-head-weights(N,3,1,2)x(3,2,2)", "x", []hx.DimSpec{N, fx(3), fx(1), fx(2)}, batchIO{[]int{1, 3, 1, 2}, 0}, nil, []*onnx.NodeProto{hx.Node("MatMul", []string{"x", "Wh3"}, []string{"y"}, nil)}, []*onnx.TensorProto{init("Wh3", 3, 2, 2)}, map[string]int{"y": 0}, nil, nil)
	mkModel("Conv2D-kernel=image", "x", []hx.DimSpec{N, fx(2), fx(3), fx(4)}, batchIO{[]int{1, 2, 3, 4}, 0}, nil, []*onnx.NodeProto{hx.Node("Conv", []string{"x", "Kfull", "kb3"}, []string{"y"}, nil)}, []*onnx.TensorProto{init("Kfull", 3, 2, 3, 4), init("kb3", 3)}, map[string]int{"y": 0}, nil, nil)
	mkModel("Conv2D-kernel=padded-image", "x", []hx.DimSpec{N, fx(1), fx(2), fx(2)}, batchIO{[]int{1, 1, 2, 2}, 0}, nil, []*onnx.NodeProto{hx.Node("Conv", []string{"x", "Kpad"}, []string{"y"}, []hx.Attr{hx.AInts("pads", 1, 0, 0, 1)})}, []*onnx.TensorProto{init("Kpad", 2, 1, 3, 3)}, map[string]int{"y": 0}, nil, nil)
	mkModel("Conv1D-kernel=image", "x", []hx.DimSpec{N, fx(2), fx(5)}, batchIO{[]int{1, 2, 5}, 0}, nil, []*onnx.NodeProto{hx.Node("Conv", []string{"x", "K5"}, []string{"y"}, nil)}, []*onnx.TensorProto{init("K5", 2, 2, 5)}, map[string]int{"y": 0}, nil, nil)
	for _, ap := range []string{"SAME_UPPER", "SAME_LOWER"} {
		mkModel("Conv2D-"+ap+"-stride2(N,2,5,6)", "x", []hx.DimSpec{N, fx(2), fx(5), fx(6)}, batchIO{[]int{1, 2, 5, 6}, 0}, nil, []*onnx.NodeProto{hx.Node("Conv", []string{"x", "K33", "kb"}, []string{"y"}, []hx.Attr{hx.AStr("auto_pad", ap), hx.AInts("strides", 2, 2)})}, []*onnx.TensorProto{init("K33", 2, 2, 3, 3), init("kb", 2)}, map[string]int{"y": 0}, nil, nil)
		mkModel("Conv2D-"+ap+"-stride3x2(N,3,4,7)", "x", []hx.DimSpec{N, fx(3), fx(4), fx(7)}, batchIO{[]int{1, 3, 4, 7}, 0}, nil, []*onnx.NodeProto{hx.Node("Conv", []string{"x", "K23"}, []string{"y"}, []hx.Attr{hx.AStr("auto_pad", ap), hx.AInts("strides", 3, 2)})}, []*onnx.TensorProto{init("K23", 2, 3, 2, 3)}, map[string]int{"y": 0}, nil, nil)
		mkModel("Conv1D-"+ap+"-stride2(N,2,7)", "x", []hx.DimSpec{N, fx(2), fx(7)}, batchIO{[]int{1, 2, 7}, 0}, nil, []*onnx.NodeProto{hx.Node("Conv", []string{"x", "K3"}, []string{"y"}, []hx.Attr{hx.AStr("auto_pad", ap), hx.AInts("strides", 2)})}, []*onnx.TensorProto{init("K3", 2, 2, 3)}, map[string]int{"y": 0}, nil, nil)
	}
	mkModel("Conv2D-stride=image", "x", []hx.DimSpec{N, fx(2), fx(3), fx(4)}, batchIO{[]int{1, 2, 3, 4}, 0}, nil, []*onnx.NodeProto{hx.Node("Conv", []string{"x", "K", "kb"}, []string{"y"}, []hx.Attr{hx.AInts("strides", 3, 4)})}, []*onnx.TensorProto{init("K", 2, 2, 2, 2), init("kb", 2)}, map[string]int{"y": 0}, nil, nil)
	mkModel("Gemm-transA-free(N,3)xW+Softmax", "x", []hx.DimSpec{N, fx(3)}, batchIO{[]int{1, 3}, 0}, nil, []*onnx.NodeProto{hx.Node("Gemm", []string{"x", "W", "b"}, []string{"h"}, []hx.Attr{hx.AFloat("alpha", 0.5)}), hx.Node("Softmax", []string{"h"}, []string{"y"}, []hx.Attr{hx.AInt("axis", 1)})}, []*onnx.TensorProto{init("W", 3, 2), init("b", 2)}, map[string]int{"y": 0, "h": 0}, nil, nil)
	// recurrent operators: batch axis 1
	for _, op := range []string{"RNN", "GRU", "LSTM"} {
		ng := map[string]int{"RNN": 1, "GRU": 3, "LSTM": 4}[op]
		outsNoState := map[string]int{"Y": 2, "Yh": 1}
		onames := []string{"Y", "Yh"}
		if op == "LSTM" {
			outsNoState["Yc"] = 1
			onames = append(onames, "Yc")
		}
		inits := []*onnx.TensorProto{init("W", 1, ng*2, 3), init("R", 1, ng*2, 2), init("B", 1, 2*ng*2)}
		mkModel(op+"-no-state", "x", []hx.DimSpec{fx(3), N, fx(3)}, batchIO{[]int{3, 1, 3}, 1}, nil, []*onnx.NodeProto{hx.Node(op, []string{"x", "W", "R", "B"}, onames, []hx.Attr{hx.AInt("hidden_size", 2)})}, inits, outsNoState, nil, nil)
		ins := []string{"x", "W", "R", "B", "", "h0"}
		extra := map[string]batchIO{"h0": {[]int{1, 1, 2}, 1}}
		edims := map[string][]hx.DimSpec{"h0": {fx(1), N, fx(2)}}
		if op == "LSTM" {
			ins = append(ins, "c0")
			extra["c0"] = batchIO{[]int{1, 1, 2}, 1}
			edims["c0"] = []hx.DimSpec{fx(1), N, fx(2)}
		}
		mkModel(op+"-with-state", "x", []hx.DimSpec{fx(3), N, fx(3)}, batchIO{[]int{3, 1, 3}, 1}, nil, []*onnx.NodeProto{hx.Node(op, ins, onames, []hx.Attr{hx.AInt("hidden_size", 2)})}, inits, outsNoState, extra, edims)
		mkModel(op+"-seq1", "x", []hx.DimSpec{fx(1), N, fx(3)}, batchIO{[]int{1, 1, 3}, 1}, nil, []*onnx.NodeProto{hx.Node(op, []string{"x", "W", "R", "B"}, onames, []hx.Attr{hx.AInt("hidden_size", 2)})}, inits, outsNoState, nil, nil)
	}
	// the wrapping the sample gru model uses: batch-first input, Transpose -> GRU -> Squeeze -> Transpose
	mkModel("Transpose>GRU>Squeeze>Transpose", "x", []hx.DimSpec{N, fx(3), fx(3)}, batchIO{[]int{1, 3, 3}, 0}, nil, []*onnx.NodeProto{
		hx.Node("Transpose", []string{"x"}, []string{"xt"}, []hx.Attr{hx.AInts("perm", 1, 0, 2)}), hx.Node("GRU", []string{"xt", "W", "R", "B"}, []string{"Y", "Yh"}, []hx.Attr{hx.AInt("hidden_size", 2)}),
		hx.Node("Squeeze", []string{"Y", "sq"}, []string{"Ys"}, nil), hx.Node("Transpose", []string{"Ys"}, []string{"out"}, []hx.Attr{hx.AInts("perm", 1, 0, 2)})},
		[]*onnx.TensorProto{init("W", 1, 6, 3), init("R", 1, 6, 2), init("B", 1, 12), iinit("sq", 1)}, map[string]int{"out": 0, "Yh": 1}, nil, nil)
	// sample models
	mlp, gru, sc := loadSample("mlp"), loadSample("gru"), loadSample("scaler")
	out = append(out, &batchModel{Name: "sample:mlp", Bytes: mlp.Bytes, In: map[string]batchIO{"data_input": {[]int{1, 3}, 0}}, Out: map[string]int{"preds": 0}})
	out = append(out, &batchModel{Name: "sample:scaler", Bytes: sc.Bytes, In: map[string]batchIO{"X": {[]int{1, 3}, 0}}, Out: map[string]int{"variable": 0}})
	out = append(out, &batchModel{Name: "sample:gru", Bytes: gru.Bytes, In: map[string]batchIO{"data_input": {[]int{1, 3, 3}, 0}, "init_hidden": {[]int{1, 1, 5}, 1}}, Out: map[string]int{"preds": 0, "hidden_out": 1}})
	if all {
		nd := loadSample("ndm")
		out = append(out, &batchModel{Name: "sample:ndm", Bytes: nd.Bytes, In: map[string]batchIO{"sensor_input": {[]int{1, 4, 4}, 0}, "setpoint_input": {[]int{1, 1}, 0}}, Out: map[string]int{"optimal_supply_temp": 0}})
	}
	return out
}

func checkC16(c *hx.Checker) {
	thorough := c.Tier == "thorough"
	pool, maxLen := 4, 4
	if thorough {
		pool, maxLen = 5, 5
	}
	models := batchModels(thorough)
	c.Rule = "Gather on axes 1, 2, -1, -2 of (N,3,2) with rank-0 / vector / matrix indices of either sign; Transpose with all 6 permutations of (N,3,2) and 8 of (N,2,3,2), the batch axis followed to its new position; " +
		fmt.Sprintf("%d models: sample models mlp, scaler, gru (thorough: + ndm); generated per-sample models (Gemm/MatMul against weights, mlp, elementwise + activations, PRelu, Softmax/LogSoftmax over a non-batch axis, Scaler, LinearRegressor, Gather/Slice/Concat/ArgMax/Reduce on a non-batch axis, Reshape(0,-1), Flatten, Unsqueeze/Squeeze, Expand, Cast), each also behind 4 batch-preserving first stages (Relu, Add-bias, Mul, Tanh) = all 1- and 2-stage combinations; Conv 1-D/2-D (batch axis 0); RNN/GRU/LSTM with and without initial states and with seq=1 (batch axis 1); the Transpose>GRU>Squeeze>Transpose wrapping; LSTM with peephole weights, GRU with linear_before_reset; MatMul of a rank-4 input against per-head (rank-3) and shared weights, Conv with a kernel as large as the (padded) image and with a stride as large as the image; Softmax/LogSoftmax (last and non-last axis) Gemm+Tanh, 6 activation operators and RNN/GRU/LSTM with one sample of the pool 150 times (Softmax/LogSoftmax also 1e7 times) larger than the others. "+
			"per model: sample pool of %d distinct samples; EVERY batch = every sequence over the pool of length 1..%d (all permutations, sub-selections, repetitions, batch sizes). Oracle: position i of every batched output equals the output of evaluating that sample alone (N=1), rel 1e-5; non-trivial = batches of size >= 2", len(models), pool, maxLen)
	c.Assumptions = []string{"'up to floating-point rounding': rel 1e-5 + abs 1e-6 (float32; abs 2e-4 for the models with a sample of magnitude ~150, whose intermediates have an ulp of 3e-5); the number of bit-identical cases is reported as an outcome class", "models are restricted to operators acting per sample along the batch axis, as in the statement"}
	type job struct {
		bm    *batchModel
		batch []int
	}
	var jobs []job
	for _, bm := range models {
		ml := maxLen
		if bm.Name == "sample:ndm" {
			ml = 3
		}
		if strings.Contains(bm.Name, "/wide") {
			ns := []int{100, 127, 128, 129, 130, 200, 255, 256, 257}
			for n := 1; n <= 72; n++ {
				ns = append(ns, n)
			}
			for _, n := range ns {
				b := make([]int, n)
				for i := range b {
					b[i] = (i*2 + i/3) % pool
				}
				jobs = append(jobs, job{bm, b})
			}
			continue
		}
		for _, sq := range seqs(rangeI64(0, pool-1), 1, ml) {
			b := make([]int, len(sq))
			for i, x := range sq {
				b[i] = int(x)
			}
			jobs = append(jobs, job{bm, b})
		}
		// larger batches beyond the exhaustive bound (sizes 5, 8, 17; 129, 200, 257: past block sizes of 128 and no power of two)
		if bm.Name != "sample:ndm" {
			for _, n := range []int{5, 8, 17, 129, 200, 257} {
				b := make([]int, n)
				for i := range b {
					b[i] = (i*2 + i/3) % pool
				}
				jobs = append(jobs, job{bm, b})
			}
		}
	}
	c.ParallelFor(len(jobs), func(i int) {
		j := jobs[i]
		var sample any
		if i%900 == 5 {
			sample = map[string]any{"model": j.bm.Name, "batch": j.batch}
		}
		tags := []string{"model=" + j.bm.Name, fmt.Sprintf("N=%d", len(j.batch))}
		if j.bm.Big > 0 && strings.Contains(j.bm.Name, "{-1}") {
			// gorgonia's last-axis Softmax kernel shifts every row by max(x[0], row[1:]), x[0] being the first
			// element of the WHOLE batch tensor (KF-C09-1 / KF-C16-1): the same predicate as in C09 on the stacked input
			var ts []*ref.T
			for _, k := range j.batch {
				ts = append(ts, j.bm.sample("x", k))
			}
			if smShortcutOff(stack(ts, 0), 3) {
				tags = append(tags, "lastaxis-max-shortcut-off")
			}
		}
		c.Case(hx.CaseInfo{ID: fmt.Sprintf("%s/batch%v", j.bm.Name, j.batch), Tags: tags, NonTrivial: len(j.batch) >= 2, Sample: sample},
			func() *hx.Violation { return j.bm.check(j.batch, pool) })
	})
}
