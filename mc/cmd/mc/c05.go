package main

import (
	"fmt"
	"math"

	"verifmc/hx"
	"verifmc/ref"
)

// C05 — Conv equals direct convolution.

func init() { register("C05", "exploration", checkC05) }

func convFill(dt ref.DT, sh []int, salt int) *ref.T {
	return ref.Fill(dt, sh, func(i int) float64 {
		v := float64((i*11+salt*5)%17)*0.25 - 1.9 + float64(i%3)*0.0625
		if dt == ref.F64 {
			v += 1e-7 / 3 * float64(i%5+1) // not representable in float32
		}
		return v
	})
}

func ints64(v []int) []int64 {
	o := make([]int64, len(v))
	for i, x := range v {
		o[i] = int64(x)
	}
	return o
}

type convCfg struct {
	dt           ref.DT
	x, w         []int
	bias, kshape bool
	a            ref.ConvAttrs
	route        string
	init         []bool
	extra        []string
	fill         string // "": distinct pattern; "cancel": constant input, alternating +1/-1 kernel (taps cancel exactly); "equal": all elements equal
}

func convJob(cf convCfg) opJob {
	X, W := convFill(cf.dt, cf.x, 1), convFill(cf.dt, cf.w, 7)
	var B *ref.T
	if cf.bias {
		B = convFill(cf.dt, []int{cf.w[0]}, 3)
	}
	switch cf.fill {
	case "cancel":
		X = ref.Fill(cf.dt, cf.x, func(i int) float64 { return 1.5 })
		W = ref.Fill(cf.dt, cf.w, func(i int) float64 { return float64(1 - 2*(i%2)) })
		if cf.bias {
			B = ref.Fill(cf.dt, []int{cf.w[0]}, func(i int) float64 { return 0 })
		}
	case "equal":
		X = ref.Fill(cf.dt, cf.x, func(i int) float64 { return -0.75 })
		W = ref.Fill(cf.dt, cf.w, func(i int) float64 { return 2 })
	case "inf-weight", "nan-weight", "neg-inf-weight":
		// one non-finite weight: every output whose window covers that tap - on the image or on the zero padding
		// (Inf * 0 = NaN) - is non-finite
		v := map[string]float64{"inf-weight": math.Inf(1), "nan-weight": math.NaN(), "neg-inf-weight": math.Inf(-1)}[cf.fill]
		W0 := W
		W = ref.Fill(cf.dt, cf.w, func(i int) float64 {
			if i == len(W0.V)-1 {
				return v
			}
			return W0.F(i)
		})
	case "zero-weight-inf-input":
		// an exact-zero weight meets an infinite input element: 0 * Inf = NaN belongs to the sum
		X0, W0 := X, W
		X = ref.Fill(cf.dt, cf.x, func(i int) float64 {
			if i == 3 {
				return math.Inf(1)
			}
			return X0.F(i)
		})
		W = ref.Fill(cf.dt, cf.w, func(i int) float64 {
			if i%3 == 0 {
				return 0
			}
			return W0.F(i)
		})
	case "inf-input":
		X0 := X
		X = ref.Fill(cf.dt, cf.x, func(i int) float64 {
			if i == 1 {
				return math.Inf(1)
			}
			return X0.F(i)
		})
	}
	a := cf.a
	var attrs []hx.Attr
	if a.AutoPad != "" {
		attrs = append(attrs, hx.AStr("auto_pad", a.AutoPad))
	}
	if a.Dilations != nil {
		attrs = append(attrs, hx.AInts("dilations", ints64(a.Dilations)...))
	}
	if a.Group != 0 {
		attrs = append(attrs, hx.AInt("group", int64(a.Group)))
	}
	if cf.kshape {
		a.Kernel = cf.w[2:]
		attrs = append(attrs, hx.AInts("kernel_shape", ints64(a.Kernel)...))
	}
	if a.Pads != nil {
		attrs = append(attrs, hx.AInts("pads", ints64(a.Pads)...))
	}
	if a.Strides != nil {
		attrs = append(attrs, hx.AInts("strides", ints64(a.Strides)...))
	}
	exp, err := ref.Conv(X, W, B, a)
	tags := append([]string{}, cf.extra...)
	nd := len(cf.x) - 2
	tags = append(tags, fmt.Sprintf("%dD", nd))
	if cf.bias {
		tags = append(tags, "bias")
	}
	if a.AutoPad != "" {
		tags = append(tags, "autopad="+a.AutoPad)
	}
	if a.AutoPad == "VALID" {
		for i := 0; i < nd; i++ {
			d, s := 1, 1
			if a.Dilations != nil {
				d = a.Dilations[i]
			}
			if a.Strides != nil {
				s = a.Strides[i]
			}
			in := cf.x[2+i]
			if ((in+s-1)/s-1)*s+(cf.w[2+i]-1)*d+1-in > 0 {
				tags = append(tags, "same-padding-nonzero")
				break
			}
		}
	}
	if nd == 2 {
		ph, pw := cf.x[2], cf.x[3]
		if a.Pads != nil && (a.AutoPad == "" || a.AutoPad == "NOTSET") {
			ph += a.Pads[0] + a.Pads[2]
			pw += a.Pads[1] + a.Pads[3]
		}
		if pw != ph {
			tags = append(tags, "H!=W")
		}
		if cf.w[2] != cf.w[3] {
			tags = append(tags, "kh!=kw")
		}
	}
	desc := fmt.Sprintf("x%v w%v b=%v ks=%v %s d%v p%v s%v %s", cf.x, cf.w, cf.bias, cf.kshape, a.AutoPad, a.Dilations, a.Pads, a.Strides, cf.fill)
	dom := hx.DCompute
	j := newJob("Conv", attrs, []*ref.T{X, W, B}, []*ref.T{exp}, err, dom, hx.Dot, cf.route, cf.init, desc, tags...)
	if err != nil {
		// configurations the reference itself rejects (kernel larger than the padded input, ...) are
		// outside the statement: only "no panic, no silent tensor of a positive shape" is not demanded either.
		j.dom = hx.DNoPanic
	}
	return j
}

func checkC05(c *hx.Checker) {
	thorough := c.Tier == "thorough"
	c.Rule = "batch, channel and kernel counts 1..19 one at a time (others 2) on a tiny 1-D and 2-D geometry, with and without bias; " +
		"1-D: (N,C,M) x L in 1..5 x k in 1..3 x stride, dilation in 1..3 x pads in {0,1,2}^2 x bias {absent,given} x kernel_shape {given, inferred}; " +
		"2-D: (N,C,M) x (H,W) in {2,3,4}^2 (all H!=W) x (kh,kw) in {1,2,3}^2 (all kh!=kw) x strides in {1,2}^2 x dilations in {1,2}^2 x (pads in {0,1}^4 with NOTSET | SAME_UPPER | SAME_LOWER | VALID) x bias; " +
		"(N,C,M) in {(1,1,1),(2,1,1),(1,2,1),(1,1,2),(2,2,2)} (quick) / {1,2}^3 (thorough); thorough adds strides/dilations up to 3, pads up to 3 per side and H,W up to 6 pairwise on top of the full quick product; float64 on a sub-box; group != 1, 3-D input and an unknown auto_pad must be refused; " +
		"Operator API + Model.Run (W and B as initializers) on a sub-box; instance-reuse histories. Only configurations with a non-negative padded extent are judged (others: no panic). non-trivial = every case"
	c.Assumptions = []string{"reference: 6-loop direct convolution with explicit zero padding (ref/conv.go), float64 accumulation, dot bound with n = C*kh*kw+1",
		"ONNX shape rule: floor((in + pads - ((k-1)*d+1))/s)+1; SAME_* pads to ceil(in/s), extra pad at the end (UPPER) or beginning (LOWER); VALID = no padding"}
	var jobs []opJob
	ncm := [][3]int{{1, 1, 1}, {2, 1, 1}, {1, 2, 1}, {1, 1, 2}, {2, 2, 2}}
	if thorough {
		ncm = nil
		for _, v := range seqs([]int64{1, 2}, 3, 3) {
			ncm = append(ncm, [3]int{int(v[0]), int(v[1]), int(v[2])})
		}
	}
	// discrimination self-check counters
	var disc = map[string]int{}
	var discTotal int
	// ---------------- 1-D
	for _, t := range ncm {
		for L := 1; L <= 5; L++ {
			for k := 1; k <= 3; k++ {
				for s := 1; s <= 3; s++ {
					for d := 1; d <= 3; d++ {
						for _, p := range seqs([]int64{0, 1, 2}, 2, 2) {
							for _, bias := range []bool{false, true} {
								for _, ks := range []bool{false, true} {
									if !thorough && ks && (d == 3 || s == 3) {
										continue
									}
									a := ref.ConvAttrs{Dilations: []int{d}, Pads: []int{int(p[0]), int(p[1])}, Strides: []int{s}}
									if d == 1 && s == 1 && p[0] == 0 && p[1] == 0 && !ks {
										a = ref.ConvAttrs{} // all defaults
									}
									jobs = append(jobs, convJob(convCfg{dt: ref.F32, x: []int{t[0], t[1], L}, w: []int{t[2], t[1], k}, bias: bias, kshape: ks, a: a, route: "op"}))
								}
							}
						}
					}
				}
			}
		}
	}
	// ---------------- 2-D
	hw := []int64{2, 3, 4}
	type padMode struct {
		auto string
		pads []int
	}
	var pms []padMode
	for _, p := range seqs([]int64{0, 1}, 4, 4) {
		pms = append(pms, padMode{"", []int{int(p[0]), int(p[1]), int(p[2]), int(p[3])}})
	}
	pms = append(pms, padMode{"SAME_UPPER", nil}, padMode{"SAME_LOWER", nil}, padMode{"VALID", nil}, padMode{"NOTSET", []int{1, 0, 0, 1}})
	for _, t := range ncm {
		for _, HW := range seqs(hw, 2, 2) {
			for _, K := range seqs([]int64{1, 2, 3}, 2, 2) {
				for _, S := range seqs([]int64{1, 2}, 2, 2) {
					for _, D := range seqs([]int64{1, 2}, 2, 2) {
						for _, pm := range pms {
							for _, bias := range []bool{false, true} {
								if bias && pm.auto == "" && (pm.pads[0]+pm.pads[1]+pm.pads[2]+pm.pads[3])%2 == 1 && !thorough {
									continue
								}
								a := ref.ConvAttrs{AutoPad: pm.auto, Dilations: []int{int(D[0]), int(D[1])}, Pads: pm.pads, Strides: []int{int(S[0]), int(S[1])}}
								cf := convCfg{dt: ref.F32, x: []int{t[0], t[1], int(HW[0]), int(HW[1])}, w: []int{t[2], t[1], int(K[0]), int(K[1])}, bias: bias, kshape: bias, a: a, route: "op"}
								j := convJob(cf)
								jobs = append(jobs, j)
								if j.dom == hx.DCompute && t == [3]int{1, 2, 1} {
									// discrimination: plausible wrong semantics must differ from the truth on some cases
									discTotal++
									X, W := convFill(ref.F32, cf.x, 1), convFill(ref.F32, cf.w, 7)
									for name, va := range map[string]ref.ConvAttrs{"flipped-kernel": {AutoPad: a.AutoPad, Dilations: a.Dilations, Pads: a.Pads, Strides: a.Strides, FlipKernel: true},
										"pads-begin-end-swapped": {AutoPad: a.AutoPad, Dilations: a.Dilations, Pads: a.Pads, Strides: a.Strides, SwapPads: true}} {
										if v, e := ref.Conv(X, W, nil, va); e != nil || differs(j.exp[0], v) {
											disc[name]++
										}
									}
								}
							}
						}
					}
				}
			}
		}
	}
	c.Extra["discrimination"] = map[string]any{"cases": discTotal, "differs": disc}
	if disc["flipped-kernel"] < discTotal/4 || disc["pads-begin-end-swapped"] < discTotal/20 {
		hx.HarnessError("conv fills are not discriminating: %v of %d", disc, discTotal)
	}
	// ---------------- thorough extras: larger factors, pairwise on top of the base configuration
	if thorough {
		for _, HW := range seqs([]int64{2, 3, 4, 5, 6}, 2, 2) {
			for _, K := range seqs([]int64{1, 2, 3}, 2, 2) {
				for _, S := range seqs([]int64{1, 2, 3}, 2, 2) {
					for _, D := range seqs([]int64{1, 2, 3}, 2, 2) {
						for _, P := range [][]int{{0, 0, 0, 0}, {3, 0, 0, 0}, {0, 3, 0, 0}, {0, 0, 3, 0}, {0, 0, 0, 3}, {2, 3, 1, 0}, {1, 0, 2, 3}, {3, 3, 3, 3}, {2, 1, 2, 1}} {
							a := ref.ConvAttrs{Dilations: []int{int(D[0]), int(D[1])}, Pads: P, Strides: []int{int(S[0]), int(S[1])}}
							jobs = append(jobs, convJob(convCfg{dt: ref.F32, x: []int{2, 2, int(HW[0]), int(HW[1])}, w: []int{2, 2, int(K[0]), int(K[1])}, bias: true, kshape: false, a: a, route: "op"}))
						}
						for _, ap := range []string{"SAME_UPPER", "SAME_LOWER", "VALID"} {
							a := ref.ConvAttrs{AutoPad: ap, Dilations: []int{int(D[0]), int(D[1])}, Strides: []int{int(S[0]), int(S[1])}}
							jobs = append(jobs, convJob(convCfg{dt: ref.F32, x: []int{1, 2, int(HW[0]), int(HW[1])}, w: []int{2, 2, int(K[0]), int(K[1])}, bias: false, kshape: true, a: a, route: "op"}))
						}
					}
				}
			}
		}
	}
	// ---------------- float64, model route, refusals
	for _, dt := range []ref.DT{ref.F64, ref.F32} {
		for _, HW := range [][]int{{3, 3}, {2, 4}, {4, 3}} {
			for _, K := range [][]int{{2, 2}, {1, 3}, {3, 2}} {
				for _, pm := range []padMode{{"", []int{0, 0, 0, 0}}, {"", []int{1, 0, 1, 0}}, {"SAME_UPPER", nil}, {"SAME_LOWER", nil}, {"VALID", nil}} {
					for _, bias := range []bool{false, true} {
						a := ref.ConvAttrs{AutoPad: pm.auto, Pads: pm.pads, Strides: []int{1, 2}}
						routes := []string{"op", "model", "model-w-init"}
						if dt == ref.F32 {
							routes = routes[1:]
						}
						for _, rt := range routes {
							cf := convCfg{dt: dt, x: []int{2, 2, HW[0], HW[1]}, w: []int{2, 2, K[0], K[1]}, bias: bias, a: a, route: rt}
							if rt == "model-w-init" {
								cf.route, cf.init = "model", []bool{false, true, true}
							}
							jobs = append(jobs, convJob(cf))
						}
					}
				}
			}
		}
		for _, L := range []int{3, 5} {
			for _, bias := range []bool{false, true} {
				cf := convCfg{dt: dt, x: []int{2, 2, L}, w: []int{2, 2, 2}, bias: bias, a: ref.ConvAttrs{Strides: []int{2}, Pads: []int{1, 0}}, route: "model", init: []bool{false, true, true}}
				jobs = append(jobs, convJob(cf))
			}
		}
	}
	// larger geometries beyond the exhaustive box
	for _, lg := range []convCfg{
		{dt: ref.F32, x: []int{2, 3, 16, 13}, w: []int{4, 3, 5, 3}, bias: true, a: ref.ConvAttrs{Strides: []int{2, 3}, Pads: []int{2, 1, 2, 1}, Dilations: []int{1, 2}}, route: "op"},
		{dt: ref.F32, x: []int{1, 2, 9, 20}, w: []int{3, 2, 3, 7}, bias: false, a: ref.ConvAttrs{AutoPad: "SAME_LOWER", Strides: []int{2, 2}}, route: "op"},
		{dt: ref.F32, x: []int{5, 1, 7, 7}, w: []int{6, 1, 3, 3}, bias: true, a: ref.ConvAttrs{AutoPad: "SAME_UPPER"}, route: "op"},
		{dt: ref.F32, x: []int{3, 4, 31}, w: []int{5, 4, 6}, bias: true, a: ref.ConvAttrs{Strides: []int{3}, Dilations: []int{2}, Pads: []int{4, 5}}, route: "op"},
		// above 4096 / 32768 / 65536 elements with odd extents (block-splitting kernels)
		{dt: ref.F32, x: []int{1, 3, 37, 41}, w: []int{5, 3, 3, 3}, bias: true, a: ref.ConvAttrs{Pads: []int{1, 1, 1, 1}}, route: "op"},
		{dt: ref.F32, x: []int{2, 2, 131, 127}, w: []int{3, 2, 3, 2}, bias: true, a: ref.ConvAttrs{Strides: []int{2, 1}}, route: "op"},
		{dt: ref.F32, x: []int{1, 1, 4099}, w: []int{3, 1, 5}, bias: false, a: ref.ConvAttrs{Dilations: []int{3}}, route: "op"},
		{dt: ref.F32, x: []int{3, 5, 2203}, w: []int{7, 5, 2}, bias: true, a: ref.ConvAttrs{Strides: []int{2}, Pads: []int{1, 0}}, route: "model"},
	} {
		lg.extra = []string{"large"}
		jobs = append(jobs, convJob(lg))
	}
	// batch, channel and kernel counts 1..19 one at a time on a tiny geometry, 1-D and 2-D (work split over the counts:
	// a kernel range handed to 4 workers without the remainder left channels 9..11 of 9..11 zero)
	for n := 1; n <= 19; n++ {
		for which := 0; which < 3; which++ {
			t := []int{2, 2, 2}
			t[which] = n
			for _, bias := range []bool{false, true} {
				c2 := convCfg{dt: ref.F32, x: []int{t[0], t[1], 3, 4}, w: []int{t[2], t[1], 2, 3}, bias: bias, a: ref.ConvAttrs{Pads: []int{1, 0, 0, 1}}, route: "op", extra: []string{"counts"}}
				c1 := convCfg{dt: ref.F32, x: []int{t[0], t[1], 5}, w: []int{t[2], t[1], 2}, bias: bias, a: ref.ConvAttrs{Strides: []int{2}}, route: "op", extra: []string{"counts"}}
				jobs = append(jobs, convJob(c2), convJob(c1))
			}
		}
	}
	// value patterns: taps that cancel exactly (zero results), all-equal operands
	for _, fill := range []string{"cancel", "equal"} {
		for _, cf := range []convCfg{
			{dt: ref.F32, x: []int{1, 2, 4, 4}, w: []int{2, 2, 2, 2}, bias: true, a: ref.ConvAttrs{}, route: "op"},
			{dt: ref.F32, x: []int{2, 1, 3, 4}, w: []int{1, 1, 2, 2}, bias: false, a: ref.ConvAttrs{Pads: []int{1, 1, 1, 1}}, route: "op"},
			{dt: ref.F32, x: []int{1, 2, 6}, w: []int{3, 2, 2}, bias: true, a: ref.ConvAttrs{Strides: []int{2}}, route: "op"},
			{dt: ref.F32, x: []int{1, 1, 5}, w: []int{1, 1, 4}, bias: false, a: ref.ConvAttrs{AutoPad: "SAME_UPPER"}, route: "model"},
		} {
			cf.fill = fill
			cf.extra = []string{"value-pattern"}
			jobs = append(jobs, convJob(cf))
		}
	}
	// non-finite weights / inputs, also where a window lies entirely on the padding (pad >= dilated kernel extent)
	for _, fill := range []string{"inf-weight", "nan-weight", "neg-inf-weight", "inf-input"} {
		for _, cf := range []convCfg{
			{dt: ref.F32, x: []int{1, 1, 3, 3}, w: []int{1, 1, 2, 2}, bias: true, a: ref.ConvAttrs{Pads: []int{2, 2, 2, 2}}, route: "op"},
			{dt: ref.F32, x: []int{1, 2, 3}, w: []int{2, 2, 2}, bias: false, a: ref.ConvAttrs{Pads: []int{3, 2}}, route: "op"},
			{dt: ref.F32, x: []int{1, 1, 2, 4}, w: []int{1, 1, 1, 2}, bias: false, a: ref.ConvAttrs{Pads: []int{1, 2, 0, 3}}, route: "op"},
			{dt: ref.F32, x: []int{2, 1, 4, 4}, w: []int{2, 1, 3, 3}, bias: true, a: ref.ConvAttrs{AutoPad: "SAME_UPPER"}, route: "model"},
			{dt: ref.F32, x: []int{1, 1, 5}, w: []int{1, 1, 2}, bias: false, a: ref.ConvAttrs{Dilations: []int{2}, Pads: []int{3, 3}}, route: "op"},
			{dt: ref.F32, x: []int{1, 2, 4, 3}, w: []int{1, 2, 2, 2}, bias: true, a: ref.ConvAttrs{}, route: "op"},
		} {
			cf.fill = fill
			cf.extra = []string{"non-finite"}
			if fill == "inf-input" && cf.a.Dilations != nil {
				// the infinite element (index 1 of the first row) lies between two taps of a window: not a tap, so it
				// contributes nothing; gonnx dilates the KERNEL by inserting zeros and multiplies it (KF-C05-2)
				cf.extra = append(cf.extra, "infinite-input-between-dilated-taps")
			}
			jobs = append(jobs, convJob(cf))
		}
	}
	// pointwise (1x1) and other convolutions over many channels (the shape in which a convolution is a matrix product)
	for _, fill := range []string{"", "zero-weight-inf-input", "inf-input", "nan-weight"} {
		for _, cf := range []convCfg{
			{dt: ref.F32, x: []int{2, 8, 3, 3}, w: []int{4, 8, 1, 1}, bias: true, a: ref.ConvAttrs{}, route: "op"},
			{dt: ref.F32, x: []int{1, 16, 2, 5}, w: []int{3, 16, 1, 1}, bias: false, a: ref.ConvAttrs{}, route: "op"},
			{dt: ref.F32, x: []int{1, 9, 7}, w: []int{2, 9, 1}, bias: true, a: ref.ConvAttrs{}, route: "op"},
			{dt: ref.F32, x: []int{1, 12, 4, 4}, w: []int{2, 12, 2, 2}, bias: false, a: ref.ConvAttrs{}, route: "op"},
		} {
			cf.fill = fill
			cf.extra = []string{"many-channels"}
			if fill != "" {
				cf.extra = append(cf.extra, "non-finite")
			}
			jobs = append(jobs, convJob(cf))
		}
	}
	// SAME padding with a kernel larger than the map (3x3 on 2x2 and 1x1 maps, 5 on 2, dilated 2-tap on 1)
	for _, ap := range []string{"SAME_UPPER", "SAME_LOWER"} {
		for _, cf := range []convCfg{
			{dt: ref.F32, x: []int{1, 1, 2, 2}, w: []int{1, 1, 3, 3}, bias: true, a: ref.ConvAttrs{AutoPad: ap}, route: "op"},
			{dt: ref.F32, x: []int{1, 2, 1, 1}, w: []int{2, 2, 3, 3}, bias: false, a: ref.ConvAttrs{AutoPad: ap}, route: "op"},
			{dt: ref.F32, x: []int{2, 1, 2}, w: []int{1, 1, 5}, bias: false, a: ref.ConvAttrs{AutoPad: ap}, route: "op"},
			{dt: ref.F32, x: []int{1, 1, 1}, w: []int{1, 1, 2}, bias: true, a: ref.ConvAttrs{AutoPad: ap, Dilations: []int{2}}, route: "op"},
			{dt: ref.F32, x: []int{1, 1, 1, 4}, w: []int{1, 1, 3, 2}, bias: false, a: ref.ConvAttrs{AutoPad: ap}, route: "model"},
		} {
			cf.extra = []string{"kernel-larger-than-map"}
			jobs = append(jobs, convJob(cf))
		}
	}
	refuse := func(cf convCfg, desc string) {
		j := convJob(cf)
		j.dom, j.exp, j.id = hx.DError, nil, j.id+" "+desc
		j.tags = append(j.tags, "must-refuse")
		jobs = append(jobs, j)
	}
	refuse(convCfg{dt: ref.F32, x: []int{1, 2, 3, 3}, w: []int{2, 1, 2, 2}, a: ref.ConvAttrs{Group: 2}, route: "op"}, "group=2")
	refuse(convCfg{dt: ref.F32, x: []int{1, 1, 3, 3, 3}, w: []int{1, 1, 2, 2, 2}, a: ref.ConvAttrs{}, route: "op"}, "3-D")
	refuse(convCfg{dt: ref.F32, x: []int{1, 1, 3, 3}, w: []int{1, 1, 2, 2}, a: ref.ConvAttrs{AutoPad: "SAME"}, route: "op"}, "auto_pad=SAME")
	g1 := convJob(convCfg{dt: ref.F32, x: []int{1, 1, 3, 3}, w: []int{1, 1, 2, 2}, a: ref.ConvAttrs{Group: 1}, route: "op"})
	jobs = append(jobs, g1)
	var kept []opJob
	for _, j := range jobs {
		if j.dom != hx.DNoPanic { // configurations the reference rejects (non-positive output extent) are outside the statement
			kept = append(kept, j)
		}
	}
	runOpJobs(c, kept)
	runReuseJobs(c, kept)
}
