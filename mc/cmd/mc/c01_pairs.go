package main

import (
	"fmt"
	"math"

	"github.com/advancedclimatesystems/gonnx/onnx"
	"verifmc/hx"
	"verifmc/ref"
)

// Producer -> consumer sweep (part of C01). What one operator hands on is more than shape, type and Data(): strides, a
// pending (lazy) transpose, data-order flags, a view on another tensor's storage. The next operator may read any of
// it. Every representative case of every operator (plus producers chosen for the state they leave: transposes that
// only move extent-1 axes, rank-preserving reshapes, slices, gathers, squeezes) is followed by every consumer of a
// fixed, shape-agnostic menu - directly and through an element-wise node that keeps whatever state the producer left.
// The reference evaluates the same two / three nodes.

type pairProducer struct {
	name  string
	op    string
	attrs []hx.Attr
	ins   []*ref.T
}

type pairConsumer struct {
	name string
	// build returns the consumer node reading value `in` (of the given reference value) and writing `out`, plus its
	// initializers; ok=false when the menu entry does not apply to that value
	build func(in, out string, v *ref.T) (node *onnx.NodeProto, inits map[string]*ref.T, ok bool)
}

func pairProducers() []pairProducer {
	var out []pairProducer
	for i, rc := range repCases() {
		out = append(out, pairProducer{fmt.Sprintf("rep%d:%s", i, rc.id()), rc.Op, rc.Attrs, rc.Inputs})
	}
	f := func(salt int, sh ...int) *ref.T { return recFill(ref.F32, sh, salt) }
	add := func(name, op string, attrs []hx.Attr, ins ...*ref.T) {
		out = append(out, pairProducer{"extra:" + name, op, attrs, ins})
	}
	// transposes: every perm of shapes with and without extent-1 axes
	for _, sh := range [][]int{{2, 3}, {2, 3, 1}, {1, 2, 3}, {2, 1, 3}, {2, 1, 3, 1}, {1, 1, 2}, {2, 3, 2}} {
		for _, p := range perms(len(sh)) {
			add(fmt.Sprintf("Transpose%v%v", sh, p), "Transpose", []hx.Attr{hx.AInts("perm", p...)}, f(3, sh...))
		}
	}
	// reshapes that keep the rank but change the sizes, that add / drop unit axes, that flatten
	for _, rs := range [][2][]int{{{2, 3}, {3, 2}}, {{2, 3}, {1, 6}}, {{2, 3}, {6, 1}}, {{2, 2, 3}, {3, 2, 2}}, {{2, 2, 3}, {4, 3, 1}}, {{2, 3}, {2, 3, 1}}, {{2, 1, 3}, {2, 3}}, {{2, 3}, {6}}, {{4, 3}, {2, 6}}} {
		tg := make([]int64, len(rs[1]))
		for i, d := range rs[1] {
			tg[i] = int64(d)
		}
		add(fmt.Sprintf("Reshape%v->%v", rs[0], rs[1]), "Reshape", nil, f(4, rs[0]...), ref.I64Vec(tg...))
	}
	add("Slice-inner", "Slice", nil, f(5, 3, 4), ref.I64Vec(1), ref.I64Vec(3), ref.I64Vec(1), ref.I64Vec(1))
	add("Slice-step2", "Slice", nil, f(5, 3, 4), ref.I64Vec(0), ref.I64Vec(4), ref.I64Vec(1), ref.I64Vec(2))
	add("Slice-outer", "Slice", nil, f(5, 3, 4), ref.I64Vec(1), ref.I64Vec(3), ref.I64Vec(0), ref.I64Vec(1))
	add("Gather-inner", "Gather", []hx.Attr{hx.AInt("axis", 1)}, f(6, 2, 3), ref.I64Vec(2, 0))
	add("Gather-scalar-index", "Gather", []hx.Attr{hx.AInt("axis", 0)}, f(6, 3, 2), &ref.T{DT: ref.I64, Shape: []int{}, V: []uint64{1}})
	add("Squeeze", "Squeeze", nil, f(7, 2, 1, 3), ref.I64Vec(1))
	add("Unsqueeze-inner", "Unsqueeze", nil, f(7, 2, 3), ref.I64Vec(1))
	add("Expand-stretch", "Expand", nil, f(8, 2, 1), ref.I64Vec(2, 2, 3))
	add("Flatten-axis2", "Flatten", []hx.Attr{hx.AInt("axis", 2)}, f(9, 2, 3, 2))
	add("Concat-inner", "Concat", []hx.Attr{hx.AInt("axis", 1)}, f(10, 2, 1), f(11, 2, 2))
	add("ReduceMax-keep", "ReduceMax", []hx.Attr{hx.AInts("axes", 1), hx.AInt("keepdims", 1)}, f(12, 2, 3, 2))
	add("ReduceMin-drop", "ReduceMin", []hx.Attr{hx.AInts("axes", 0), hx.AInt("keepdims", 0)}, f(12, 2, 3, 2))
	add("MatMul-vec", "MatMul", nil, f(13, 3), f(14, 3, 2))
	add("Add-broadcast", "Add", nil, f(15, 2, 1, 3), f(16, 2, 1))
	return out
}

// pairAttrs: the attribute list each consumer node was built from (for the reference evaluation).
var pairAttrs = map[*onnx.NodeProto][]hx.Attr{}

func pairConsumers() []pairConsumer {
	nd := func(op string, ins []string, out string, attrs ...hx.Attr) *onnx.NodeProto {
		n := hx.Node(op, ins, []string{out}, attrs)
		pairAttrs[n] = attrs // the sweep is built by one goroutine
		return n
	}
	i64 := func(v ...int) *ref.T {
		t := ref.New(ref.I64, len(v))
		for i, x := range v {
			t.V[i] = uint64(int64(x))
		}
		return t
	}
	isF32 := func(v *ref.T) bool { return v.DT == ref.F32 }
	var cs []pairConsumer
	simple := func(name, op string, cond func(*ref.T) bool, attrs func(*ref.T) []hx.Attr) {
		cs = append(cs, pairConsumer{name, func(in, out string, v *ref.T) (*onnx.NodeProto, map[string]*ref.T, bool) {
			if cond != nil && !cond(v) {
				return nil, nil, false
			}
			var as []hx.Attr
			if attrs != nil {
				as = attrs(v)
			}
			return nd(op, []string{in}, out, as...), nil, true
		}})
	}
	rank1 := func(v *ref.T) bool { return len(v.Shape) >= 1 }
	simple("Relu", "Relu", isF32, nil)
	simple("Tanh", "Tanh", isF32, nil)
	simple("Shape", "Shape", nil, nil)
	simple("Transpose-reverse", "Transpose", func(v *ref.T) bool { return len(v.Shape) >= 2 }, func(v *ref.T) []hx.Attr {
		p := make([]int64, len(v.Shape))
		for i := range p {
			p[i] = int64(len(p) - 1 - i)
		}
		return []hx.Attr{hx.AInts("perm", p...)}
	})
	simple("Transpose-rotate", "Transpose", func(v *ref.T) bool { return len(v.Shape) >= 3 }, func(v *ref.T) []hx.Attr {
		p := make([]int64, len(v.Shape))
		for i := range p {
			p[i] = int64((i + 1) % len(p))
		}
		return []hx.Attr{hx.AInts("perm", p...)}
	})
	simple("Flatten-1", "Flatten", rank1, func(*ref.T) []hx.Attr { return []hx.Attr{hx.AInt("axis", 1)} })
	simple("Softmax-last", "Softmax", func(v *ref.T) bool { return isF32(v) && len(v.Shape) >= 1 }, func(*ref.T) []hx.Attr { return []hx.Attr{hx.AInt("axis", -1)} })
	simple("Softmax-first", "Softmax", func(v *ref.T) bool { return isF32(v) && len(v.Shape) >= 2 }, func(*ref.T) []hx.Attr { return []hx.Attr{hx.AInt("axis", 0)} })
	simple("ReduceMax-last", "ReduceMax", func(v *ref.T) bool { return isF32(v) && len(v.Shape) >= 1 }, func(*ref.T) []hx.Attr { return []hx.Attr{hx.AInts("axes", -1), hx.AInt("keepdims", 0)} })
	simple("ReduceMin-first", "ReduceMin", func(v *ref.T) bool { return isF32(v) && len(v.Shape) >= 2 }, func(*ref.T) []hx.Attr { return []hx.Attr{hx.AInts("axes", 0), hx.AInt("keepdims", 1)} })
	// ArgMax is discontinuous: only where the maximum of every slice is clearly separated from the runner-up (the
	// producer's values agree with the reference within rounding, not bit for bit)
	clearMax := func(v *ref.T) bool {
		n := v.Shape[len(v.Shape)-1]
		for s := 0; s+n <= len(v.V); s += n {
			best, second := math.Inf(-1), math.Inf(-1)
			for i := 0; i < n; i++ {
				x := v.F(s + i)
				if x > best {
					best, second = x, best
				} else if x > second {
					second = x
				}
			}
			if n > 1 && best-second < 1e-2*(1+math.Abs(best)) {
				return false
			}
		}
		return true
	}
	simple("ArgMax-last", "ArgMax", func(v *ref.T) bool { return isF32(v) && len(v.Shape) >= 1 && clearMax(v) }, func(*ref.T) []hx.Attr { return []hx.Attr{hx.AInt("axis", -1), hx.AInt("keepdims", 0)} })
	simple("Cast-f64", "Cast", isF32, func(*ref.T) []hx.Attr { return []hx.Attr{hx.AInt("to", 11)} })
	with := func(name string, f func(in, out string, v *ref.T) (*onnx.NodeProto, map[string]*ref.T, bool)) {
		cs = append(cs, pairConsumer{name, f})
	}
	// broadcasting partners that STRETCH the value: a new leading axis, and every extent-1 axis widened to 3
	with("Add-new-leading-axis", func(in, out string, v *ref.T) (*onnx.NodeProto, map[string]*ref.T, bool) {
		if !isF32(v) || len(v.Shape) > 4 {
			return nil, nil, false
		}
		big := recFill(ref.F32, append([]int{2}, v.Shape...), 21)
		return nd("Add", []string{in, out + "_p"}, out), map[string]*ref.T{out + "_p": big}, true
	})
	with("Mul-widen-unit-axes", func(in, out string, v *ref.T) (*onnx.NodeProto, map[string]*ref.T, bool) {
		if !isF32(v) {
			return nil, nil, false
		}
		sh, any := append([]int{}, v.Shape...), false
		for i, d := range sh {
			if d == 1 {
				sh[i], any = 3, true
			}
		}
		if !any {
			return nil, nil, false
		}
		return nd("Mul", []string{out + "_p", in}, out), map[string]*ref.T{out + "_p": recFill(ref.F32, sh, 22)}, true
	})
	with("Sub-same-shape", func(in, out string, v *ref.T) (*onnx.NodeProto, map[string]*ref.T, bool) {
		if !isF32(v) {
			return nil, nil, false
		}
		return nd("Sub", []string{in, out + "_p"}, out), map[string]*ref.T{out + "_p": recFill(ref.F32, v.Shape, 23)}, true
	})
	with("PRelu-x", func(in, out string, v *ref.T) (*onnx.NodeProto, map[string]*ref.T, bool) {
		if !isF32(v) || len(v.Shape) == 0 {
			return nil, nil, false
		}
		return nd("PRelu", []string{in, out + "_s"}, out), map[string]*ref.T{out + "_s": recFill(ref.F32, []int{v.Shape[len(v.Shape)-1]}, 24)}, true
	})
	with("PRelu-slope", func(in, out string, v *ref.T) (*onnx.NodeProto, map[string]*ref.T, bool) {
		if !isF32(v) || len(v.Shape) == 0 || len(v.Shape) > 3 {
			return nil, nil, false
		}
		return nd("PRelu", []string{out + "_x", in}, out), map[string]*ref.T{out + "_x": recFill(ref.F32, append([]int{2}, v.Shape...), 25)}, true
	})
	with("Expand-new-leading-axis", func(in, out string, v *ref.T) (*onnx.NodeProto, map[string]*ref.T, bool) {
		if len(v.Shape) > 4 {
			return nil, nil, false
		}
		return nd("Expand", []string{in, out + "_t"}, out), map[string]*ref.T{out + "_t": i64(append([]int{2}, v.Shape...)...)}, true
	})
	with("Reshape-flat", func(in, out string, v *ref.T) (*onnx.NodeProto, map[string]*ref.T, bool) {
		return nd("Reshape", []string{in, out + "_t"}, out), map[string]*ref.T{out + "_t": i64(-1)}, true
	})
	with("Slice-last-axis", func(in, out string, v *ref.T) (*onnx.NodeProto, map[string]*ref.T, bool) {
		r := len(v.Shape)
		if r == 0 || v.Shape[r-1] < 3 {
			return nil, nil, false // a result of extent 1 on the sliced axis runs into KF-C08-1 (Slice drops extent-1 axes)
		}
		return nd("Slice", []string{in, out + "_s", out + "_e", out + "_a"}, out), map[string]*ref.T{out + "_s": i64(1), out + "_e": i64(v.Shape[r-1]), out + "_a": i64(r - 1)}, true
	})
	with("Gather-first-axis", func(in, out string, v *ref.T) (*onnx.NodeProto, map[string]*ref.T, bool) {
		if len(v.Shape) == 0 {
			return nil, nil, false
		}
		return nd("Gather", []string{in, out + "_i"}, out, hx.AInt("axis", 0)), map[string]*ref.T{out + "_i": i64(v.Shape[0]-1, 0)}, true
	})
	with("Gather-last-axis", func(in, out string, v *ref.T) (*onnx.NodeProto, map[string]*ref.T, bool) {
		r := len(v.Shape)
		if r < 2 {
			return nil, nil, false
		}
		return nd("Gather", []string{in, out + "_i"}, out, hx.AInt("axis", -1)), map[string]*ref.T{out + "_i": i64(0, v.Shape[r-1]-1)}, true
	})
	with("Concat-self-last-axis", func(in, out string, v *ref.T) (*onnx.NodeProto, map[string]*ref.T, bool) {
		if len(v.Shape) == 0 {
			return nil, nil, false
		}
		return nd("Concat", []string{in, in}, out, hx.AInt("axis", -1)), nil, true
	})
	with("Concat-first-axis", func(in, out string, v *ref.T) (*onnx.NodeProto, map[string]*ref.T, bool) {
		if len(v.Shape) == 0 || !isF32(v) {
			return nil, nil, false
		}
		return nd("Concat", []string{out + "_p", in}, out, hx.AInt("axis", 0)), map[string]*ref.T{out + "_p": recFill(ref.F32, v.Shape, 26)}, true
	})
	with("MatMul-weight", func(in, out string, v *ref.T) (*onnx.NodeProto, map[string]*ref.T, bool) {
		r := len(v.Shape)
		if !isF32(v) || r == 0 || v.Shape[r-1] == 1 || v.Shape[r-1] > 2048 {
			// an inner dimension of 1 runs into KF-C04-1 (vector-like operands on the batched path); a very long one
			// needs the dot-product error bound of C04, not this sweep's fixed tolerance
			return nil, nil, false
		}
		return nd("MatMul", []string{in, out + "_w"}, out), map[string]*ref.T{out + "_w": recFill(ref.F32, []int{v.Shape[r-1], 2}, 27)}, true
	})
	with("Gemm-as-C", func(in, out string, v *ref.T) (*onnx.NodeProto, map[string]*ref.T, bool) {
		r := len(v.Shape)
		if !isF32(v) || r == 0 || r > 2 {
			return nil, nil, false
		}
		n := v.Shape[r-1]
		m := 2 // C of rank 1, or with a single row, is stretched over two rows
		if r == 2 && v.Shape[0] > 1 {
			m = v.Shape[0]
		}
		return nd("Gemm", []string{out + "_a", out + "_b", in}, out), map[string]*ref.T{out + "_a": recFill(ref.F32, []int{m, 3}, 28), out + "_b": recFill(ref.F32, []int{3, n}, 29)}, true
	})
	with("Unsqueeze-0", func(in, out string, v *ref.T) (*onnx.NodeProto, map[string]*ref.T, bool) {
		return nd("Unsqueeze", []string{in, out + "_a"}, out), map[string]*ref.T{out + "_a": i64(0)}, true
	})
	with("Squeeze-all", func(in, out string, v *ref.T) (*onnx.NodeProto, map[string]*ref.T, bool) {
		for _, d := range v.Shape {
			if d == 1 {
				return nd("Squeeze", []string{in}, out), nil, true
			}
		}
		return nil, nil, false
	})
	return cs
}

// pairSweep builds and runs the two- and three-node graphs.
func pairSweep(c *hx.Checker) {
	type job struct {
		mc   *modelCase
		id   string
		tags []string
	}
	var jobs []job
	skipped := 0
	consumers := pairConsumers()
	for _, p := range pairProducers() {
		pouts, err := refEval(p.op, p.attrs, p.ins)
		if err != nil || len(pouts) == 0 || pouts[0] == nil || ref.NElem(pouts[0].Shape) == 0 {
			skipped++
			continue
		}
		y := pouts[0]
		if y.DT == ref.C64 || y.DT == ref.C128 || y.DT == ref.Str {
			continue
		}
		for _, through := range []string{"", "Relu", "Neg-by-Mul"} {
			if through != "" && y.DT != ref.F32 {
				continue
			}
			for _, cons := range consumers {
				g := &onnx.GraphProto{Name: "g"}
				feed := map[string]*ref.T{}
				pin := make([]string, len(p.ins))
				for i, t := range p.ins {
					if t == nil {
						continue
					}
					pin[i] = fmt.Sprintf("p%d", i)
					if t.DT == ref.C64 || t.DT == ref.C128 || t.DT == ref.Str || i == 0 {
						g.Input = append(g.Input, hx.ValueInfo(pin[i], t.DT, hx.FixedDims(t.Shape)))
						feed[pin[i]] = t
					} else {
						g.Initializer = append(g.Initializer, hx.TensorProto(pin[i], t, "raw"))
					}
				}
				pOutNames := []string{"y"}
				for k := 1; k < len(pouts); k++ {
					pOutNames = append(pOutNames, fmt.Sprintf("y_extra%d", k))
				}
				g.Node = append(g.Node, hx.Node(p.op, pin, pOutNames, p.attrs))
				mid, midV := "y", y
				switch through {
				case "Relu":
					g.Node = append(g.Node, hx.Node("Relu", []string{"y"}, []string{"m"}, nil))
					mid = "m"
					midV, _ = ref.Unary("Relu", y)
				case "Neg-by-Mul":
					g.Node = append(g.Node, hx.Node("Mul", []string{"y", "minus1"}, []string{"m"}, nil))
					g.Initializer = append(g.Initializer, hx.TensorProto("minus1", ref.FromF(ref.F32, []int{1}, -1), "raw"))
					mid = "m"
					midV, err = ref.Binary("Mul", y, ref.FromF(ref.F32, []int{1}, -1))
					if err != nil {
						continue
					}
				}
				node, inits, ok := cons.build(mid, "z", midV)
				if !ok {
					continue
				}
				cins := make([]*ref.T, len(node.Input))
				for i, n := range node.Input {
					switch {
					case n == mid:
						cins[i] = midV
					case n == "":
					default:
						cins[i] = inits[n]
					}
				}
				zs, zerr := refEval(node.OpType, pairAttrs[node], cins)
				if zerr != nil || len(zs) == 0 || zs[0] == nil || ref.NElem(zs[0].Shape) == 0 {
					continue // the reference refuses the combination (or an empty result): not a program of this sweep
				}
				var inames []string
				for n := range inits {
					inames = append(inames, n)
				}
				sortStrings(inames)
				for _, n := range inames {
					g.Initializer = append(g.Initializer, hx.TensorProto(n, inits[n], "raw"))
				}
				g.Node = append(g.Node, node)
				expected := map[string]*ref.T{"z": zs[0], "y": y}
				g.Output = append(g.Output, hx.ValueInfoNoShape("z"), hx.ValueInfoNoShape("y"))
				mc := newModelCase(hx.Marshal(hx.Model(g, 13)), feed, "outputs", expected, hx.Tol(2e-4, 2e-4), "")
				mc.Graph = fmt.Sprintf("%s -> %s -> %s", p.name, through, cons.name)
				jobs = append(jobs, job{mc, fmt.Sprintf("pair[%s|%s|%s]", p.name, through, cons.name), []string{"pair-sweep", "producer=" + p.op, "consumer=" + cons.name, "through=" + through}})
			}
		}
	}
	c.Extra["pair_sweep_graphs"] = len(jobs)
	c.AddTraces(int64(len(jobs)))
	c.ParallelFor(len(jobs), func(i int) {
		j := jobs[i]
		var sample any
		if i%3000 == 3 {
			sample = map[string]any{"graph": j.mc.Graph}
		}
		c.Case(hx.CaseInfo{ID: j.id, Tags: j.tags, NonTrivial: true, Sample: sample}, func() *hx.Violation { return j.mc.run() })
	})
}

// domainSweep: the operator-set domain spelled on the nodes. The default domain may be written "" or "ai.onnx"; the
// ONNX-ML operators (Scaler, LinearRegressor) belong to "ai.onnx.ml" (models exported by converters carry it). The
// same two-node graphs with every spelling on every node must compute the same values.
func domainSweep(c *hx.Checker) {
	type tmpl struct {
		name  string
		nodes func() []*onnx.NodeProto
		inits map[string]*ref.T
		feed  map[string]*ref.T
		exp   func() map[string]*ref.T
		ml    []bool // per node: an ONNX-ML operator
	}
	x := recFill(ref.F32, []int{2, 3}, 51)
	w := recFill(ref.F32, []int{3, 2}, 52)
	scAttrs := []hx.Attr{hx.AFloats("offset", 0.5, -1, 2), hx.AFloats("scale", 2, 0.5, -1)}
	lrAttrs := []hx.Attr{hx.AFloats("coefficients", 0.5, -1, 2, 0.25, 1, -0.5), hx.AInt("targets", 2), hx.AFloats("intercepts", 0.5, -0.25)}
	ts := []tmpl{
		{"Relu>MatMul", func() []*onnx.NodeProto {
			return []*onnx.NodeProto{hx.Node("Relu", []string{"x"}, []string{"y"}, nil), hx.Node("MatMul", []string{"y", "w"}, []string{"z"}, nil)}
		}, map[string]*ref.T{"w": w}, map[string]*ref.T{"x": x}, func() map[string]*ref.T {
			y, _ := ref.Unary("Relu", x)
			z, _ := ref.MatMul(y, w)
			return map[string]*ref.T{"y": y, "z": z}
		}, []bool{false, false}},
		{"Scaler>LinearRegressor", func() []*onnx.NodeProto {
			return []*onnx.NodeProto{hx.Node("Scaler", []string{"x"}, []string{"y"}, scAttrs), hx.Node("LinearRegressor", []string{"y"}, []string{"z"}, lrAttrs)}
		}, nil, map[string]*ref.T{"x": x}, func() map[string]*ref.T {
			ys, _ := refEval("Scaler", scAttrs, []*ref.T{x})
			zs, _ := refEval("LinearRegressor", lrAttrs, []*ref.T{ys[0]})
			return map[string]*ref.T{"y": ys[0], "z": zs[0]}
		}, []bool{true, true}},
		{"Scaler>Relu", func() []*onnx.NodeProto {
			return []*onnx.NodeProto{hx.Node("Scaler", []string{"x"}, []string{"y"}, scAttrs), hx.Node("Relu", []string{"y"}, []string{"z"}, nil)}
		}, nil, map[string]*ref.T{"x": x}, func() map[string]*ref.T {
			ys, _ := refEval("Scaler", scAttrs, []*ref.T{x})
			z, _ := ref.Unary("Relu", ys[0])
			return map[string]*ref.T{"y": ys[0], "z": z}
		}, []bool{true, false}},
	}
	for _, t := range ts {
		exp := t.exp()
		// per node: "" | "ai.onnx" (default-domain operators), "" | "ai.onnx.ml" (ONNX-ML operators)
		for mask := 0; mask < 4; mask++ {
			g := &onnx.GraphProto{Name: "g"}
			g.Input = append(g.Input, hx.ValueInfo("x", ref.F32, hx.FixedDims(x.Shape)))
			for n, v := range t.inits {
				g.Initializer = append(g.Initializer, hx.TensorProto(n, v, "raw"))
			}
			nodes := t.nodes()
			var spelled []string
			for i, n := range nodes {
				if mask&(1<<i) != 0 {
					if t.ml[i] {
						n.Domain = "ai.onnx.ml"
					} else {
						n.Domain = "ai.onnx"
					}
				}
				spelled = append(spelled, fmt.Sprintf("%q", n.Domain))
			}
			g.Node = nodes
			g.Output = append(g.Output, hx.ValueInfoNoShape("y"), hx.ValueInfoNoShape("z"))
			mp := hx.Model(g, 13)
			mp.OpsetImport = append(mp.OpsetImport, &onnx.OperatorSetIdProto{Domain: "ai.onnx.ml", Version: 2})
			mc := newModelCase(hx.Marshal(mp), t.feed, "outputs", exp, hx.Tol(1e-4, 1e-4), "")
			mc.Graph = t.name + " domains " + fmt.Sprint(spelled)
			c.Case(hx.CaseInfo{ID: "node-domain[" + mc.Graph + "]", Tags: []string{"node-domain"}, NonTrivial: true}, func() *hx.Violation { return mc.run() })
		}
	}
}
