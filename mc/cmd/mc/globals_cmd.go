package main

import (
	"fmt"

	"verifmc/hx"
)

// `mc globals` lists the library's writable package-level symbols seen by the global-state digest.
func globalsMain() {
	syms, err := hx.LibraryGlobals()
	if err != nil {
		fmt.Println("error:", err)
		return
	}
	for _, s := range syms {
		fmt.Printf("%6d  %s\n", s.Size, s.Name)
	}
	fmt.Println(len(syms), "symbols")
}
