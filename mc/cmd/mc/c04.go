package main

import (
	"fmt"
	"math"

	"verifmc/hx"
	"verifmc/ref"
)

// C04 — MatMul, Gemm, LinearRegressor, Scaler.

func init() { register("C04", "exploration", checkC04) }

func linFill(dt ref.DT, sh []int, salt int) *ref.T {
	return ref.Fill(dt, sh, func(i int) float64 {
		k := (i*7 + salt*3) % 13
		if dt.IsFloat() {
			return float64(k)*0.375 - 2.1 + float64(i)*0.0625
		}
		if dt.IsSigned() {
			return float64(k - 6)
		}
		return float64(k + 1)
	})
}

// differs reports whether two reference results differ by much more than the tolerance somewhere.
func differs(a, b *ref.T) bool {
	if a == nil || b == nil || !ref.ShapeEq(a.Shape, b.Shape) {
		return true
	}
	for i := range a.V {
		if math.Abs(a.F(i)-b.F(i)) > 1e-3*(1+math.Abs(a.F(i))) {
			return true
		}
	}
	return false
}

func checkC04(c *hx.Checker) {
	thorough := c.Tier == "thorough"
	maxBatchRank := 2
	if thorough {
		maxBatchRank = 3
	}
	c.Rule = fmt.Sprintf("MatMul: operand ranks 1..%d: every (batchA, batchB) pair of Box(rank 0..%d, extents {1,2,3}) (broadcastable and not) x (m,k,n) in {1,2,3}^3 x {matrix, vector} per side x mismatching k; float32 everywhere, the other gate dtypes on a sub-box, plus 6 larger MatMul and 6 larger Gemm operand sets (up to 129 / 300 in one dimension) to reach size-dependent kernels. "+
		"Gemm: transA x transB x (alpha,beta) in {1,0.5,-1,0,2}x{1,2,0,-0.5} x (M,K,N) in {1,2,3}^3 x C in {absent, (), (1), (N), (1,N), (M,1), (M,N), (M) , (N,M), (2,M,N), (1,1)} (valid iff unidirectionally broadcastable), float32 + float64, inner-dimension mismatch. "+
		"LinearRegressor: targets x features x batch in {1,2,3}^3 x intercepts {absent, per target, single} x X rank {1,2}, wrong feature count, int/double inputs. Scaler: features x batch in {1,2,3}^2 x offset/scale length {F,1,wrong} x X rank 1..3. "+
		"Operator API + Model.Run (with weights as initializers) on a sub-box; instance-reuse histories. non-trivial = every case; discrimination counters report how many cases separate the true semantics from the swapped ones", maxBatchRank+2, maxBatchRank)
	c.Assumptions = []string{"dot-product oracle: |impl - ref| <= gamma_(2k+4) * sum|a_i b_i| (+ 4 ulp), reference accumulated in float64; integer MatMul is exact (wrap-around)",
		"float32 operands must be computed (D_compute); every other accepted dtype may be refused (D_refuse) but never computed differently; shape mismatches must be refused (D_error)"}
	var jobs []opJob
	// ---------------- MatMul
	batches := ref.Box(0, maxBatchRank, []int{1, 2, 3})
	mm := func(dt ref.DT, as, bs []int, route string, init []bool) {
		A, B := linFill(dt, as, 1), linFill(dt, bs, 4)
		exp, err := ref.MatMul(A, B)
		dom := hx.DCompute
		if dt != ref.F32 {
			dom = hx.DRefuse
		}
		cmp := hx.Dot
		if !dt.IsFloat() {
			cmp = hx.Bits
		}
		extra := []string{fmt.Sprintf("rankA=%d", len(as)), fmt.Sprintf("rankB=%d", len(bs))}
		if err == nil && !(len(as) == 2 && len(bs) == 2) {
			// batched / promoted path: gorgonia refuses an inner dimension of 1 next to a vector-like operand
			pa, pb := as, bs
			if len(pa) == 1 {
				pa = []int{1, pa[0]}
			}
			if len(pb) == 1 {
				pb = []int{pb[0], 1}
			}
			m, k, n := pa[len(pa)-2], pa[len(pa)-1], pb[len(pb)-1]
			if k == 1 && (m == 1 || n == 1) {
				extra = append(extra, "batched-path-k1-vectorlike")
			}
		}
		jobs = append(jobs, newJob("MatMul", nil, []*ref.T{A, B}, []*ref.T{exp}, err, dom, cmp, route, init, fmt.Sprintf("%v x %v", as, bs), extra...))
	}
	for _, ba := range batches {
		for _, bb := range batches {
			for _, mkn := range seqs([]int64{1, 2, 3}, 3, 3) {
				m, k, n := int(mkn[0]), int(mkn[1]), int(mkn[2])
				if !thorough && len(ba)+len(bb) >= 3 && (m == 3 || n == 3) {
					continue
				}
				mm(ref.F32, append(append([]int{}, ba...), m, k), append(append([]int{}, bb...), k, n), "op", nil)
				if m == 1 && n == 1 {
					// vector operands on either side, with and without batch on the other
					if len(ba) == 0 {
						mm(ref.F32, []int{k}, append(append([]int{}, bb...), k, n), "op", nil)
						mm(ref.F32, []int{k}, append(append([]int{}, bb...), k, 2), "op", nil)
					}
					if len(bb) == 0 {
						mm(ref.F32, append(append([]int{}, ba...), m, k), []int{k}, "op", nil)
						mm(ref.F32, append(append([]int{}, ba...), 2, k), []int{k}, "op", nil)
					}
					if len(ba) == 0 && len(bb) == 0 {
						mm(ref.F32, []int{k}, []int{k}, "op", nil)
						mm(ref.F32, []int{k}, []int{k + 1}, "op", nil)
					}
					// inner dimension mismatch
					mm(ref.F32, append(append([]int{}, ba...), m, k), append(append([]int{}, bb...), k+1, n), "op", nil)
				}
			}
		}
	}
	// larger operands: beyond the exhaustive box, to reach size-dependent code paths (blocked / parallel gemm)
	for _, sp := range [][2][]int{{{70, 65}, {65, 66}}, {{3, 40, 50}, {50, 30}}, {{2, 1, 17, 9}, {3, 9, 33}}, {{129}, {129, 5}}, {{5, 200}, {200}}, {{1, 64, 64}, {64, 64}},
		{{257, 3}, {3, 259}}, {{4099}, {4099}}, {{1, 4099}, {4099, 3}}, {{7, 67, 5}, {5, 71}}, {{131, 129}, {129, 131}}} {
		mm(ref.F32, sp[0], sp[1], "op", nil)
	}
	// stacks so large that stretching the other operand over them would copy more than 2^20 elements
	for _, sp := range [][2][]int{{{4096, 2, 300}, {300}}, {{4096, 2, 300}, {300, 2}}, {{300}, {2100, 300, 2}}, {{3, 300}, {1200, 300, 3}}} {
		mm(ref.F32, sp[0], sp[1], "op", nil)
	}
	// every row / column / inner count 1..72 against a 64-wide partner: size thresholds of blocked or parallel kernels
	// combined with every remainder when rows are divided into blocks
	for v := 1; v <= 72; v++ {
		mm(ref.F32, []int{v, 64}, []int{64, 48}, "op", nil)
		mm(ref.F32, []int{48, 64}, []int{64, v}, "op", nil)
		mm(ref.F32, []int{48, v}, []int{v, 64}, "op", nil)
	}
	// three and four stack dimensions (operands of rank 5 and 6), outermost / innermost stack extents > 1, also
	// against lower-rank and broadcast partners
	for _, sp := range [][2][]int{{{2, 1, 2, 2, 3}, {2, 1, 2, 3, 2}}, {{2, 3, 2, 2, 3}, {2, 3, 2, 3, 2}}, {{3, 1, 2, 1, 2}, {3, 1, 2, 2, 3}}, {{2, 2, 2, 2, 3}, {3, 2}},
		{{2, 2, 2, 2, 3}, {2, 3, 2}}, {{2, 3}, {2, 2, 2, 3, 2}}, {{2, 1, 2, 2, 3}, {1, 3, 1, 3, 2}}, {{2, 1, 3, 2, 2, 3}, {2, 1, 3, 2, 3, 1}}, {{1, 2, 1, 2, 2, 3}, {2, 3, 2}}} {
		mm(ref.F32, sp[0], sp[1], "op", nil)
	}
	// extents up to 5 for plain and singly batched products (relations between extents: equal, multiples, square)
	for _, mkn := range seqs([]int64{1, 2, 3, 4, 5}, 3, 3) {
		m, k, n := int(mkn[0]), int(mkn[1]), int(mkn[2])
		if m <= 3 && k <= 3 && n <= 3 {
			continue
		}
		mm(ref.F32, []int{m, k}, []int{k, n}, "op", nil)
		mm(ref.F32, []int{2, m, k}, []int{k, n}, "op", nil)
		mm(ref.F32, []int{m, k}, []int{3, k, n}, "op", nil)
		mm(ref.F32, []int{4, m, k}, []int{4, k, n}, "op", nil)
	}
	// values whose products cancel exactly (results that are exactly zero, rows of equal elements)
	{
		A := ref.FromF(ref.F32, []int{2, 4}, 1, -1, 2, -2, 0.5, 0.5, -0.5, -0.5)
		B := ref.FromF(ref.F32, []int{4, 3}, 1, 2, 3, 1, 2, 3, 1, 2, 3, 1, 2, 3)
		exp, err := ref.MatMul(A, B)
		jobs = append(jobs, newJob("MatMul", nil, []*ref.T{A, B}, []*ref.T{exp}, err, hx.DCompute, hx.Dot, "op", nil, "cancellation", "cancellation"))
		for _, withC := range []bool{false, true} {
			var C *ref.T
			if withC {
				C = ref.FromF(ref.F32, []int{3}, 0, -0.0, 1)
			}
			expg, errg := ref.Gemm(A, B, C, 1, 1, false, false)
			jobs = append(jobs, newJob("Gemm", nil, []*ref.T{A, B, C}, []*ref.T{expg}, errg, hx.DCompute, hx.Dot, "op", nil, fmt.Sprintf("cancellation C=%v", withC), "cancellation"))
			expz, errz := ref.Gemm(A, B, C, 0, 0, false, false)
			jobs = append(jobs, newJob("Gemm", []hx.Attr{hx.AFloat("alpha", 0), hx.AFloat("beta", 0)}, []*ref.T{A, B, C}, []*ref.T{expz}, errz, hx.DCompute, hx.Dot, "op", nil, fmt.Sprintf("alpha=beta=0 C=%v", withC), "cancellation"))
		}
	}
	for _, dt := range gateDTs("MatMul", 0) {
		for _, sp := range [][2][]int{{{2, 3}, {3, 2}}, {{3}, {3, 2}}, {{2, 3}, {3}}, {{3}, {3}}, {{2, 2, 3}, {3, 2}}, {{2, 1, 3}, {2, 3, 1}}, {{1, 2, 2, 3}, {3, 1, 3, 2}}, {{2, 3}, {2, 3}}} {
			if dt != ref.F32 {
				mm(dt, sp[0], sp[1], "op", nil)
			}
			mm(dt, sp[0], sp[1], "model", nil)
			mm(dt, sp[0], sp[1], "model", []bool{false, true})
		}
	}
	// ---------------- Gemm
	var alphaBeta [][2]float32
	for _, a := range []float32{1, 0.5, -1, 0, 2} {
		for _, b := range []float32{1, 2, 0, -0.5} {
			alphaBeta = append(alphaBeta, [2]float32{a, b})
		}
	}
	// scale factors that are no dyadic fractions: the float32 attribute 0.1 is 0.100000001490116..., and that - not the
	// decimal 0.1 - scales a float64 product
	alphaBeta = append(alphaBeta, [2]float32{0.1, 0.3}, [2]float32{-0.7, 1}, [2]float32{1, 0.1})
	var discTrans, discAB, gemmCases int
	for _, dt := range []ref.DT{ref.F32, ref.F64} {
		for _, tA := range []bool{false, true} {
			for _, tB := range []bool{false, true} {
				for _, ab := range alphaBeta {
					for _, mkn := range seqs([]int64{1, 2, 3}, 3, 3) {
						M, K, N := int(mkn[0]), int(mkn[1]), int(mkn[2])
						ash, bsh := []int{M, K}, []int{K, N}
						if tA {
							ash = []int{K, M}
						}
						if tB {
							bsh = []int{N, K}
						}
						A, B := linFill(dt, ash, 2), linFill(dt, bsh, 5)
						cshapes := [][]int{nil, {}, {1}, {N}, {1, N}, {M, 1}, {M, N}, {M}, {N, M}, {2, M, N}, {1, 1}}
						for ci, cs := range cshapes {
							if dt == ref.F64 && ci > 6 {
								continue
							}
							var C *ref.T
							if cs != nil {
								C = linFill(dt, cs, 8)
							}
							attrs := []hx.Attr{}
							if tA {
								attrs = append(attrs, hx.AInt("transA", 1))
							}
							if tB {
								attrs = append(attrs, hx.AInt("transB", 1))
							}
							if ab[0] != 1 {
								attrs = append(attrs, hx.AFloat("alpha", ab[0]))
							}
							if ab[1] != 1 {
								attrs = append(attrs, hx.AFloat("beta", ab[1]))
							}
							exp, err := ref.Gemm(A, B, C, ab[0], ab[1], tA, tB)
							dom := hx.DCompute
							if dt != ref.F32 {
								dom = hx.DRefuse
							}
							extra := []string{fmt.Sprintf("C=%d", ci)}
							if dt == ref.F64 && (ab[0] != 1 || ab[1] != 1) {
								extra = append(extra, "f64-nondefault-scale")
							}
							jobs = append(jobs, newJob("Gemm", attrs, []*ref.T{A, B, C}, []*ref.T{exp}, err, dom, hx.Dot, "op", nil, fmt.Sprintf("tA=%v tB=%v ab=%v %v C%v", tA, tB, ab, mkn, cs), extra...))
							if dt == ref.F32 && err == nil {
								gemmCases++
								if v, e := ref.Gemm(A, B, C, ab[0], ab[1], !tA, !tB); e != nil || differs(exp, v) {
									discTrans++
								}
								if v, e := ref.Gemm(A, B, C, ab[1], ab[0], tA, tB); e != nil || differs(exp, v) {
									discAB++
								}
							}
							if dt == ref.F32 && M <= 2 && N <= 2 && ci <= 6 && ab[0] != 0 {
								jobs = append(jobs, newJob("Gemm", attrs, []*ref.T{A, B, C}, []*ref.T{exp}, err, dom, hx.Dot, "model", []bool{false, true, true}, fmt.Sprintf("tA=%v tB=%v ab=%v %v C%v", tA, tB, ab, mkn, cs), extra...))
							}
						}
						// inner-dimension mismatch
						B2 := linFill(dt, []int{bsh[0] + 1, bsh[1] + 1}, 5)
						_, err := ref.Gemm(A, B2, nil, ab[0], ab[1], tA, tB)
						if err != nil {
							var mattrs []hx.Attr
							if tA {
								mattrs = append(mattrs, hx.AInt("transA", 1))
							}
							if tB {
								mattrs = append(mattrs, hx.AInt("transB", 1))
							}
							jobs = append(jobs, newJob("Gemm", mattrs, []*ref.T{A, B2, nil}, nil, err, hx.DError, hx.Dot, "op", nil, fmt.Sprintf("mismatch tA=%v tB=%v %v", tA, tB, mkn)))
						}
					}
				}
			}
		}
	}
	for _, mkn := range seqs([]int64{1, 2, 3, 4, 5}, 3, 3) {
		M, K, N := int(mkn[0]), int(mkn[1]), int(mkn[2])
		if M <= 3 && K <= 3 && N <= 3 {
			continue
		}
		for _, tA := range []bool{false, true} {
			for _, tB := range []bool{false, true} {
				ash, bsh := []int{M, K}, []int{K, N}
				var attrs []hx.Attr
				if tA {
					ash = []int{K, M}
					attrs = append(attrs, hx.AInt("transA", 1))
				}
				if tB {
					bsh = []int{N, K}
					attrs = append(attrs, hx.AInt("transB", 1))
				}
				A, B := linFill(ref.F32, ash, 2), linFill(ref.F32, bsh, 5)
				for _, cs := range [][]int{nil, {N}, {M, 1}} {
					var C *ref.T
					if cs != nil {
						C = linFill(ref.F32, cs, 8)
					}
					exp, err := ref.Gemm(A, B, C, 1, 1, tA, tB)
					jobs = append(jobs, newJob("Gemm", attrs, []*ref.T{A, B, C}, []*ref.T{exp}, err, hx.DCompute, hx.Dot, "op", nil, fmt.Sprintf("ext5 tA=%v tB=%v %v C%v", tA, tB, mkn, cs), "extents-to-5"))
				}
			}
		}
	}
	bigs := [][3]int{{70, 65, 66}, {128, 64, 3}, {5, 300, 7}}
	for v := 1; v <= 72; v++ { // every row count (see MatMul above)
		bigs = append(bigs, [3]int{v, 64, 48})
	}
	for _, big := range bigs {
		for _, tA := range []bool{false, true} {
			if tA && big[1] == 64 && big[2] == 48 && big[0]%7 != 0 {
				continue
			}
			ash, bsh := []int{big[0], big[1]}, []int{big[2], big[1]}
			if tA {
				ash = []int{big[1], big[0]}
			}
			A, B, C := linFill(ref.F32, ash, 2), linFill(ref.F32, bsh, 5), linFill(ref.F32, []int{1, big[2]}, 8)
			attrs := []hx.Attr{hx.AInt("transB", 1), hx.AFloat("alpha", 0.5), hx.AFloat("beta", 2)}
			if tA {
				attrs = append(attrs, hx.AInt("transA", 1))
			}
			exp, err := ref.Gemm(A, B, C, 0.5, 2, tA, true)
			jobs = append(jobs, newJob("Gemm", attrs, []*ref.T{A, B, C}, []*ref.T{exp}, err, hx.DCompute, hx.Dot, "op", nil, fmt.Sprintf("large %v tA=%v", big, tA), "large"))
		}
	}
	// extreme alpha / beta with operands scaled so that the true result stays an ordinary float32 although
	// alpha*A, alpha*B or beta*C alone would overflow or become subnormal
	scaleT := func(t *ref.T, f float64) *ref.T {
		return ref.Fill(t.DT, t.Shape, func(i int) float64 { return t.F(i) * f })
	}
	for _, ab := range [][2]float32{{1e30, 1}, {-1e30, 0}, {1e-30, 1e-30}, {1.7e-38, 1}, {1, 1e30}, {1e30, 1e30}, {3e-39, 1}} {
		for _, sc := range [][3]float64{{1e10, 1e-10, 1}, {1e-10, 1e10, 1}, {1, 1, 1}, {1e10, 1e-10, 1e-10}} {
			for _, tA := range []bool{false, true} {
				for _, tB := range []bool{false, true} {
					for _, withC := range []bool{false, true} {
						M, K, N := 2, 3, 2
						ash, bsh := []int{M, K}, []int{K, N}
						if tA {
							ash = []int{K, M}
						}
						if tB {
							bsh = []int{N, K}
						}
						A, B := scaleT(linFill(ref.F32, ash, 2), sc[0]), scaleT(linFill(ref.F32, bsh, 5), sc[1])
						var C *ref.T
						if withC {
							C = scaleT(linFill(ref.F32, []int{N}, 8), sc[2])
						}
						if float64(ab[1])*sc[2] > 1e35 || (ab[0] == 3e-39 && sc[0] != 1) {
							continue
						}
						attrs := []hx.Attr{hx.AFloat("alpha", ab[0]), hx.AFloat("beta", ab[1])}
						if tA {
							attrs = append(attrs, hx.AInt("transA", 1))
						}
						if tB {
							attrs = append(attrs, hx.AInt("transB", 1))
						}
						exp, err := ref.Gemm(A, B, C, ab[0], ab[1], tA, tB)
						jobs = append(jobs, newJob("Gemm", attrs, []*ref.T{A, B, C}, []*ref.T{exp}, err, hx.DCompute, hx.Dot, "op", nil,
							fmt.Sprintf("extreme-scale ab=%v sc=%v tA=%v tB=%v C=%v", ab, sc, tA, tB, withC), "extreme-scale"))
					}
				}
			}
		}
	}
	// alpha*(A*B) and beta*C each fit, their unscaled sum A*B + C does not (an implementation that factors a common
	// alpha = beta out of the sum overflows): alpha = beta in {0.5, 0.25, -0.5}, every bias shape
	for _, ab := range []float32{0.5, 0.25, -0.5} {
		for _, K := range []int{1, 2} {
			for _, csh := range [][]int{{1}, {2}, {1, 2}, {3, 1}, {3, 2}} {
				for _, sign := range []float64{1, -1} {
					A := ref.Fill(ref.F32, []int{3, K}, func(i int) float64 { return sign * (1.5e19 + float64(i)*1e17) / float64(K) })
					B := ref.Fill(ref.F32, []int{K, 2}, func(i int) float64 { return 1.4e19 + float64(i)*1e17 })
					C := ref.Fill(ref.F32, csh, func(i int) float64 { return sign * (2.4e38 + float64(i)*1e36) })
					exp, err := ref.Gemm(A, B, C, ab, ab, false, false)
					jobs = append(jobs, newJob("Gemm", []hx.Attr{hx.AFloat("alpha", ab), hx.AFloat("beta", ab)}, []*ref.T{A, B, C}, []*ref.T{exp}, err, hx.DCompute, hx.Dot, "op", nil,
						fmt.Sprintf("sum-overflows-unscaled alpha=beta=%v K=%d C%v sign=%v", ab, K, csh, sign), "extreme-scale", "unscaled-sum-overflows"))
				}
			}
		}
	}
	// one operand object in both slots (a value wired to both inputs): inner product of a vector with itself, a square
	// matrix with itself
	for _, sh := range [][]int{{3}, {2}, {2, 2}, {3, 3}, {2, 3, 3}} {
		A := linFill(ref.F32, sh, 2)
		exp, err := ref.MatMul(A, A)
		j := newJob("MatMul", nil, []*ref.T{A, A}, []*ref.T{exp}, err, hx.DCompute, hx.Dot, "op-same", nil, fmt.Sprintf("same-object %v", sh), "same-object")
		jobs = append(jobs, j)
	}
	// non-finite operands: an infinite or NaN element of one operand meets an exact zero of the other (0 * Inf = NaN
	// belongs to the sum), for every transpose combination of Gemm and for MatMul
	for _, special := range []float64{math.Inf(1), math.Inf(-1), math.NaN()} {
		for _, inA := range []bool{true, false} {
			for _, tA := range []bool{false, true} {
				for _, tB := range []bool{false, true} {
					M, K, N := 2, 3, 2
					ash, bsh := []int{M, K}, []int{K, N}
					if tA {
						ash = []int{K, M}
					}
					if tB {
						bsh = []int{N, K}
					}
					A, B := linFill(ref.F32, ash, 2), linFill(ref.F32, bsh, 5)
					// logical A[0][1] is special and logical B[1][0] is zero (or the other way round): they meet in y[0][0]
					ai, bi := 1, N
					if tA {
						ai = M
					}
					if tB {
						bi = 1
					}
					sv, zv := ref.EncF(ref.F32, special), ref.EncF(ref.F32, 0)
					if inA {
						A.V[ai], B.V[bi] = sv, zv
					} else {
						A.V[ai], B.V[bi] = zv, sv
					}
					attrs := []hx.Attr{}
					if tA {
						attrs = append(attrs, hx.AInt("transA", 1))
					}
					if tB {
						attrs = append(attrs, hx.AInt("transB", 1))
					}
					tags := []string{"non-finite"}
					if !inA {
						// the zero sits in the LEFT operand: the BLAS kernel skips zero multipliers of that side (KF-C04-2)
						tags = append(tags, "zero-in-A-meets-non-finite-in-B")
					}
					exp, err := ref.Gemm(A, B, nil, 1, 1, tA, tB)
					jobs = append(jobs, newJob("Gemm", attrs, []*ref.T{A, B}, []*ref.T{exp}, err, hx.DCompute, hx.Dot, "op", nil, fmt.Sprintf("non-finite %v inA=%v tA=%v tB=%v", special, inA, tA, tB), tags...))
					if !tA && !tB {
						exp2, err2 := ref.MatMul(A, B)
						jobs = append(jobs, newJob("MatMul", nil, []*ref.T{A, B}, []*ref.T{exp2}, err2, hx.DCompute, hx.Dot, "op", nil, fmt.Sprintf("non-finite %v inA=%v", special, inA), tags...))
					}
				}
			}
		}
	}
	// a zero scale factor does not erase a non-finite term: 0 * Inf = NaN (alpha = 0 with Inf / NaN in the product - finite operands whose product overflows float32 are left out: whether the intermediate is held in float32 is not fixed -,
	// beta = 0 with Inf / NaN in C)
	for _, special := range []float64{math.Inf(1), math.NaN(), math.Inf(-1)} {
		for _, ab := range [][2]float32{{0, 1}, {0, 0}, {1, 0}, {0, 0.5}} {
			A, B, C := linFill(ref.F32, []int{2, 3}, 2), linFill(ref.F32, []int{3, 2}, 5), linFill(ref.F32, []int{2}, 8)
			A.V[1] = ref.EncF(ref.F32, special)
			exp, err := ref.Gemm(A, B, C, ab[0], ab[1], false, false)
			jobs = append(jobs, newJob("Gemm", []hx.Attr{hx.AFloat("alpha", ab[0]), hx.AFloat("beta", ab[1])}, []*ref.T{A, B, C}, []*ref.T{exp}, err, hx.DCompute, hx.Dot, "op", nil, fmt.Sprintf("zero-scale non-finite product %v ab=%v", special, ab), "non-finite", "zero-scale"))
			C2 := linFill(ref.F32, []int{2}, 8)
			C2.V[0] = ref.EncF(ref.F32, special)
			A2 := linFill(ref.F32, []int{2, 3}, 2)
			exp2, err2 := ref.Gemm(A2, linFill(ref.F32, []int{3, 2}, 5), C2, ab[0], ab[1], false, false)
			jobs = append(jobs, newJob("Gemm", []hx.Attr{hx.AFloat("alpha", ab[0]), hx.AFloat("beta", ab[1])}, []*ref.T{A2, linFill(ref.F32, []int{3, 2}, 5), C2}, []*ref.T{exp2}, err2, hx.DCompute, hx.Dot, "op", nil, fmt.Sprintf("zero-scale non-finite C %v ab=%v", special, ab), "non-finite", "zero-scale"))
		}
	}
	// integer MatMul (honoured exactly, in wrapping integer arithmetic as numpy does, or refused): elements and partial
	// products beyond 2^53, operands near 2^31 whose large partial products cancel to a small result
	for _, ic := range []struct {
		dt   ref.DT
		a, b []int64
		k    int
	}{
		{ref.I64, []int64{1<<53 + 1, 3, 5, 1<<60 + 7}, []int64{1, 0, 0, 1}, 2},
		{ref.I64, []int64{3037000499, 3037000500}, []int64{3037000499, -3037000498}, 2},
		{ref.U64, []int64{1<<53 + 1, 1, 1, 1<<62 + 3}, []int64{1, 2, 3, 1}, 2},
		{ref.I32, []int64{2147483647, 2147483647}, []int64{2147483647, -2147483646}, 2},
		{ref.I32, []int64{46341, 46341, -46340, 46340}, []int64{46341, 46340, 46340, 46341}, 2},
		{ref.U32, []int64{4294967295, 4294967295}, []int64{4294967295, 1}, 2},
	} {
		m := len(ic.a) / ic.k
		n := len(ic.b) / ic.k
		A, B := ref.FromI(ic.dt, []int{m, ic.k}, ic.a...), ref.FromI(ic.dt, []int{ic.k, n}, ic.b...)
		exp, err := ref.MatMul(A, B)
		jobs = append(jobs, newJob("MatMul", nil, []*ref.T{A, B}, []*ref.T{exp}, err, hx.DRefuse, hx.Bits, "op", nil, fmt.Sprintf("integer-extremes %s %v x %v", ic.dt, ic.a, ic.b), "integer-extremes"))
	}
	c.Extra["discrimination"] = map[string]int{"gemm_cases": gemmCases, "differs_if_trans_flags_flipped": discTrans, "differs_if_alpha_beta_swapped": discAB}
	if discTrans < gemmCases/4 || discAB < gemmCases/4 {
		hx.HarnessError("Gemm fills are not discriminating (trans %d, alpha/beta %d of %d)", discTrans, discAB, gemmCases)
	}
	// ---------------- Scaler with large offsets / scales: (x - offset) * scale must neither overflow nor lose the
	// difference when x is close to a large offset
	for si, sc := range []struct{ off, scale, x []float32 }{
		{[]float32{1e30, -1e30, 1e30}, []float32{1e10, 1e10, 1e-10}, []float32{1e30, -1e30, 3e30}},
		{[]float32{16777216, 1e7, -1e7}, []float32{1, 0.5, 2}, []float32{16777218, 1e7 + 1, -1e7 + 3}},
		{[]float32{3e38, 3e38, -3e38}, []float32{2, 1e-30, 0.5}, []float32{3e38, 2.9e38, -3e38}},
		{[]float32{1, 1, 1}, []float32{3e38, -3e38, 1e38}, []float32{1, 1.0000001, 2}},
	} {
		x := ref.FromF(ref.F32, []int{2, 3}, float64(sc.x[0]), float64(sc.x[1]), float64(sc.x[2]), float64(sc.x[2]), float64(sc.x[0]), float64(sc.x[1]))
		x.V[3], x.V[4], x.V[5] = x.V[0], x.V[1], x.V[2]
		exp, err := ref.Scaler(x, sc.off, sc.scale)
		jobs = append(jobs, newJob("Scaler", []hx.Attr{hx.AFloats("offset", sc.off...), hx.AFloats("scale", sc.scale...)}, []*ref.T{x}, []*ref.T{exp}, err, hx.DCompute, hx.Ulp(2), "op", nil, fmt.Sprintf("extreme-%d", si), "extreme-scale", "xrank=2"))
	}
	// ---------------- LinearRegressor
	for _, tfb := range seqs([]int64{1, 2, 3}, 3, 3) {
		T, F, Nb := int(tfb[0]), int(tfb[1]), int(tfb[2])
		coef := make([]float32, T*F)
		for i := range coef {
			coef[i] = float32((i*5+2)%7)*0.5 - 1.25
		}
		for _, ic := range []int{0, T, 1} {
			var icpt []float32
			for i := 0; i < ic; i++ {
				icpt = append(icpt, float32(i)*1.5-0.75)
			}
			attrs := []hx.Attr{hx.AFloats("coefficients", coef...), hx.AInt("targets", int64(T))}
			if ic > 0 {
				attrs = append(attrs, hx.AFloats("intercepts", icpt...))
			}
			for _, xs := range [][]int{{Nb, F}, {F}, {Nb, F + 1}} {
				if len(xs) == 1 && Nb != 1 {
					continue
				}
				for _, dt := range gateDTs("LinearRegressor", 0) {
					X := linFill(dt, xs, 3)
					var exp *ref.T
					var err error
					dom := hx.DCompute
					if dt == ref.F32 {
						exp, err = ref.LinearRegressor(X, coef, icpt, T)
					} else {
						// reference for non-float32 inputs: same formula on the converted values, float32 result
						xf := ref.Fill(ref.F32, xs, func(i int) float64 { return X.AsFloat(i) })
						exp, err = ref.LinearRegressor(xf, coef, icpt, T)
						dom = hx.DRefuse
					}
					if len(xs) == 1 && dom == hx.DCompute {
						dom = hx.DRefuse // rank-1 X ([C] layout): computed correctly or refused
					}
					extra := []string{fmt.Sprintf("intercepts=%d", ic), fmt.Sprintf("xrank=%d", len(xs))}
					if ic == 0 {
						extra = append(extra, "intercepts-absent")
					}
					jobs = append(jobs, newJob("LinearRegressor", attrs, []*ref.T{X}, []*ref.T{exp}, err, dom, hx.Dot, "op", nil, fmt.Sprintf("T=%d F=%d x%v ic=%d", T, F, xs, ic), extra...))
					if dt == ref.F32 && Nb <= 2 {
						jobs = append(jobs, newJob("LinearRegressor", attrs, []*ref.T{X}, []*ref.T{exp}, err, dom, hx.Dot, "model", nil, fmt.Sprintf("T=%d F=%d x%v ic=%d", T, F, xs, ic), extra...))
					}
				}
			}
		}
	}
	jobs = append(jobs, newJob("LinearRegressor", []hx.Attr{hx.AFloats("coefficients", 1, 2), hx.AInt("targets", 1), hx.AStr("post_transform", "SOFTMAX")}, []*ref.T{linFill(ref.F32, []int{1, 2}, 0)}, nil, ref.Invalid("post_transform unsupported"), hx.DError, hx.Dot, "op", nil, "post_transform"))
	// ---------------- Scaler
	for _, fb := range seqs([]int64{1, 2, 3}, 2, 2) {
		F, Nb := int(fb[0]), int(fb[1])
		for _, ol := range []int{F, 1, F + 1} {
			for _, sl := range []int{F, 1, F + 1} {
				off, sc := make([]float32, ol), make([]float32, sl)
				for i := range off {
					off[i] = float32(i)*0.75 - 0.5
				}
				for i := range sc {
					sc[i] = float32(i+1)*1.5 - 2.25
				}
				attrs := []hx.Attr{hx.AFloats("offset", off...), hx.AFloats("scale", sc...)}
				for _, xs := range [][]int{{Nb, F}, {F}, {2, Nb, F}} {
					for _, dt := range gateDTs("Scaler", 0) {
						if dt != ref.F32 && (len(xs) != 2 || ol != F) {
							continue
						}
						X := linFill(dt, xs, 6)
						xf := ref.Fill(ref.F32, xs, func(i int) float64 { return X.AsFloat(i) })
						exp, err := ref.Scaler(xf, off, sc)
						dom := hx.DCompute
						if dt != ref.F32 {
							dom = hx.DRefuse
						}
						extra := []string{fmt.Sprintf("xrank=%d", len(xs))}
						jobs = append(jobs, newJob("Scaler", attrs, []*ref.T{X}, []*ref.T{exp}, err, dom, hx.Bits, "op", nil, fmt.Sprintf("F=%d x%v off=%d sc=%d", F, xs, ol, sl), extra...))
						if dt == ref.F32 && len(xs) == 2 {
							jobs = append(jobs, newJob("Scaler", attrs, []*ref.T{X}, []*ref.T{exp}, err, dom, hx.Bits, "model", nil, fmt.Sprintf("F=%d x%v off=%d sc=%d", F, xs, ol, sl), extra...))
						}
					}
				}
			}
		}
	}
	runOpJobs(c, jobs)
	runReuseJobs(c, jobs)
}
