// mc — bounded-exhaustive explorers for the gonnx properties.
//
//	mc check C14 --tier quick|thorough
//	mc replay <file>
package main

import (
	"fmt"
	"os"
	"sort"

	"verifmc/hx"
)

type checkFn func(c *hx.Checker)

type checkDef struct {
	level string
	fn    checkFn
}

var checks = map[string]checkDef{}

func register(prop, level string, fn checkFn) { checks[prop] = checkDef{level, fn} }

func main() {
	if len(os.Args) < 2 {
		usage()
	}
	switch os.Args[1] {
	case "check":
		if len(os.Args) < 3 {
			usage()
		}
		prop := os.Args[2]
		tier := os.Getenv("VERIF_TIER")
		for i := 3; i < len(os.Args); i++ {
			if os.Args[i] == "--tier" && i+1 < len(os.Args) {
				tier = os.Args[i+1]
			}
			if os.Args[i] == "quick" || os.Args[i] == "thorough" {
				tier = os.Args[i]
			}
		}
		if tier != "thorough" {
			tier = "quick"
		}
		def, ok := checks[prop]
		if !ok {
			fmt.Printf("HARNESS-ERROR: unknown check %s\n", prop)
			os.Exit(2)
		}
		selfCheck()
		warmAllOperators()
		c := hx.NewChecker(prop, tier, def.level)
		def.fn(c)
		os.Exit(c.Finish())
	case "replay":
		if len(os.Args) < 3 {
			usage()
		}
		os.Exit(replayFile(os.Args[2]))
	case "list":
		var ks []string
		for k := range checks {
			ks = append(ks, k)
		}
		sort.Strings(ks)
		for _, k := range ks {
			fmt.Println(k, checks[k].level)
		}
	case "globals":
		globalsMain()
	case "c17-race":
		c17RaceMain()
	case "probe-views":
		probeViewsMain()
	case "c17-globals":
		c17GlobalsMain()
	case "probe-dtypes":
		probeDtypesMain()
	case "c17-subjects":
		for _, s := range c17AllSubjects(true) {
			fmt.Println(s.Name)
		}
	case "c17-cold":
		if len(os.Args) < 4 {
			usage()
		}
		c17ColdMain(os.Args[2], os.Args[3])
	case "selfcheck":
		selfCheck()
		fmt.Println("selfcheck ok")
	default:
		usage()
	}
}

func usage() {
	fmt.Println("usage: mc check <Cxx> [quick|thorough] | mc replay <file> | mc list | mc selfcheck")
	os.Exit(2)
}
