package main

import (
	"fmt"
	"math"

	"github.com/advancedclimatesystems/gonnx/ops/opset13"
	"verifmc/hx"
	"verifmc/ref"
)

// C03 — elementwise binary operators with ONNX broadcasting.

var binaryOps = []string{"Add", "Sub", "Mul", "Div", "Equal", "Greater", "GreaterOrEqual", "Less", "LessOrEqual", "And", "Or", "Xor"}

func init() { register("C03", "exploration", checkC03) }

func gateDTs(op string, pos int) []ref.DT {
	o, err := opset13.GetOperator(op)
	if err != nil {
		hx.HarnessError("operator %s not registered: %v", op, err)
	}
	tc := o.GetInputTypeConstraints()
	if pos >= len(tc) {
		return nil
	}
	var out []ref.DT
	for _, d := range ref.AllDT {
		for _, g := range tc[pos] {
			if g == hx.GDtype(d) {
				out = append(out, d)
			}
		}
	}
	return out
}

func isArith(op string) bool { return op == "Add" || op == "Sub" || op == "Mul" || op == "Div" }
func isLogic(op string) bool { return op == "And" || op == "Or" || op == "Xor" }

// binaryDomain transcribes the C03 statement.
func binaryDomain(op string, dt ref.DT, compatible bool, refErr error) hx.Domain {
	if !compatible {
		return hx.DError
	}
	if refErr != nil { // the operation is not defined by ONNX on this type (ordering of bool/complex/string): only "no panic"
		return hx.DNoPanic
	}
	if isLogic(op) {
		if dt == ref.Bool {
			return hx.DCompute
		}
		return hx.DRefuse
	}
	switch dt {
	case ref.F32, ref.F64, ref.I32, ref.I64:
		return hx.DCompute
	}
	return hx.DRefuse
}

func binaryFill(dt ref.DT, shape []int, salt int) *ref.T {
	return ref.Fill(dt, shape, func(i int) float64 {
		k := float64(i*2 + 1 + salt)
		switch {
		case dt == ref.Bool:
			return float64((i*i + i/2 + 1 + salt) % 2)
		case dt == ref.F64:
			return k*0.75 - 3 + 1e-7/3 // not representable in float32
		case dt.IsFloat():
			return k*0.75 - 3
		case dt.IsSigned():
			return k - 4
		default:
			return k
		}
	})
}

func checkC03(c *hx.Checker) {
	c.Rule = "12 operators x all ordered shape pairs of Box(rank 0..4 [quick 0..3], extents {1,2,3}) on the main type (float32; bool for logic) with distinct fills; " +
		"x every dtype of the operator's gate on the rank<=2 extents {1,2} sub-box (49 pairs); x all ordered value pairs of the special-value alphabet per dtype on shapes (n*n)x(n*n) and (n,1)x(1,n); " +
		"Operator API route everywhere, single-node Model.Run route on the rank<=2 sub-box. non-trivial = shapes differ (some axis stretched/padded) or special-value pair case; " +
		"integer division by zero and MIN/-1 excluded (ONNX-undefined)"
	c.Assumptions = []string{"reference: Go native float32/float64/intN arithmetic per element (IEEE-754 single operation, wrap-around, truncating division)",
		"ordering comparisons on bool/complex/string are not defined by ONNX: only 'no panic' is asserted there", "mixed operand dtypes are outside the statement, except float32 against float64 in comparisons: refused, or decided on the values held"}
	var jobs []opJob
	addCase := func(op string, a, b *ref.T, route string, nt bool, extra ...string) {
		exp, err := ref.Binary(op, a, b)
		_, compat := ref.BroadcastShape(a.Shape, b.Shape)
		dom := binaryDomain(op, a.DT, compat, err)
		if compat && err != nil && dom != hx.DNoPanic {
			return
		}
		var exps []*ref.T
		if exp != nil {
			exps = []*ref.T{exp}
		}
		oc := &hx.OpCase{Op: op, Inputs: tjs(a, b), NOut: 1, Route: route}
		tags := append([]string{"op=" + op, "dtype=" + a.DT.String(), "route=" + route, "domain=" + string(dom)}, extra...)
		if len(a.Shape) == 0 || len(b.Shape) == 0 {
			tags = append(tags, "scalar-operand")
		}
		id := fmt.Sprintf("%s/%s/%s/%v/%v/%s", op, a.DT, route, a.Shape, b.Shape, fmt.Sprint(extra))
		cmp := hx.Bits
		jobs = append(jobs, opJob{id: id, tags: tags, nt: nt, oc: oc, dom: dom, exp: exps, cmp: cmp})
	}
	maxRank := 3
	if c.Tier == "thorough" {
		maxRank = 4
	}
	box := ref.Box(0, maxRank, []int{1, 2, 3})
	sub := ref.Box(0, 2, []int{1, 2})
	for _, op := range binaryOps {
		main := ref.F32
		if isLogic(op) {
			main = ref.Bool
		}
		for _, sa := range box {
			for _, sb := range box {
				addCase(op, binaryFill(main, sa, 0), binaryFill(main, sb, 5), "op", !ref.ShapeEq(sa, sb))
			}
		}
		// larger operands, among them element counts just above powers of two that are no multiple of 2, 4 or 8
		// (kernels that split the work into blocks)
		for _, lp := range [][2][]int{{{8, 1, 6, 1}, {7, 1, 5}}, {{33}, {4, 1}}, {{2, 3, 4, 5}, {5}}, {{1, 64}, {64, 1}},
			{{1025}, {1025}}, {{1027}, {1}}, {{}, {1029}}, {{1, 205}, {5, 1}}, {{4099}, {4099}}, {{3, 1367}, {1367}}, {{32771}, {32771}}, {{65539}, {1}}, {{7, 1, 9363}, {1, 1, 9363}},
			// and exact multiples of the usual block sizes (a remainder computed as n % block is 0 there)
			{{2048}, {2048}}, {{64, 64}, {64, 64}}, {{8192}, {1}}, {{2, 32768}, {32768}}, {{65536}, {65536}}, {{3, 4096}, {3, 1}},
			// a row against a column (both stretched), large enough for blocked kernels, in both orders
			{{200}, {130, 1}}, {{130, 1}, {200}}, {{1, 200}, {130, 1}}, {{3, 1, 100}, {1, 70, 1}},
			// a small FIRST operand stretched to a large result (the stretched copy is private to the call: tempting to reuse)
			{{1}, {20000}}, {{}, {16384}}, {{3, 1}, {3, 7000}}, {{1, 1}, {130, 131}}, {{2, 1, 1}, {2, 96, 96}},
			// per-channel and per-sample partners of feature maps (N,C,H,W)
			{{2, 3, 8, 8}, {2, 3, 1, 1}}, {{2, 3, 8, 8}, {3, 1, 1}}, {{2, 3, 8, 8}, {1, 3, 1, 1}}, {{2, 3, 8, 8}, {2, 1, 1, 1}}, {{2, 3, 9, 11}, {2, 3, 1, 1}}, {{2, 3, 8, 8}, {3, 3, 1, 1}}, {{2, 3, 1, 1}, {2, 3, 8, 8}}} {
			addCase(op, binaryFill(main, lp[0], 1), binaryFill(main, lp[1], 4), "op", true, "large")
		}
		for _, dt := range gateDTs(op, 0) {
			for _, sa := range sub {
				for _, sb := range sub {
					if dt != main {
						addCase(op, binaryFill(dt, sa, 0), binaryFill(dt, sb, 5), "op", !ref.ShapeEq(sa, sb))
					}
					if dt.IsNumeric() || dt == ref.Bool {
						addCase(op, binaryFill(dt, sa, 0), binaryFill(dt, sb, 5), "model", !ref.ShapeEq(sa, sb))
					}
				}
			}
			// special values: all ordered pairs
			var alpha []uint64
			switch {
			case dt.IsFloat():
				alpha = ref.SpecialFloats(dt)
			case dt.IsInt():
				alpha = ref.SpecialInts(dt)
			case dt == ref.Bool:
				alpha = []uint64{0, 1}
			default:
				alpha = []uint64{0, 1, 2}
			}
			n := len(alpha)
			var pa, pb, za, zb, pza, pzb []uint64
			for i := 0; i < n; i++ {
				for j := 0; j < n; j++ {
					if op == "Div" && dt.IsInt() {
						if alpha[j] == 0 {
							continue
						}
						if dt.IsSigned() && int64(alpha[j]) == -1 && int64(alpha[i]) == int64(-1)<<(uint(dt.Bits())-1) {
							continue
						}
					}
					if op == "Div" && dt.IsFloat() && ref.DecF(dt, alpha[j]) == 0 {
						// x / ±0 is kept in cases of their own (so a finding there cannot mask other pairs): pairs whose
						// IEEE quotient is +Inf - what the pinned kernel answers for every zero divisor (KF-C03-1), so
						// these must keep passing - apart from the pairs whose quotient is -Inf or NaN
						x, neg0 := ref.DecF(dt, alpha[i]), alpha[j] != 0
						if !math.IsNaN(x) && x != 0 && (x < 0) == neg0 {
							pza = append(pza, alpha[i])
							pzb = append(pzb, alpha[j])
						} else {
							za = append(za, alpha[i])
							zb = append(zb, alpha[j])
						}
						continue
					}
					pa = append(pa, alpha[i])
					pb = append(pb, alpha[j])
				}
			}
			addCase(op, &ref.T{DT: dt, Shape: []int{len(pa)}, V: pa}, &ref.T{DT: dt, Shape: []int{len(pb)}, V: pb}, "op", true, "special-values")
			if op == "Div" && dt.IsInt() {
				// integer division by zero / MIN by -1: undefined in ONNX, so the outcome is free - but it is either an
				// error or tensors, never a panic and never "success" with a nil result (op and model route)
				num := &ref.T{DT: dt, Shape: []int{3}, V: []uint64{ref.EncI(dt, 7), ref.EncI(dt, 0), alpha[len(alpha)-1]}}
				den := &ref.T{DT: dt, Shape: []int{3}, V: []uint64{ref.EncI(dt, 0), ref.EncI(dt, 0), ref.EncI(dt, 0)}}
				for _, rt := range []string{"op", "model"} {
					oc := &hx.OpCase{Op: op, Inputs: tjs(num, den), NOut: 1, Route: rt}
					jobs = append(jobs, opJob{id: fmt.Sprintf("Div/%s/%s/integer-division-by-zero", dt, rt), tags: []string{"op=Div", "dtype=" + dt.String(), "route=" + rt, "domain=nopanic", "int-div-by-zero"}, nt: true, oc: oc, dom: hx.DNoPanic, cmp: hx.Bits})
				}
			}
			// x OP x with one and the same tensor object (a node whose two inputs carry the same name);
			// float x/x contains 0/0, the recorded Div-by-zero finding, and integer x/x divides by zero: skipped
			if op != "Div" {
				self := &ref.T{DT: dt, Shape: []int{n}, V: alpha}
				exp, rerr := ref.Binary(op, self, self)
				dom := binaryDomain(op, dt, true, rerr)
				var exps []*ref.T
				if exp != nil {
					exps = []*ref.T{exp}
				}
				for _, rt := range []string{"op-same", "model-same"} {
					if rt == "model-same" && !(dt.IsNumeric() || dt == ref.Bool) {
						continue
					}
					jobs = append(jobs, opJob{id: fmt.Sprintf("%s/%s/self-operand/%s", op, dt, rt), tags: []string{"op=" + op, "dtype=" + dt.String(), "self-operand", "route=" + rt, "domain=" + string(dom)}, nt: true,
						oc: &hx.OpCase{Op: op, Inputs: tjs(self, self), NOut: 1, Route: rt}, dom: dom, exp: exps, cmp: hx.Bits})
				}
			}
			// one special value as a single-element operand (shape (1) and rank 0) against the whole alphabet,
			// on either side (kernels with a dedicated scalar-operand path)
			for j := 0; j < n; j++ {
				for _, one := range [][]int{{1}, {}} {
					single := &ref.T{DT: dt, Shape: one, V: []uint64{alpha[j]}}
					// A = alphabet, B = single
					va := append([]uint64{}, alpha...)
					extra := []string{"special-values", "single-operand"}
					skip := false
					if op == "Div" && dt.IsInt() {
						if alpha[j] == 0 {
							skip = true
						}
						if dt.IsSigned() && int64(alpha[j]) == -1 {
							va = va[:0]
							for _, x := range alpha {
								if int64(x) != int64(-1)<<(uint(dt.Bits())-1) {
									va = append(va, x)
								}
							}
						}
					}
					if op == "Div" && dt.IsFloat() && ref.DecF(dt, alpha[j]) == 0 {
						var good, rest []uint64
						for _, xv := range va {
							x := ref.DecF(dt, xv)
							if !math.IsNaN(x) && x != 0 && (x < 0) == (alpha[j] != 0) {
								good = append(good, xv)
							} else {
								rest = append(rest, xv)
							}
						}
						addCase(op, &ref.T{DT: dt, Shape: []int{len(good)}, V: good}, single, "op", true, append(extra, "zero-divisor-quotient-is-+inf")...)
						va = rest
						extra = append(extra, "float-div-by-zero")
					}
					if !skip {
						addCase(op, &ref.T{DT: dt, Shape: []int{len(va)}, V: va}, single, "op", true, extra...)
					}
					// A = single, B = alphabet (divisors: zero and the MIN/-1 combination removed)
					vb := append([]uint64{}, alpha...)
					if op == "Div" {
						vb = vb[:0]
						for _, x := range alpha {
							if dt.IsInt() && (x == 0 || (dt.IsSigned() && int64(x) == -1 && int64(alpha[j]) == int64(-1)<<(uint(dt.Bits())-1))) {
								continue
							}
							if dt.IsFloat() && ref.DecF(dt, x) == 0 {
								continue
							}
							vb = append(vb, x)
						}
					}
					if len(vb) > 0 {
						addCase(op, single, &ref.T{DT: dt, Shape: []int{len(vb)}, V: vb}, "op", true, "special-values", "single-operand")
					}
				}
			}
			if len(pza) > 0 {
				addCase(op, &ref.T{DT: dt, Shape: []int{len(pza)}, V: pza}, &ref.T{DT: dt, Shape: []int{len(pzb)}, V: pzb}, "op", true, "special-values", "zero-divisor-quotient-is-+inf")
			}
			if len(za) > 0 {
				addCase(op, &ref.T{DT: dt, Shape: []int{len(za)}, V: za}, &ref.T{DT: dt, Shape: []int{len(zb)}, V: zb}, "op", true, "special-values", "float-div-by-zero")
			}
			if !(op == "Div") {
				addCase(op, &ref.T{DT: dt, Shape: []int{n, 1}, V: alpha}, &ref.T{DT: dt, Shape: []int{1, n}, V: alpha}, "op", true, "special-values", "outer")
			}
		}
	}
	// comparisons of an int64 with a uint64 operand beyond 2^53 (no ONNX type; refused on the pinned tree): refused, or
	// decided on the integers held
	for _, op := range []string{"Less", "Greater", "Equal", "LessOrEqual", "GreaterOrEqual"} {
		for _, i64First := range []bool{true, false} {
			xs := []int64{1<<53 + 1, 1 << 53, 1<<62 + 1, -1, 0, math.MaxInt64}
			ys := []uint64{1 << 53, 1<<53 + 1, 1 << 62, 1<<64 - 1, 0, 1 << 63}
			a := ref.FromI(ref.I64, []int{len(xs)}, xs...)
			b := ref.New(ref.U64, len(ys))
			copy(b.V, ys)
			exp := ref.New(ref.Bool, len(xs))
			for i := range xs {
				// compare as mathematical integers
				cmp := 0
				switch {
				case xs[i] < 0:
					cmp = -1
				case uint64(xs[i]) < ys[i]:
					cmp = -1
				case uint64(xs[i]) > ys[i]:
					cmp = 1
				}
				if !i64First {
					cmp = -cmp
				}
				v := map[string]bool{"Less": cmp < 0, "Greater": cmp > 0, "Equal": cmp == 0, "LessOrEqual": cmp <= 0, "GreaterOrEqual": cmp >= 0}[op]
				if v {
					exp.V[i] = 1
				}
			}
			ins := tjs(a, b)
			if !i64First {
				ins = tjs(b, a)
			}
			oc := &hx.OpCase{Op: op, Inputs: ins, NOut: 1, Route: "op"}
			jobs = append(jobs, opJob{id: fmt.Sprintf("%s/mixed-int64-uint64/i64first=%v", op, i64First), tags: []string{"op=" + op, "mixed-integer-types", "domain=" + string(hx.DRefuse)}, nt: true, oc: oc, dom: hx.DRefuse, exp: []*ref.T{exp}, cmp: hx.Bits})
		}
	}
	// comparisons of a float32 with a float64 operand (no ONNX type, refused on the pinned tree): refused, or decided on
	// the VALUES the operands hold - 0.1f is larger than 0.1, 16777216f is larger than 16777215.5
	for _, op := range []string{"Greater", "Less", "GreaterOrEqual", "LessOrEqual", "Equal"} {
		for _, f32First := range []bool{true, false} {
			xs := []float64{0.1, 16777216, -0.1, 1, 3.0000001, 1e-46, 0.5}
			ys := []float64{0.1, 16777215.5, -0.1, 1, 3, 0, 0.5000000001}
			a := ref.FromF(ref.F32, []int{len(xs)}, xs...)
			b := ref.FromF(ref.F64, []int{len(ys)}, ys...)
			exp := ref.New(ref.Bool, len(xs))
			for i := range xs {
				l, r := a.F(i), b.F(i)
				if !f32First {
					l, r = r, l
				}
				var v bool
				switch op {
				case "Greater":
					v = l > r
				case "Less":
					v = l < r
				case "GreaterOrEqual":
					v = l >= r
				case "LessOrEqual":
					v = l <= r
				case "Equal":
					v = l == r
				}
				if v {
					exp.V[i] = 1
				}
			}
			ins := tjs(a, b)
			if !f32First {
				ins = tjs(b, a)
			}
			oc := &hx.OpCase{Op: op, Inputs: ins, NOut: 1, Route: "op"}
			jobs = append(jobs, opJob{id: fmt.Sprintf("%s/mixed-float32-float64/f32first=%v", op, f32First), tags: []string{"op=" + op, "mixed-float-types", "domain=" + string(hx.DRefuse)}, nt: true, oc: oc, dom: hx.DRefuse, exp: []*ref.T{exp}, cmp: hx.Bits})
		}
	}
	runOpJobs(c, jobs)
	runReuseJobs(c, jobs)
}
