package main

import (
	"bytes"
	"encoding/base64"
	"encoding/json"
	"fmt"
	"math"
	"runtime/debug"

	gonnx "github.com/advancedclimatesystems/gonnx"
	"github.com/advancedclimatesystems/gonnx/onnx"
	"google.golang.org/protobuf/proto"
	"gorgonia.org/tensor"
	"verifmc/hx"
	"verifmc/ref"
)

// C12 — weights decode to their declared shape, type and exact values, or are refused.

type tpCase struct {
	ReplayKind string `json:"replay_kind"`
	TP         string `json:"tensorproto_b64"`
	Via        string `json:"via"`    // direct | initializer | initializer-as-input | constant
	Expect     string `json:"expect"` // exact | error | exact-or-error
	Expected   *hx.TJ `json:"expected,omitempty"`
	Desc       string `json:"desc"`
}

func init() {
	register("C12", "fault_enumeration", checkC12)
	replayers["tensorproto"] = func(raw json.RawMessage) *hx.Violation {
		var c tpCase
		if err := json.Unmarshal(raw, &c); err != nil {
			return &hx.Violation{Kind: "bad-replay", Detail: err.Error()}
		}
		return c.run()
	}
}

func (c *tpCase) run() (v *hx.Violation) {
	mk := func(kind, detail string) *hx.Violation { return &hx.Violation{Kind: kind, Detail: detail, Replay: c} }
	b, _ := base64.StdEncoding.DecodeString(c.TP)
	tp := &onnx.TensorProto{}
	if err := proto.Unmarshal(b, tp); err != nil {
		return mk("bad-replay", err.Error())
	}
	var got tensor.Tensor
	var err error
	func() {
		defer func() {
			if p := recover(); p != nil {
				v = mk("panic", fmt.Sprintf("%v :: %s", p, firstLines(string(debug.Stack()), 14)))
			}
		}()
		switch c.Via {
		case "direct":
			got, err = onnx.TensorFromProto(tp)
			if after, _ := proto.Marshal(tp); !bytes.Equal(after, b) && v == nil {
				v = mk("mutated-input", "TensorFromProto changed the TensorProto it decoded (it marshals to other bytes afterwards)")
			}
			if err == nil && v == nil {
				// decoding the same proto again gives the same tensor
				again, err2 := onnx.TensorFromProto(tp)
				g1, _ := hx.FromG(got)
				g2, _ := hx.FromG(again)
				if err2 != nil || g1 == nil || g2 == nil {
					v = mk("history-dependent", fmt.Sprintf("decoding the same TensorProto a second time fails: %v", err2))
				} else if k, d := hx.CompareT(g2, g1, hx.Bits); k != "" {
					v = mk("history-dependent", "decoding the same TensorProto a second time gives another tensor: "+d)
				}
			}
		case "initializer", "initializer-as-input", "initializer-unnamed":
			tp.Name = "w"
			g := &onnx.GraphProto{Name: "g", Initializer: []*onnx.TensorProto{tp}, Output: []*onnx.ValueInfoProto{hx.ValueInfoNoShape("w")}}
			if c.Via == "initializer-unnamed" {
				// an initializer without a name next to the named one: nothing can refer to it, it is still part of the
				// file and decoded like every other (judged only where the payload must be refused)
				un := proto.Clone(tp).(*onnx.TensorProto)
				un.Name = ""
				good := hx.TensorProto("w", ref.FromF(ref.F32, []int{1}, 1), "raw")
				g.Initializer = []*onnx.TensorProto{un, good}
			}
			if c.Via == "initializer-as-input" {
				// the initializer is also listed as a graph input (a default the caller may override): it is decoded,
				// and refused when damaged, all the same
				g.Input = []*onnx.ValueInfoProto{hx.ValueInfoNoShape("w")}
				if len(tp.Dims) > 0 && len(tp.Dims) <= 4 && c.Expect == "exact" {
					// declared with symbolic dimensions of the default's rank: the default fits any such declaration
					dt := ref.F32
					if e := c.Expected.T(); e != nil {
						dt = e.DT
					}
					g.Input = []*onnx.ValueInfoProto{hx.ValueInfo("w", dt, hx.SymbolicDims(len(tp.Dims), "rows"))}
				}
			}
			var m *gonnx.Model
			// loaded from a proto the caller keeps: the proto is left as it is and can be loaded again
			mp := hx.Model(g, 13)
			before := hx.Marshal(mp)
			m, err = gonnx.NewModel(mp)
			if after := hx.Marshal(mp); !bytes.Equal(after, before) && v == nil {
				v = mk("mutated-input", "NewModel changed the ModelProto the caller handed in (it marshals to other bytes afterwards)")
			}
			if err == nil && v == nil {
				if _, err2 := gonnx.NewModel(mp); err2 != nil {
					v = mk("history-dependent", "a second NewModel on the same ModelProto is refused: "+err2.Error())
				}
			}
			if err == nil {
				var outs gonnx.Tensors
				outs, err = m.Run(gonnx.Tensors{})
				if err == nil {
					got = outs["w"]
					if got == nil {
						err = fmt.Errorf("output w nil")
						v = mk("nil-output", "graph output that is the initializer came back nil")
					}
				}
			}
		case "constant-of-shape":
			// the tensor is the one-element `value` attribute: the output (2 elements) must repeat it with its type
			g := &onnx.GraphProto{Name: "g", Initializer: []*onnx.TensorProto{hx.TensorProto("shape", ref.I64Vec(2), "raw")},
				Node:   []*onnx.NodeProto{{OpType: "ConstantOfShape", Input: []string{"shape"}, Output: []string{"c"}, Attribute: []*onnx.AttributeProto{{Name: "value", Type: onnx.AttributeProto_TENSOR, T: tp}}}},
				Output: []*onnx.ValueInfoProto{hx.ValueInfoNoShape("c")}}
			var m *gonnx.Model
			m, err = gonnx.NewModelFromBytes(hx.Marshal(hx.Model(g, 13)))
			if err == nil {
				var outs gonnx.Tensors
				outs, err = m.Run(gonnx.Tensors{})
				if err == nil {
					got = outs["c"]
				}
			}
		case "constant":
			g := &onnx.GraphProto{Name: "g", Node: []*onnx.NodeProto{{OpType: "Constant", Output: []string{"c"}, Attribute: []*onnx.AttributeProto{{Name: "value", Type: onnx.AttributeProto_TENSOR, T: tp}}}},
				Output: []*onnx.ValueInfoProto{hx.ValueInfoNoShape("c")}}
			var m *gonnx.Model
			m, err = gonnx.NewModelFromBytes(hx.Marshal(hx.Model(g, 13)))
			if err == nil {
				var outs gonnx.Tensors
				outs, err = m.Run(gonnx.Tensors{})
				if err == nil {
					got = outs["c"]
				}
			}
		}
	}()
	if v != nil {
		return v
	}
	if err != nil {
		if c.Expect == "exact" {
			return mk("refused", "valid payload refused: "+err.Error())
		}
		return hx.OK("refused")
	}
	if c.Expect == "error" {
		gt, _ := hx.FromG(got)
		return mk("not-refused", fmt.Sprintf("malformed / unrepresentable payload was loaded as %v", gt))
	}
	gt, rerr := hx.FromG(got)
	if rerr != nil {
		return mk("unreadable-output", rerr.Error())
	}
	if gt == nil {
		return mk("nil-output", "decoded tensor is nil")
	}
	if k, d := hx.CompareT(gt, c.Expected.T(), hx.Cmp{Mode: "bits-exact"}); k != "" {
		return mk(k, d)
	}
	// NaN payloads must survive bit for bit: CompareT treats NaNs as equal, so compare raw bits too
	e := c.Expected.T()
	for i := range e.V {
		if gt.V[i] != e.V[i] {
			return mk("wrong-value", fmt.Sprintf("element %d bits %#x, expected %#x", i, gt.V[i], e.V[i]))
		}
	}
	return hx.OK("exact")
}

func firstLines(s string, n int) string {
	out, cnt := "", 0
	for _, r := range s {
		if r == '\n' {
			cnt++
			if cnt >= n {
				break
			}
			out += " | "
			continue
		}
		if r != '\t' {
			out += string(r)
		}
	}
	return out
}

func tpB64(tp *onnx.TensorProto) string {
	b, _ := proto.Marshal(tp)
	return base64.StdEncoding.EncodeToString(b)
}

func patternFill(dt ref.DT, sh []int, rot int) *ref.T {
	t := ref.New(dt, sh...)
	var alpha []uint64
	switch {
	case dt.IsFloat():
		alpha = ref.SpecialFloats(dt)
	case dt == ref.Bool:
		alpha = []uint64{1, 0, 0, 1, 1}
	default:
		alpha = append(ref.SpecialInts(dt), ref.EncI(dt, 0x12345678), ref.EncI(dt, -0x1234567))
	}
	for i := range t.V {
		t.V[i] = alpha[(i*5+rot)%len(alpha)]
	}
	return t
}

func checkC12(c *hx.Checker) {
	thorough := c.Tier == "thorough"
	c.Rule = "11 storable element types x {typed field, raw little-endian} x all shapes of Box(rank 0..4 [quick 0..3], extents {1,2,3}) with rotating special bit patterns (NaN payloads, extremes, negatives) + every value of 8/16-bit types (all 256 / 65536) + structured 32/64-bit alphabets; " +
		"payload faults per (type, encoding, shape): raw length -1 byte, -1 element, +1 byte, +1 element, empty, doubled; typed field -1 element, +1 element, empty; both encodings populated; the type's own typed field too short and a stray second typed field making up the count; several initializers with identical payload bytes but different dims / types in one model (4 .. 65 536 elements); negative / zero dims; every other data_type code 0..22 and 99 with each typed field (and raw) populated; " +
		"observed at onnx.TensorFromProto, as initializer returned by a zero-node model (NewModelFromBytes + Run; for 8 sizes also NewModelFromFile and NewModelFromZipFile with stored / deflated entries), as Constant value and as the one-element value attribute of ConstantOfShape (rank 0, 1, 2). non-trivial = every case (distinct (type, encoding, shape/fault, observation point))"
	c.Assumptions = []string{"reference decoder: declared dims x declared type, typed carriers per the ONNX TensorProto comments (int32_data for (u)int8/16, int32, bool; uint64_data for uint32/64), raw = little-endian fixed width; element count must equal the dims product exactly",
		"typed carrier values are in range of the element type (as in valid files); bool carriers are 0/1"}
	var cases []tpCase
	var tags [][]string
	add := func(tp *onnx.TensorProto, expect string, exp *ref.T, desc string, tg ...string) {
		vias := []string{"direct", "initializer", "initializer-as-input", "constant"}
		if expect == "error" {
			vias = append(vias, "initializer-unnamed")
		}
		for _, via := range vias {
			cases = append(cases, tpCase{ReplayKind: "tensorproto", TP: tpB64(tp), Via: via, Expect: expect, Expected: hx.ToTJ(exp), Desc: desc + " via " + via})
			tags = append(tags, append([]string{"via=" + via, "expect=" + expect}, tg...))
		}
	}
	maxRank := 3
	if thorough {
		maxRank = 4
	}
	box := ref.Box(0, maxRank, []int{1, 2, 3})
	for _, dt := range storable {
		for _, enc := range []string{"typed", "raw"} {
			base := []string{"dtype=" + dt.String(), "enc=" + enc}
			for si, sh := range box {
				t := patternFill(dt, sh, si)
				add(hx.TensorProto("", t, enc), "exact", t, fmt.Sprintf("%s/%s/%v", dt, enc, sh), base...)
			}
			// all values of small types / structured alphabets
			var all []uint64
			switch {
			case dt.Bits() <= 16 && dt != ref.Bool:
				all = ref.CastAlphabet(dt)
			case dt.IsFloat():
				all = ref.StructuredFloats(dt)
				all = append(all, ref.SpecialFloats(dt)...)
				if dt == ref.F32 {
					all = append(all, 0x7fc00001, 0x7f800001, 0xffc12345, 0x7fffffff)
				} else {
					all = append(all, 0x7ff8000000000001, 0x7ff0000000000001, 0xfff8000012345678, 0x7fffffffffffffff)
				}
			case dt == ref.Bool:
				all = []uint64{0, 1, 1, 0}
			default:
				all = ref.CastAlphabet(dt)
			}
			tall := &ref.T{DT: dt, Shape: []int{len(all)}, V: all}
			add(hx.TensorProto("", tall, enc), "exact", tall, fmt.Sprintf("%s/%s/all-values(%d)", dt, enc, len(all)), append(base, "all-values")...)
			if dt == ref.Bool && enc == "raw" {
				// raw BOOL bytes other than 0 and 1 (masks written as 0xFF, flag bytes): every non-zero byte is true
				tp := hx.TensorProto("", &ref.T{DT: ref.Bool, Shape: []int{6}, V: []uint64{0, 1, 1, 1, 1, 0}}, "raw")
				tp.RawData = []byte{0, 1, 2, 0xff, 0x80, 0}
				exp := &ref.T{DT: ref.Bool, Shape: []int{6}, V: []uint64{0, 1, 1, 1, 1, 0}}
				add(tp, "exact", exp, "bool/raw/non-canonical-true-bytes", append(base, "non-canonical-bool-bytes")...)
			}
			// larger payloads with odd element counts (decoders that split the work into blocks)
			for _, sh := range [][]int{{1027}, {4099}, {3, 1367}, {32771}, {65539}, {7, 9363}} {
				t := patternFill(dt, sh, len(sh)+sh[0])
				add(hx.TensorProto("", t, enc), "exact", t, fmt.Sprintf("%s/%s/large%v", dt, enc, sh), append(base, "large")...)
			}
			// payload faults
			for _, sh := range [][]int{{}, {1}, {3}, {2, 2}, {1, 2, 3}} {
				t := patternFill(dt, sh, 2)
				n := len(t.V)
				w := dt.Bits() / 8
				if enc == "raw" {
					raw := hx.RawBytes(t)
					faults := map[string][]byte{"raw-1byte": raw[:len(raw)-1], "raw+1byte": append(append([]byte{}, raw...), 0x3f), "raw+1elem": append(append([]byte{}, raw...), raw[:w]...), "raw-empty": {}, "raw-doubled": append(append([]byte{}, raw...), raw...)}
					if n > 1 {
						faults["raw-1elem"] = raw[:len(raw)-w]
					}
					// every number of surplus bytes short of a whole element
					for k := 2; k < w; k++ {
						faults[fmt.Sprintf("raw+%dbytes", k)] = append(append([]byte{}, raw...), raw[:k]...)
					}
					for name, fb := range faults {
						tp := hx.TensorProto("", t, "raw")
						tp.RawData = fb
						add(tp, "error", nil, fmt.Sprintf("%s/raw/%v/%s", dt, sh, name), append(base, "fault="+name, "payload-count-mismatch")...)
						// the same damaged raw payload next to a populated typed field that this type does not read (two
						// irregularities at once: a length check that is skipped when "some typed field is in use")
						if name == "raw-empty" {
							continue
						}
						ownTP := hx.TensorProto("", t, "typed")
						ownCarrier := map[bool]string{true: "float"}[len(ownTP.FloatData) > 0] + map[bool]string{true: "double"}[len(ownTP.DoubleData) > 0] +
							map[bool]string{true: "int32"}[len(ownTP.Int32Data) > 0] + map[bool]string{true: "int64"}[len(ownTP.Int64Data) > 0] + map[bool]string{true: "uint64"}[len(ownTP.Uint64Data) > 0]
						for _, stray := range []string{"float", "int32", "int64", "double", "uint64", "string"} {
							if stray == ownCarrier {
								continue // that would be this type's own typed encoding, not a stray field
							}
							tp := hx.TensorProto("", t, "raw")
							tp.RawData = fb
							switch stray {
							case "float":
								tp.FloatData = []float32{1}
							case "int32":
								tp.Int32Data = []int32{1}
							case "int64":
								tp.Int64Data = []int64{1}
							case "double":
								tp.DoubleData = []float64{1}
							case "uint64":
								tp.Uint64Data = []uint64{1}
							case "string":
								tp.StringData = [][]byte{[]byte("x")}
							}
							add(tp, "error", nil, fmt.Sprintf("%s/raw/%v/%s+stray-%s", dt, sh, name, stray), append(base, "fault="+name+"+stray-field", "payload-count-mismatch")...)
						}
					}
				} else {
					for name, k := range map[string]int{"typed-1elem": n - 1, "typed+1elem": n + 1, "typed+3elem": n + 3} {
						if k < 1 {
							continue
						}
						t2 := patternFill(dt, []int{k}, 2)
						tp := hx.TensorProto("", t2, "typed")
						tp.Dims = nil
						for _, d := range sh {
							tp.Dims = append(tp.Dims, int64(d))
						}
						add(tp, "error", nil, fmt.Sprintf("%s/typed/%v/%s", dt, sh, name), append(base, "fault="+name, "payload-count-mismatch")...)
					}
					// both encodings populated with the same values: must decode to them or be refused
					tp := hx.TensorProto("", t, "typed")
					tp.RawData = hx.RawBytes(t)
					add(tp, "exact-or-error", t, fmt.Sprintf("%s/both/%v", dt, sh), append(base, "both-encodings")...)
				}
				// no payload at all
				tp := hx.TensorProto("", t, enc)
				tp.RawData, tp.FloatData, tp.DoubleData, tp.Int32Data, tp.Int64Data, tp.Uint64Data = nil, nil, nil, nil, nil, nil
				add(tp, "error", nil, fmt.Sprintf("%s/%s/%v/no-payload", dt, enc, sh), append(base, "fault=no-payload", "payload-count-mismatch")...)
			}
			// zero extents with an (accordingly) empty payload: an empty tensor cannot be represented and must be refused
			for _, dims := range [][]int64{{0}, {2, 0}, {0, 3}, {0, 0}, {1, 0, 2}} {
				tp := hx.TensorProto("", patternFill(dt, []int{1}, 1), enc)
				tp.Dims = dims
				tp.RawData, tp.FloatData, tp.DoubleData, tp.Int32Data, tp.Int64Data, tp.Uint64Data = nil, nil, nil, nil, nil, nil
				add(tp, "error", nil, fmt.Sprintf("%s/%s/zero-dims%v-empty-payload", dt, enc, dims), append(base, "fault=zero-dims-empty-payload")...)
			}
			// bad dims with a consistent-looking payload
			// (among them products that wrap around to the payload's 4 elements in 64 or 32 bit arithmetic)
			for _, dims := range [][]int64{{-1}, {2, -2}, {0}, {2, 0}, {1 << 31}, {1 << 40, 1 << 40}, {4, 1<<62 + 1}, {1<<62 + 1, 4}, {2, 2, 1<<62 + 1}, {1 << 32, 1 << 32, 4}, {-2, -2}, {-4, -1}, {-1, -1, 4},
				{1<<32 + 4}, {1<<31 + 2, 2}, {65536, 65536, 65536, 65536, 4}, {math.MaxInt64, math.MaxInt64, 4}, {math.MinInt64, 4}, {math.MinInt64, math.MinInt64, 4}} {
				t := patternFill(dt, []int{4}, 1)
				tp := hx.TensorProto("", t, enc)
				tp.Dims = dims
				add(tp, "error", nil, fmt.Sprintf("%s/%s/dims%v", dt, enc, dims), append(base, "fault=bad-dims")...)
			}
		}
	}
	// ConstantOfShape value attribute (one-element tensor of any storable type, rank 0, 1 or 2)
	for _, dt := range storable {
		for _, enc := range []string{"typed", "raw"} {
			for k := 0; k < 3; k++ {
				for _, sh := range [][]int{{}, {1}, {1, 1}} {
					one := patternFill(dt, []int{7}, k)
					v := &ref.T{DT: dt, Shape: sh, V: []uint64{one.V[k*2]}}
					exp := &ref.T{DT: dt, Shape: []int{2}, V: []uint64{v.V[0], v.V[0]}}
					expect := "exact"
					if dt == ref.Bool {
						expect = "exact-or-error" // a bool fill may be refused (C11), never decoded differently
					}
					if dt.IsFloat() && ref.DecF(dt, v.V[0]) == 0 {
						continue // -0 fill is compared numerically by C11; the bit-exact oracle here skips zeros
					}
					cases = append(cases, tpCase{ReplayKind: "tensorproto", TP: tpB64(hx.TensorProto("", v, enc)), Via: "constant-of-shape", Expect: expect, Expected: hx.ToTJ(exp), Desc: fmt.Sprintf("%s/%s/%v/%d via constant-of-shape", dt, enc, sh, k)})
					tags = append(tags, []string{"via=constant-of-shape", "expect=" + expect, "dtype=" + dt.String(), "enc=" + enc})
				}
			}
			t2 := patternFill(dt, []int{1}, 1)
			tp := hx.TensorProto("", t2, enc)
			tp.RawData, tp.FloatData, tp.DoubleData, tp.Int32Data, tp.Int64Data, tp.Uint64Data = nil, nil, nil, nil, nil, nil
			cases = append(cases, tpCase{ReplayKind: "tensorproto", TP: tpB64(tp), Via: "constant-of-shape", Expect: "error", Desc: fmt.Sprintf("%s/%s/no-payload via constant-of-shape", dt, enc)})
			tags = append(tags, []string{"via=constant-of-shape", "expect=error", "dtype=" + dt.String(), "enc=" + enc, "fault=no-payload", "payload-count-mismatch"})
		}
	}
	// every other data_type code with each typed field (and raw) populated
	known := map[int32]bool{}
	for _, dt := range storable {
		known[hx.OnnxDT(dt)] = true
	}
	for code := int32(0); code <= 22; code++ {
		if known[code] {
			continue
		}
		for _, carrier := range []ref.DT{ref.F32, ref.I32, ref.I64, ref.F64, ref.U64} {
			t := patternFill(carrier, []int{2}, 0)
			tp := hx.TensorProto("", t, "typed")
			tp.DataType = code
			add(tp, "error", nil, fmt.Sprintf("code%d/typed-%s", code, carrier), fmt.Sprintf("code=%d", code), "unsupported-data-type", "carrier="+carrier.String(), "carrier-is-a-typed-field")
		}
		t := patternFill(ref.U8, []int{4}, 0)
		tp := hx.TensorProto("", t, "raw")
		tp.DataType = code
		add(tp, "error", nil, fmt.Sprintf("code%d/raw", code), fmt.Sprintf("code=%d", code), "unsupported-data-type", "carrier=raw")
		tp2 := &onnx.TensorProto{DataType: code, Dims: []int64{1}, StringData: [][]byte{[]byte("x")}}
		add(tp2, "error", nil, fmt.Sprintf("code%d/string_data", code), fmt.Sprintf("code=%d", code), "unsupported-data-type", "carrier=string")
	}
	for _, code := range []int32{23, 24, 99, -1, -2, -7, 1 << 20, math.MaxInt32, math.MinInt32, math.MinInt32 + 1} {
		t := patternFill(ref.F32, []int{2}, 0)
		tp := hx.TensorProto("", t, "typed")
		tp.DataType = code
		add(tp, "error", nil, fmt.Sprintf("code%d/typed-float", code), fmt.Sprintf("code=%d", code), "unsupported-data-type", "carrier=float32", "carrier-is-a-typed-field")
		t8 := patternFill(ref.U8, []int{4}, 0)
		tpr := hx.TensorProto("", t8, "raw")
		tpr.DataType = code
		add(tpr, "error", nil, fmt.Sprintf("code%d/raw", code), fmt.Sprintf("code=%d", code), "unsupported-data-type", "carrier=raw")
		add(&onnx.TensorProto{DataType: code, Dims: []int64{1}}, "error", nil, fmt.Sprintf("code%d/no-payload", code), fmt.Sprintf("code=%d", code), "unsupported-data-type", "carrier=none")
		add(&onnx.TensorProto{DataType: code}, "error", nil, fmt.Sprintf("code%d/no-payload-no-dims", code), fmt.Sprintf("code=%d", code), "unsupported-data-type", "carrier=none")
	}
	// several initializers in ONE model whose payload bytes are identical but whose declared shapes (or types of equal
	// width) differ: each must decode to its own declaration
	for _, n := range []int{4, 256, 4096, 65536} {
		for _, enc := range []string{"raw", "typed"} {
			n, enc := n, enc
			id := fmt.Sprintf("same-payload-different-dims/%d-elements/%s", n, enc)
			c.Case(hx.CaseInfo{ID: id, Tags: []string{"multi-initializer", "enc=" + enc}, NonTrivial: true}, func() (v *hx.Violation) {
				base := patternFill(ref.F32, []int{n}, 3)
				shapes := [][]int{{n}, {2, n / 2}, {n / 4, 4}, {1, n}, {2, 2, n / 4}}
				g := &onnx.GraphProto{Name: "g"}
				exp := map[string]*ref.T{}
				var names []string
				for k, sh := range shapes {
					t := &ref.T{DT: ref.F32, Shape: sh, V: base.V}
					nm := fmt.Sprintf("w%d", k)
					g.Initializer = append(g.Initializer, hx.TensorProto(nm, t, enc))
					g.Output = append(g.Output, hx.ValueInfoNoShape(nm))
					exp[nm] = t
					names = append(names, nm)
				}
				// same bytes read as int32 and uint32 (raw only: one payload, three element types)
				if enc == "raw" {
					for k, dt := range []ref.DT{ref.I32, ref.U32} {
						t := &ref.T{DT: dt, Shape: []int{n}, V: make([]uint64, n)}
						for i, b := range base.V {
							t.V[i] = ref.EncI(dt, int64(int32(uint32(b)))) // the same 32 bits under this type's convention
							if dt == ref.U32 {
								t.V[i] = uint64(uint32(b))
							}
						}
						nm := fmt.Sprintf("v%d", k)
						g.Initializer = append(g.Initializer, hx.TensorProto(nm, t, "raw"))
						g.Output = append(g.Output, hx.ValueInfoNoShape(nm))
						exp[nm] = t
						names = append(names, nm)
					}
				}
				mb := hx.Marshal(hx.Model(g, 13))
				mk := func(kind, detail string) *hx.Violation {
					return &hx.Violation{Kind: kind, Detail: detail, Replay: newModelCase(mb, nil, "outputs", exp, hx.Cmp{Mode: "bits-exact"}, id)}
				}
				res := hx.RunModelBytes(mb, nil, names)
				switch {
				case res.Panic != "":
					return mk("panic", res.Panic)
				case res.Err != nil:
					return mk("refused", res.Err.Error())
				case res.ReadErr != "":
					return mk("wrong-outputs", res.ReadErr)
				}
				for i, nm := range names {
					if k, d := hx.CompareT(res.Outs[i], exp[nm], hx.Cmp{Mode: "bits-exact"}); k != "" {
						return mk(k, fmt.Sprintf("initializer %s (declared %s%v): %s", nm, exp[nm].DT, exp[nm].Shape, d))
					}
				}
				return hx.OK("exact")
			})
		}
	}
	loadersRefusableCases(c)
	// further observation points: the same weights through NewModelFromFile and NewModelFromZipFile (stored / deflated)
	for _, n := range []int{7, 9000, 40000, 262147} {
		for _, compressible := range []bool{false, true} {
			n, compressible := n, compressible
			c.Case(hx.CaseInfo{ID: fmt.Sprintf("loaders/%d-weights/compressible=%v", n, compressible), Tags: []string{"loaders"}, NonTrivial: true}, func() (v *hx.Violation) {
				mk := func(kind, detail string) *hx.Violation {
					return &hx.Violation{Kind: kind, Detail: detail, Replay: map[string]any{"replay_kind": "loaders", "n": n, "compressible": compressible}}
				}
				defer func() {
					if p := recover(); p != nil {
						v = mk("panic", fmt.Sprintf("%v :: %s", p, firstLines(string(debug.Stack()), 12)))
					}
				}()
				return loadersCase(n, compressible, mk)
			})
		}
	}
	// a typed field that is too short, topped up by a stray second typed field so that the total matches the dims
	for _, dt := range storable {
		own := hx.TensorProto("", patternFill(dt, []int{4}, 1), "typed")
		for k := 1; k <= 3; k++ {
			for _, stray := range []string{"float", "int32", "int64", "double", "uint64", "string"} {
				tp := proto.Clone(own).(*onnx.TensorProto)
				short := func() bool {
					switch {
					case len(tp.FloatData) > 0:
						tp.FloatData = tp.FloatData[:4-k]
					case len(tp.DoubleData) > 0:
						tp.DoubleData = tp.DoubleData[:4-k]
					case len(tp.Int32Data) > 0:
						tp.Int32Data = tp.Int32Data[:4-k]
					case len(tp.Int64Data) > 0:
						tp.Int64Data = tp.Int64Data[:4-k]
					case len(tp.Uint64Data) > 0:
						tp.Uint64Data = tp.Uint64Data[:4-k]
					default:
						return false
					}
					return true
				}()
				if !short {
					continue
				}
				before := len(tp.FloatData) + len(tp.DoubleData) + len(tp.Int32Data) + len(tp.Int64Data) + len(tp.Uint64Data)
				switch stray {
				case "float":
					if len(tp.FloatData) == 0 {
						tp.FloatData = make([]float32, k)
					}
				case "int32":
					if len(tp.Int32Data) == 0 {
						tp.Int32Data = make([]int32, k)
					}
				case "int64":
					if len(tp.Int64Data) == 0 {
						tp.Int64Data = make([]int64, k)
					}
				case "double":
					if len(tp.DoubleData) == 0 {
						tp.DoubleData = make([]float64, k)
					}
				case "uint64":
					if len(tp.Uint64Data) == 0 {
						tp.Uint64Data = make([]uint64, k)
					}
				case "string":
					for i := 0; i < k; i++ {
						tp.StringData = append(tp.StringData, []byte("x"))
					}
				}
				after := len(tp.FloatData) + len(tp.DoubleData) + len(tp.Int32Data) + len(tp.Int64Data) + len(tp.Uint64Data) + len(tp.StringData)
				if after == before {
					continue // the stray field is the type's own carrier
				}
				add(tp, "error", nil, fmt.Sprintf("%s/typed-short-by-%d+stray-%s", dt, k, stray), "dtype="+dt.String(), "enc=typed", "fault=short+stray-field", "payload-count-mismatch")
			}
		}
	}
	c.ParallelFor(len(cases), func(i int) {
		cs := cases[i]
		c.Case(hx.CaseInfo{ID: cs.Desc, Tags: tags[i], NonTrivial: true, Sample: map[string]any{"case": cs.Desc, "expect": cs.Expect}}, func() *hx.Violation {
			v := cs.run()
			if cs.Expect == "exact-or-error" && v != nil && v.Kind == "refused" {
				return hx.OK("refused")
			}
			return v
		})
	})
}
