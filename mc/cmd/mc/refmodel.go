package main

import (
	"fmt"
	"os"

	"github.com/advancedclimatesystems/gonnx/onnx"
	"google.golang.org/protobuf/proto"
	"verifmc/hx"
	"verifmc/ref"
)

// refTensorFromProto decodes a TensorProto with the reference decoder rule (C12's oracle).
func refTensorFromProto(tp *onnx.TensorProto) (*ref.T, error) {
	dt, ok := hx.RefDTOfOnnx(tp.DataType)
	if !ok {
		return nil, fmt.Errorf("unsupported data_type %d", tp.DataType)
	}
	shape := make([]int, len(tp.Dims))
	for i, d := range tp.Dims {
		shape[i] = int(d)
	}
	t := ref.New(dt, shape...)
	n := len(t.V)
	switch {
	case len(tp.FloatData) > 0 && dt == ref.F32:
		for i := 0; i < n && i < len(tp.FloatData); i++ {
			t.V[i] = ref.EncF(dt, float64(tp.FloatData[i]))
		}
	case len(tp.DoubleData) > 0 && dt == ref.F64:
		for i := 0; i < n && i < len(tp.DoubleData); i++ {
			t.V[i] = ref.EncF(dt, tp.DoubleData[i])
		}
	case len(tp.Int64Data) > 0 && dt == ref.I64:
		for i := 0; i < n && i < len(tp.Int64Data); i++ {
			t.V[i] = uint64(tp.Int64Data[i])
		}
	case len(tp.Int32Data) > 0:
		for i := 0; i < n && i < len(tp.Int32Data); i++ {
			t.V[i] = ref.EncI(dt, int64(tp.Int32Data[i]))
		}
	case len(tp.Uint64Data) > 0:
		for i := 0; i < n && i < len(tp.Uint64Data); i++ {
			t.V[i] = ref.EncI(dt, int64(tp.Uint64Data[i]))
		}
	default:
		w := dt.Bits() / 8
		if len(tp.RawData) != n*w {
			return nil, fmt.Errorf("raw length %d for %d elements", len(tp.RawData), n)
		}
		for i := 0; i < n; i++ {
			var v uint64
			for k := w - 1; k >= 0; k-- {
				v = v<<8 | uint64(tp.RawData[i*w+k])
			}
			if dt.IsSigned() {
				v = ref.EncI(dt, int64(v<<(64-uint(w*8)))>>(64-uint(w*8)))
			}
			t.V[i] = v
		}
	}
	return t, nil
}

func attrFromProto(a *onnx.AttributeProto) (hx.Attr, error) {
	switch a.Type {
	case onnx.AttributeProto_INT:
		return hx.AInt(a.Name, a.I), nil
	case onnx.AttributeProto_INTS:
		return hx.AInts(a.Name, a.Ints...), nil
	case onnx.AttributeProto_FLOAT:
		return hx.AFloat(a.Name, a.F), nil
	case onnx.AttributeProto_FLOATS:
		return hx.AFloats(a.Name, a.Floats...), nil
	case onnx.AttributeProto_STRING:
		return hx.AStr(a.Name, string(a.S)), nil
	case onnx.AttributeProto_STRINGS:
		var s []string
		for _, b := range a.Strings {
			s = append(s, string(b))
		}
		return hx.AStrs(a.Name, s...), nil
	case onnx.AttributeProto_TENSOR:
		t, err := refTensorFromProto(a.T)
		if err != nil {
			return hx.Attr{}, err
		}
		return hx.ATensor(a.Name, t, "raw"), nil
	}
	return hx.Attr{}, fmt.Errorf("attribute %s of type %v not modelled", a.Name, a.Type)
}

// refRunModel evaluates a whole model with the reference interpreter.
func refRunModel(modelBytes []byte, feed map[string]*ref.T) (map[string]*ref.T, error) {
	mp := &onnx.ModelProto{}
	if err := proto.Unmarshal(modelBytes, mp); err != nil {
		return nil, err
	}
	env := map[string]*ref.T{}
	for _, init := range mp.Graph.Initializer {
		t, err := refTensorFromProto(init)
		if err != nil {
			return nil, err
		}
		env[init.Name] = t
	}
	for k, v := range feed {
		env[k] = v
	}
	for _, n := range mp.Graph.Node {
		var attrs []hx.Attr
		for _, a := range n.Attribute {
			ha, err := attrFromProto(a)
			if err != nil {
				return nil, err
			}
			attrs = append(attrs, ha)
		}
		ins := make([]*ref.T, len(n.Input))
		for i, name := range n.Input {
			if name == "" {
				continue
			}
			v, ok := env[name]
			if !ok {
				return nil, fmt.Errorf("node %s: no value for %q", n.OpType, name)
			}
			ins[i] = v
		}
		outs, err := refEval(n.OpType, attrs, ins)
		if err != nil {
			return nil, fmt.Errorf("node %s: %w", n.OpType, err)
		}
		for j, o := range n.Output {
			if o != "" && j < len(outs) {
				env[o] = outs[j]
			}
		}
	}
	res := map[string]*ref.T{}
	for _, o := range mp.Graph.Output {
		v, ok := env[o.Name]
		if !ok {
			return nil, fmt.Errorf("output %q not computed", o.Name)
		}
		res[o.Name] = v
	}
	return res, nil
}

// sampleModel loads one of the repository's sample models and describes its inputs.
type sampleModel struct {
	Name  string
	Bytes []byte
	// feed builder for a batch made of the given sample indices
	Inputs   map[string][]int // per input: shape with -1 at the batch axis
	Batch    map[string]int   // per input: batch axis
	OutBatch map[string]int   // per output: batch axis
}

func loadSample(name string) sampleModel {
	b, err := os.ReadFile(hx.RepoDir() + "/sample_models/onnx_models/" + name + ".onnx")
	if err != nil {
		hx.HarnessError("cannot read sample model %s: %v", name, err)
	}
	return sampleModel{Name: name, Bytes: b}
}
