package main

import (
	"encoding/base64"
	"encoding/json"
	"fmt"
	"sort"

	gonnx "github.com/advancedclimatesystems/gonnx"
	"verifmc/hx"
	"verifmc/ref"
)

// modelCase: model bytes + one feed + expectation; the replay body of program-level checks.
type modelCase struct {
	ReplayKind string            `json:"replay_kind"`
	Model      string            `json:"model_b64"`
	Feed       map[string]*hx.TJ `json:"feed"`
	Expect     string            `json:"expect"` // outputs | error | nopanic | outputs-or-error
	Expected   map[string]*hx.TJ `json:"expected,omitempty"`
	Cmp        hx.Cmp            `json:"cmp"`
	Desc       string            `json:"desc,omitempty"`
	Graph      string            `json:"graph,omitempty"`  // human-readable program text
	Repeat     int               `json:"repeat,omitempty"` // error expected: number of Runs that must ALL be refused (map-order luck)
}

func init() {
	replayers["model-run"] = func(raw json.RawMessage) *hx.Violation {
		var c modelCase
		if err := json.Unmarshal(raw, &c); err != nil {
			return &hx.Violation{Kind: "bad-replay", Detail: err.Error()}
		}
		return c.run()
	}
}

func newModelCase(model []byte, feed map[string]*ref.T, expect string, expected map[string]*ref.T, cmp hx.Cmp, desc string) *modelCase {
	mc := &modelCase{ReplayKind: "model-run", Model: base64.StdEncoding.EncodeToString(model), Feed: map[string]*hx.TJ{}, Expect: expect, Cmp: cmp, Desc: desc}
	for k, v := range feed {
		mc.Feed[k] = hx.ToTJ(v)
	}
	if expected != nil {
		mc.Expected = map[string]*hx.TJ{}
		for k, v := range expected {
			mc.Expected[k] = hx.ToTJ(v)
		}
	}
	return mc
}

func (c *modelCase) run() *hx.Violation {
	mk := func(kind, detail string) *hx.Violation { return &hx.Violation{Kind: kind, Detail: detail, Replay: c} }
	b, _ := base64.StdEncoding.DecodeString(c.Model)
	feed := map[string]*ref.T{}
	for k, v := range c.Feed {
		feed[k] = v.T()
	}
	var names []string
	for k := range c.Expected {
		names = append(names, k)
	}
	sort.Strings(names)
	res := hx.RunModelBytes(b, feed, names)
	if res.Panic != "" {
		return mk("panic", res.Panic)
	}
	if res.Mutated != "" {
		return mk("mutated-input", res.Mutated)
	}
	switch c.Expect {
	case "nopanic":
		if res.Err != nil {
			return hx.OK("refused/nopanic")
		}
		return hx.OK("ran/nopanic")
	case "error":
		// a request with two or more entries is walked in map order, which Go randomises per iteration: a refusal that
		// depends on which entry is looked at first shows in some of the repetitions only
		for rep := 1; res.Err != nil && res.Panic == "" && rep < c.Repeat; rep++ {
			res = hx.RunModelBytes(b, feed, names)
		}
		if res.Panic != "" {
			return mk("panic", res.Panic)
		}
		if res.Err == nil {
			return mk("not-refused", fmt.Sprintf("expected an error, Run returned %d outputs", len(res.Outs)))
		}
		if res.ReadErr != "" {
			return mk("outputs-with-error", res.ReadErr)
		}
		return hx.OK("refused/error")
	}
	if res.Err != nil {
		if c.Expect == "outputs-or-error" {
			return hx.OK("refused/refuse")
		}
		return mk("refused", fmt.Sprintf("refused (%s): %v", res.Phase, res.Err))
	}
	if res.ReadErr != "" {
		return mk("wrong-outputs", res.ReadErr)
	}
	for i, n := range names {
		if k, d := hx.CompareT(res.Outs[i], c.Expected[n].T(), c.Cmp); k != "" {
			return mk(k, fmt.Sprintf("output %q: %s", n, d))
		}
	}
	return hx.OK("match")
}

// modelHistory: one Model, a sequence of Runs, each judged like a modelCase (call histories on one instance).
type modelHistory struct {
	ReplayKind string       `json:"replay_kind"`
	Model      string       `json:"model_b64"`
	Steps      []*modelCase `json:"steps"` // Model field of the steps is ignored
	Desc       string       `json:"desc,omitempty"`
}

func init() {
	replayers["model-history"] = func(raw json.RawMessage) *hx.Violation {
		var h modelHistory
		if err := json.Unmarshal(raw, &h); err != nil {
			return &hx.Violation{Kind: "bad-replay", Detail: err.Error()}
		}
		return h.run()
	}
}

func (h *modelHistory) run() (v *hx.Violation) {
	mk := func(kind, detail string) *hx.Violation {
		return &hx.Violation{Kind: kind, Detail: detail, Replay: h}
	}
	b, _ := base64.StdEncoding.DecodeString(h.Model)
	m, err := loadModelSafe(b)
	if err != nil {
		return mk("refused", "load: "+err.Error())
	}
	for si, c := range h.Steps {
		feed := map[string]*ref.T{}
		for k, t := range c.Feed {
			feed[k] = t.T()
		}
		var names []string
		for k := range c.Expected {
			names = append(names, k)
		}
		sort.Strings(names)
		res := hx.RunModel(m, feed, names)
		at := fmt.Sprintf("call %d of %d (%s): ", si+1, len(h.Steps), c.Desc)
		switch {
		case res.Panic != "":
			return mk("panic", at+res.Panic)
		case res.Mutated != "":
			return mk("mutated-input", at+res.Mutated)
		}
		switch c.Expect {
		case "nopanic":
			continue
		case "error":
			if res.Err == nil {
				return mk("not-refused", at+fmt.Sprintf("expected an error, Run returned %d outputs", len(res.Outs)))
			}
			if res.ReadErr != "" {
				return mk("outputs-with-error", at+res.ReadErr)
			}
			continue
		}
		if res.Err != nil {
			if c.Expect == "outputs-or-error" {
				continue
			}
			return mk("refused", at+fmt.Sprintf("refused (%s): %v", res.Phase, res.Err))
		}
		if res.ReadErr != "" {
			return mk("wrong-outputs", at+res.ReadErr)
		}
		for i, n := range names {
			if k, d := hx.CompareT(res.Outs[i], c.Expected[n].T(), c.Cmp); k != "" {
				return mk(k, at+fmt.Sprintf("output %q: %s", n, d))
			}
		}
	}
	return hx.OK("history-match")
}

func loadModelSafe(b []byte) (m *gonnx.Model, err error) {
	defer func() {
		if p := recover(); p != nil {
			err = fmt.Errorf("panic at load: %v", p)
		}
	}()
	return gonnx.NewModelFromBytes(b)
}
