package main

import (
	"fmt"
	"math"

	"verifmc/hx"
	"verifmc/ref"
)

// C09 — ArgMax, ReduceMax/Min, Softmax, LogSoftmax.

func init() { register("C09", "exploration", checkC09) }

// subsets of axes as ordered sequences without repetition (both spellings mixed in by the caller).
func axisSubsets(r int) [][]int64 {
	var out [][]int64
	for mask := 1; mask < 1<<r; mask++ {
		var s []int64
		for a := 0; a < r; a++ {
			if mask&(1<<a) != 0 {
				s = append(s, int64(a))
			}
		}
		out = append(out, s)
	}
	return out
}

func reverse64(s []int64) []int64 {
	o := make([]int64, len(s))
	for i, v := range s {
		o[len(s)-1-i] = v
	}
	return o
}

func checkC09(c *hx.Checker) {
	thorough := c.Tier == "thorough"
	maxRank := 4 // gorgonia's middle-axis reduction misbehaves only from rank 4 on, so both tiers cover rank 4
	_ = thorough
	c.Rule = fmt.Sprintf("shapes Box(rank 1..%d, extents {1,2,3}). ArgMax: every axis in [-r-1,r] + axis absent x keepdims {absent,0,1} x fills = every value tuple over {1,2,3,NaN}^n laid along the axis (all ties / NaN positions), gate dtypes, select_last_index=1 must be refused; "+
		"ReduceMax/ReduceMin: every non-empty axes subset in positive, negative and reversed (unsorted) spelling + axes absent + duplicate/out-of-range axes x keepdims {absent,0,1}, gate dtypes; "+
		"Softmax/LogSoftmax: every axis + default x (distinct fills at 3 scales) + every value tuple over {0,+-1,+-10,+-88,+-89,+-104,+-1e4,+-1e30,+-max}^n for n<=3 on shapes (n),(2,n),(n,2); float32 and float64. "+
		"non-trivial = every case (each has its own axis/fill combination)", maxRank)
	c.Assumptions = []string{"ArgMax with NaN: ONNX does not fix the order; only shape/dtype are asserted there (reference follows numpy)",
		"Softmax/LogSoftmax tolerance vs the stable float64 reference: rel 2e-4 (float32) / 1e-11 (float64) (+ same absolute for LogSoftmax): the statement fixes axis, normalisation and finiteness, not per-element accuracy",
		"Reduce fills contain no NaN (the statement does not speak about NaN ordering for reductions)"}
	var jobs []opJob
	box := ref.Box(1, maxRank, []int{1, 2, 3})
	// ---------------- ArgMax
	for _, dt := range gateDTs("ArgMax", 0) {
		shapes := box
		if dt != ref.F32 {
			shapes = ref.Box(1, 2, []int{1, 2, 3})
		}
		for _, sh := range shapes {
			r := len(sh)
			for ax := -r - 1; ax <= r+1; ax++ { // r+1 encodes "axis absent"
				axn, absent := ax, ax == r+1
				if absent {
					axn = 0
				}
				if axn < 0 {
					axn += r
				}
				n := 1
				if axn >= 0 && axn < r {
					n = sh[axn]
				}
				alpha := []int64{1, 2, 3}
				if dt.IsFloat() {
					alpha = append(alpha, -99) // -99 encodes NaN
				}
				tuples := seqs(alpha, n, n)
				if axn < 0 || axn >= r {
					tuples = tuples[:1]
				}
				for _, tup := range tuples {
					hasNaN := false
					data := ref.New(dt, sh...)
					for i := range data.V {
						cc := ref.Unravel(i, sh)
						k, s := 0, 0
						if axn >= 0 && axn < r {
							k = cc[axn]
							cc[axn] = 0
							s = ref.Ravel(cc, sh)
						}
						v := tup[(k+s)%n]
						if v == -99 {
							hasNaN = true
							data.V[i] = ref.EncF(dt, math.NaN())
						} else if dt.IsFloat() {
							data.V[i] = ref.EncF(dt, float64(v)*1.5-2)
						} else {
							data.V[i] = ref.EncI(dt, v)
						}
					}
					for _, kd := range []int{-1, 0, 1} {
						var attrs []hx.Attr
						if !absent {
							attrs = append(attrs, hx.AInt("axis", int64(ax)))
						}
						if kd >= 0 {
							attrs = append(attrs, hx.AInt("keepdims", int64(kd)))
						}
						a := ax
						if absent {
							a = 0
						}
						exp, err := ref.ArgMax(data, a, kd != 0)
						cmp := hx.Bits
						extra := []string{fmt.Sprintf("keepdims=%d", kd)}
						if hasNaN {
							cmp = hx.ShapeOnly
							extra = append(extra, "nan")
						}
						if r == 1 && kd == 0 {
							extra = append(extra, "result-rank0")
						}
						jobs = append(jobs, newJob("ArgMax", attrs, []*ref.T{data}, []*ref.T{exp}, err, hx.DCompute, cmp, "op", nil, fmt.Sprintf("axis=%d kd=%d tup=%v", ax, kd, tup), extra...))
					}
				}
			}
		}
	}
	// special values: every tuple of length 1..3 over {+-Inf, +-MaxFloat, +-0, 1, smallest subnormal} (floats) and
	// {MIN, MAX, 0, -1, 1} (integers), as a vector and as the rows / columns of a matrix; ties resolve to the first index
	for _, dt := range gateDTs("ArgMax", 0) {
		var alpha []uint64
		if dt.IsFloat() {
			for _, v := range []float64{math.Inf(1), math.Inf(-1), math.MaxFloat32, -math.MaxFloat32, 0, math.Copysign(0, -1), 1, 1e-45} {
				if dt == ref.F64 && math.Abs(v) == math.MaxFloat32 {
					v = math.Copysign(math.MaxFloat64, v)
				}
				if dt == ref.F64 && v == 1e-45 {
					v = 5e-324
				}
				alpha = append(alpha, ref.EncF(dt, v))
			}
		} else if dt.IsInt() {
			// extremes and, for 64-bit types, neighbours that collapse when taken through float64
			bits := uint(dt.Bits())
			if dt.IsSigned() {
				min := int64(-1) << (bits - 1)
				for _, v := range []int64{min, -(min + 1), -(min + 1) - 1, 0, -1, 1} {
					alpha = append(alpha, ref.EncI(dt, v))
				}
			} else {
				max := uint64(1)<<bits - 1
				if bits == 64 {
					max = math.MaxUint64
				}
				alpha = append(alpha, 0, 1, max, max-1, max/2+1, 2)
			}
			if bits == 64 {
				alpha = alpha[:4]
				alpha = append(alpha, ref.EncI(dt, 1<<53), ref.EncI(dt, 1<<53+1), ref.EncI(dt, 1<<62+1), ref.EncI(dt, 1<<62))
			}
		} else {
			continue
		}
		ix := rangeI64(0, len(alpha)-1)
		for n := 1; n <= 3; n++ {
			for _, tup := range seqs(ix, n, n) {
				for si, sh := range [][]int{{n}, {2, n}, {n, 2}} {
					ax := len(sh) - 1
					if si == 2 {
						ax = 0
					}
					data := ref.New(dt, sh...)
					for i := range data.V {
						cc := ref.Unravel(i, sh)
						other := 0
						if len(sh) == 2 {
							other = cc[1-ax]
						}
						data.V[i] = alpha[tup[(cc[ax]+other)%n]]
					}
					// gorgonia's Argmax stops at the first +Inf it meets after position 0 (KF-C09-3): wrong exactly
					// when a slice starts with +Inf and holds another +Inf later
					infAgain := false
					if dt.IsFloat() {
						nSlices := 1
						if len(sh) == 2 {
							nSlices = 2 // slice s holds tup rotated by s
						}
						for rot := 0; rot < nSlices; rot++ {
							cnt := 0
							for _, k := range tup {
								if k == 0 {
									cnt++
								}
							}
							if tup[rot%n] == 0 && cnt >= 2 {
								infAgain = true
							}
						}
					}
					for _, kd := range []int{0, 1} {
						exp, err := ref.ArgMax(data, ax, kd != 0)
						extra := []string{fmt.Sprintf("keepdims=%d", kd), "special-values"}
						if infAgain {
							extra = append(extra, "posinf-first-and-again")
						}
						if len(sh) == 1 && kd == 0 {
							extra = append(extra, "result-rank0")
						}
						jobs = append(jobs, newJob("ArgMax", []hx.Attr{hx.AInt("axis", int64(ax)), hx.AInt("keepdims", int64(kd))}, []*ref.T{data}, []*ref.T{exp}, err, hx.DCompute, hx.Bits, "op", nil, fmt.Sprintf("special tup=%v sh=%v kd=%d", tup, sh, kd), extra...))
					}
					if si < 2 {
						// the same data through ReduceMax / ReduceMin (float tuples without a +0/-0 pair: their max/min is not unique)
						z := 0
						for _, k := range tup {
							if dt.IsFloat() && (k == 4 || k == 5) {
								z++
							}
						}
						if z < 2 {
							for _, op := range []string{"ReduceMax", "ReduceMin"} {
								exp, err := ref.Reduce(data, []int64{int64(ax)}, true, true, op == "ReduceMax")
								jobs = append(jobs, newJob(op, []hx.Attr{hx.AInts("axes", int64(ax)), hx.AInt("keepdims", 1)}, []*ref.T{data}, []*ref.T{exp}, err, hx.DCompute, hx.Bits, "op", nil, fmt.Sprintf("special tup=%v sh=%v", tup, sh), "keepdims=1", "special-values"))
							}
						}
					}
				}
			}
		}
	}
	// extreme integers as axis / axes
	for _, e := range extremeInts {
		d := ref.Distinct(ref.F32, []int{2, 3})
		bad := ref.Invalid("extreme integer")
		for _, rt := range []string{"op", "model"} {
			jobs = append(jobs, newJob("ArgMax", []hx.Attr{hx.AInt("axis", e)}, []*ref.T{d}, nil, bad, hx.DError, hx.Bits, rt, nil, fmt.Sprintf("axis=%d", e), "extreme-int"))
			jobs = append(jobs, newJob("Softmax", []hx.Attr{hx.AInt("axis", e)}, []*ref.T{d}, nil, bad, hx.DError, hx.Bits, rt, nil, fmt.Sprintf("axis=%d", e), "extreme-int"))
			jobs = append(jobs, newJob("LogSoftmax", []hx.Attr{hx.AInt("axis", e)}, []*ref.T{d}, nil, bad, hx.DError, hx.Bits, rt, nil, fmt.Sprintf("axis=%d", e), "extreme-int"))
			jobs = append(jobs, newJob("ReduceMax", []hx.Attr{hx.AInts("axes", e)}, []*ref.T{d}, nil, bad, hx.DError, hx.Bits, rt, nil, fmt.Sprintf("axes=[%d]", e), "extreme-int"))
			jobs = append(jobs, newJob("ReduceMin", []hx.Attr{hx.AInts("axes", 0, e)}, []*ref.T{d}, nil, bad, hx.DError, hx.Bits, rt, nil, fmt.Sprintf("axes=[0 %d]", e), "extreme-int"))
		}
	}
	{
		// select_last_index=1 is not implemented today (refused); with pairwise distinct values first and last
		// occurrence coincide, so an implementation that honours it must return the same indices: computed right or refused
		d := ref.Distinct(ref.F32, []int{2, 2})
		e, err := ref.ArgMax(d, 0, true)
		jobs = append(jobs, newJob("ArgMax", []hx.Attr{hx.AInt("select_last_index", 1)}, []*ref.T{d}, []*ref.T{e}, err, hx.DRefuse, hx.Bits, "op", nil, "select_last_index=1"))
	}
	// ---------------- ReduceMax / ReduceMin
	for _, op := range []string{"ReduceMax", "ReduceMin"} {
		for _, dt := range gateDTs(op, 0) {
			shapes := box
			if dt != ref.F32 {
				shapes = ref.Box(1, 2, []int{1, 2, 3})
			}
			for _, sh := range shapes {
				r := len(sh)
				// fill: distinct, max/min not at a corner
				data := ref.Fill(dt, sh, func(i int) float64 {
					v := float64((i*7+3)%(ref.NElem(sh)*2+1)) + 1
					if dt.IsFloat() || dt.IsSigned() {
						if i%2 == 1 {
							v = -v
						}
						if dt == ref.I8 {
							return v
						}
					}
					return v
				})
				type axCase struct {
					axes []int64
					has  bool
					desc string
				}
				var acs []axCase
				acs = append(acs, axCase{nil, false, "axes-absent"})
				for _, s := range axisSubsets(r) {
					acs = append(acs, axCase{s, true, fmt.Sprint(s)})
					neg := make([]int64, len(s))
					for i, a := range s {
						neg[i] = a - int64(r)
					}
					acs = append(acs, axCase{neg, true, fmt.Sprint(neg)})
					if len(s) > 1 {
						rv := reverse64(s)
						rv[0] -= int64(r)
						acs = append(acs, axCase{rv, true, "unsorted" + fmt.Sprint(rv)})
					}
				}
				acs = append(acs, axCase{[]int64{0, 0}, true, "dup[0 0]"}, axCase{[]int64{int64(r)}, true, "oob"}, axCase{[]int64{int64(-r - 1)}, true, "oob-neg"})
				for _, ac := range acs {
					for _, kd := range []int{-1, 0, 1} {
						var attrs []hx.Attr
						if ac.has {
							attrs = append(attrs, hx.AInts("axes", ac.axes...))
						}
						if kd >= 0 {
							attrs = append(attrs, hx.AInt("keepdims", int64(kd)))
						}
						exp, err := ref.Reduce(data, ac.axes, ac.has, kd != 0, op == "ReduceMax")
						extra := []string{fmt.Sprintf("keepdims=%d", kd)}
						if !ac.has {
							extra = append(extra, "axes-absent")
						}
						if len(attrs) == 0 {
							extra = append(extra, "no-attributes")
						}
						if err == nil && len(exp.Shape) == 0 {
							extra = append(extra, "result-rank0")
						}
						if r == 4 && ac.has && len(ac.axes) > 0 {
							first := 4
							for _, a := range ac.axes {
								if n := int((a + 4) % 4); n < first {
									first = n
								}
							}
							if first == 2 {
								extra = append(extra, "rank4-lowest-reduced-axis=2")
							}
						}
						jobs = append(jobs, newJob(op, attrs, []*ref.T{data}, []*ref.T{exp}, err, hx.DCompute, hx.Bits, "op", nil, fmt.Sprintf("%s kd=%d", ac.desc, kd), extra...))
					}
				}
			}
		}
	}
	// ---------------- Softmax / LogSoftmax
	alphaSM := []float64{0, 1, -1, 10, -10, 88, -88, 89, -89, 104, -104, 1e4, -1e4, 1e30, -1e30, math.MaxFloat32, -math.MaxFloat32}
	for _, op := range []string{"Softmax", "LogSoftmax"} {
		for _, dt := range []ref.DT{ref.F32, ref.F64} {
			// the statement fixes structure (axis, normalisation, finiteness), not per-element accuracy:
			// float32 exp() of gorgonia/math32 has a relative error ~|x|*eps, hence the generous bound.
			cmp := hx.Tol(2e-4, 1e-37)
			if dt == ref.F64 {
				cmp = hx.Tol(1e-11, 1e-300)
			}
			if op == "LogSoftmax" {
				cmp = hx.Tol(2e-4, 2e-4)
				if dt == ref.F64 {
					cmp = hx.Tol(1e-11, 1e-11)
				}
			}
			addSM := func(data *ref.T, ax int, absent bool, desc string) {
				var attrs []hx.Attr
				a := ax
				if absent {
					a = -1
				} else {
					attrs = append(attrs, hx.AInt("axis", int64(ax)))
				}
				exp, err := ref.Softmax(data, a, op == "LogSoftmax")
				extra := []string{}
				if err == nil {
					// gorgonia's last-axis kernel takes max(x[0], slice[1:]) instead of the slice maximum
					// (KF-C09-1). Tag exactly the inputs for which that shortcut is off by more than the
					// exp() range, i.e. where the shortcut changes the result beyond rounding.
					an, _ := normAxisC(a, len(data.Shape))
					if an == len(data.Shape)-1 && smShortcutOff(data, data.Shape[an]) {
						extra = append(extra, "lastaxis-max-shortcut-off")
					}
				}
				jobs = append(jobs, newJob(op, attrs, []*ref.T{data}, []*ref.T{exp}, err, hx.DCompute, cmp, "op", nil, desc, extra...))
			}
			for _, sh := range box {
				r := len(sh)
				for _, scale := range []float64{1, 20, 3000} {
					data := ref.Fill(dt, sh, func(i int) float64 { return (float64((i*5+2)%(ref.NElem(sh)+3)) - 2.5) * scale })
					for ax := -r - 1; ax <= r; ax++ {
						addSM(data, ax, false, fmt.Sprintf("axis=%d scale=%g", ax, scale))
					}
					addSM(data, 0, true, fmt.Sprintf("axis-absent scale=%g", scale))
				}
			}
			for n := 1; n <= 3; n++ {
				var tuples [][]float64
				idx := seqs(rangeI64(0, len(alphaSM)-1), n, n)
				for _, ix := range idx {
					t := make([]float64, n)
					for k, j := range ix {
						t[k] = alphaSM[j]
					}
					tuples = append(tuples, t)
				}
				if !thorough && n == 3 {
					// quick: every tuple over the 9 magnitudes {0,1,10,88,89,104,1e4,1e30,max} with a sign pattern rotation
					var sub [][]float64
					for ti, t := range tuples {
						if ti%3 == 0 {
							sub = append(sub, t)
						}
					}
					tuples = sub
				}
				for ti, t := range tuples {
					for si, sh := range [][]int{{n}, {2, n}, {n, 2}} {
						ax := len(sh) - 1
						if si == 2 {
							ax = 0
						}
						if si > 0 && ti%5 != 0 {
							continue
						}
						data := ref.New(dt, sh...)
						for i := range data.V {
							cc := ref.Unravel(i, sh)
							k := cc[ax]
							other := 0
							if len(sh) == 2 {
								other = cc[1-ax]
							}
							v := t[(k+other)%n]
							data.V[i] = ref.EncF(dt, v)
						}
						addSM(data, ax, false, fmt.Sprintf("tuple=%v sh=%v", t, sh))
					}
				}
			}
		}
	}
	// Softmax slices are independent: two slices of very different magnitude in one tensor (all ordered pairs of
	// magnitudes for slices of length 1, all length-2 slices against five companions), along the last and along axis 0
	for _, op := range []string{"Softmax", "LogSoftmax"} {
		cmp := hx.Tol(2e-4, 1e-37)
		if op == "LogSoftmax" {
			cmp = hx.Tol(2e-4, 2e-4)
		}
		var pairsSM [][2][]float64
		for _, a := range alphaSM {
			for _, b := range alphaSM {
				pairsSM = append(pairsSM, [2][]float64{{a}, {b}})
			}
		}
		for _, a := range alphaSM {
			for _, b := range alphaSM {
				for _, u := range [][]float64{{0, 0}, {1, -1}, {1e4, -1e4}, {1e30, 1}, {-1e30, -1e30}} {
					pairsSM = append(pairsSM, [2][]float64{{a, b}, u}, [2][]float64{u, {a, b}})
				}
			}
		}
		for _, pr := range pairsSM {
			n := len(pr[0])
			for _, lastAxis := range []bool{true, false} {
				sh, ax := []int{2, n}, 1
				if !lastAxis {
					sh, ax = []int{n, 2}, 0
				}
				data := ref.New(ref.F32, sh...)
				for i := range data.V {
					cc := ref.Unravel(i, sh)
					data.V[i] = ref.EncF(ref.F32, pr[cc[1-ax]][cc[ax]])
				}
				exp, err := ref.Softmax(data, ax, op == "LogSoftmax")
				extra := []string{"independent-slices"}
				if lastAxis && err == nil && smShortcutOff(data, n) {
					extra = append(extra, "lastaxis-max-shortcut-off")
				}
				jobs = append(jobs, newJob(op, []hx.Attr{hx.AInt("axis", int64(ax))}, []*ref.T{data}, []*ref.T{exp}, err, hx.DCompute, cmp, "op", nil, fmt.Sprintf("slices=%v last=%v", pr, lastAxis), extra...))
			}
		}
	}
	// float64 slices whose finite entries lie beyond the float32 range (and differ from each other there)
	for vi, row := range [][]float64{{1e300, 1e299, -1e300}, {1e40, 1e39}, {-1e300, -1e299}, {3.5e38, 3.4e38, 0}, {1e300, 1e300}, {-1e40, 0, 1e-40}} {
		x := ref.FromF(ref.F64, []int{len(row)}, row...)
		e4, err4 := ref.Softmax(x, 0, false)
		jobs = append(jobs, newJob("Softmax", []hx.Attr{hx.AInt("axis", 0)}, []*ref.T{x}, []*ref.T{e4}, err4, hx.DCompute, hx.Tol(1e-9, 1e-300), "op", nil, fmt.Sprintf("float64-beyond-float32 v=%d", vi), "float64-beyond-float32"))
		e2, err2 := ref.Reduce(x, []int64{0}, true, false, true)
		jobs = append(jobs, newJob("ReduceMax", []hx.Attr{hx.AInts("axes", 0), hx.AInt("keepdims", 0)}, []*ref.T{x}, []*ref.T{e2}, err2, hx.DCompute, hx.Bits, "op", nil, fmt.Sprintf("float64-beyond-float32 v=%d", vi), "float64-beyond-float32"))
		e1, err1 := ref.ArgMax(x, 0, false)
		jobs = append(jobs, newJob("ArgMax", []hx.Attr{hx.AInt("axis", 0), hx.AInt("keepdims", 0)}, []*ref.T{x}, []*ref.T{e1}, err1, hx.DCompute, hx.Bits, "op", nil, fmt.Sprintf("float64-beyond-float32 v=%d", vi), "float64-beyond-float32"))
	}
	// ties between -0 and +0 (equal values: the FIRST position wins, the reduced value may be either zero), also below
	// and above other values
	for _, dt := range []ref.DT{ref.F32, ref.F64} {
		nz := ref.EncF(dt, math.Copysign(0, -1))
		pz := ref.EncF(dt, 0)
		neg := ref.EncF(dt, -1)
		for vi, row := range [][]uint64{{nz, pz}, {pz, nz}, {nz, pz, nz}, {neg, nz, pz}, {neg, pz, nz}, {nz, nz, pz, pz}, {pz, neg, nz}} {
			x := &ref.T{DT: dt, Shape: []int{2, len(row)}, V: append(append([]uint64{}, row...), row...)}
			for _, kd := range []int{0, 1} {
				e1, err1 := ref.ArgMax(x, 1, kd != 0)
				jobs = append(jobs, newJob("ArgMax", []hx.Attr{hx.AInt("axis", 1), hx.AInt("keepdims", int64(kd))}, []*ref.T{x}, []*ref.T{e1}, err1, hx.DCompute, hx.Bits, "op", nil, fmt.Sprintf("signed-zero-ties %s v=%d kd=%d", dt, vi, kd), "signed-zero-ties"))
			}
		}
	}
	// row counts just past multiples of 16384 (row-blocked kernels: a last block of one row), few columns
	for _, sh := range [][]int{{16385, 3}, {32769, 2}, {16384, 3}, {16386, 2}} {
		x := ref.Fill(ref.F32, sh, func(i int) float64 { return float64((i*37+11)%101)/10 - 5 })
		for _, ax := range []int{1, 0} {
			e4, err4 := ref.Softmax(x, ax, false)
			jobs = append(jobs, newJob("Softmax", []hx.Attr{hx.AInt("axis", int64(ax))}, []*ref.T{x}, []*ref.T{e4}, err4, hx.DCompute, hx.Tol(2e-4, 1e-37), "op", nil, fmt.Sprintf("many-rows %v axis=%d", sh, ax), "large", "many-rows"))
			e5, err5 := ref.Softmax(x, ax, true)
			jobs = append(jobs, newJob("LogSoftmax", []hx.Attr{hx.AInt("axis", int64(ax))}, []*ref.T{x}, []*ref.T{e5}, err5, hx.DCompute, hx.Tol(2e-4, 2e-4), "op", nil, fmt.Sprintf("many-rows %v axis=%d", sh, ax), "large", "many-rows"))
			e2, err2 := ref.Reduce(x, []int64{int64(ax)}, true, false, true)
			jobs = append(jobs, newJob("ReduceMax", []hx.Attr{hx.AInts("axes", int64(ax)), hx.AInt("keepdims", 0)}, []*ref.T{x}, []*ref.T{e2}, err2, hx.DCompute, hx.Bits, "op", nil, fmt.Sprintf("many-rows %v axis=%d", sh, ax), "large", "many-rows"))
			e1, err1 := ref.ArgMax(x, ax, false)
			jobs = append(jobs, newJob("ArgMax", []hx.Attr{hx.AInt("axis", int64(ax)), hx.AInt("keepdims", 0)}, []*ref.T{x}, []*ref.T{e1}, err1, hx.DCompute, hx.Bits, "op", nil, fmt.Sprintf("many-rows %v axis=%d", sh, ax), "large", "many-rows"))
		}
	}
	// larger matrices whose FIRST row / first element dominates by more than exp() can span, normalised along axis 0
	// (every column is its own slice; the last-axis variant of this is KF-C09-1)
	for _, sh := range [][]int{{70, 64}, {64, 70}, {130, 33}} {
		for vi := 0; vi < 2; vi++ {
			x := ref.Fill(ref.F32, sh, func(i int) float64 {
				row, col := i/sh[1], i%sh[1]
				if row == 0 && (vi == 0 || col == 0) {
					return 150 + float64(col%3)
				}
				return float64((i*37+11)%101)/10 - 5
			})
			e4, err4 := ref.Softmax(x, 0, false)
			jobs = append(jobs, newJob("Softmax", []hx.Attr{hx.AInt("axis", 0)}, []*ref.T{x}, []*ref.T{e4}, err4, hx.DCompute, hx.Tol(2e-4, 1e-37), "op", nil, fmt.Sprintf("dominant-first-row %v v=%d", sh, vi), "large", "dominant-first-row"))
			e5, err5 := ref.Softmax(x, 0, true)
			jobs = append(jobs, newJob("LogSoftmax", []hx.Attr{hx.AInt("axis", 0)}, []*ref.T{x}, []*ref.T{e5}, err5, hx.DCompute, hx.Tol(2e-4, 2e-4), "op", nil, fmt.Sprintf("dominant-first-row %v v=%d", sh, vi), "large", "dominant-first-row"))
		}
	}
	// long slices full of ties (maxima that repeat at even and odd positions, near the start, near the end): unrolled or
	// multi-lane scans must still return the FIRST position
	for _, dt := range []ref.DT{ref.F32, ref.I32, ref.I64, ref.F64} {
		for _, n := range []int{513, 700, 1031} {
			for variant := 0; variant < 4; variant++ {
				x := ref.Fill(dt, []int{3, n}, func(i int) float64 {
					col, row := i%n, i/n
					switch variant {
					case 0:
						return float64((col*7 + row) % 5) // small alphabet: ties everywhere
					case 1: // the maximum first at an odd position, again at later even ones
						if col == 301+2*row || col == 400 || col == n-1 {
							return 9
						}
						return float64(col % 4)
					case 2: // the maximum first at an even position, again at later odd ones
						if col == 2*row+100 || col == 333 || col == n-2 {
							return 9
						}
						return float64(col % 3)
					}
					if col >= n-3 { // maxima only in the tail (remainder of a blocked scan)
						return 7
					}
					return float64(col % 7)
				})
				for _, ax := range []int{1, -1, 0} {
					for _, kd := range []int{0, 1} {
						e1, err1 := ref.ArgMax(x, ax, kd != 0)
						jobs = append(jobs, newJob("ArgMax", []hx.Attr{hx.AInt("axis", int64(ax)), hx.AInt("keepdims", int64(kd))}, []*ref.T{x}, []*ref.T{e1}, err1, hx.DCompute, hx.Bits, "op", nil, fmt.Sprintf("long-ties %s n=%d v=%d axis=%d kd=%d", dt, n, variant, ax, kd), "large", "ties"))
					}
					a := int64(ax)
					e2, err2 := ref.Reduce(x, []int64{a}, true, true, true)
					jobs = append(jobs, newJob("ReduceMax", []hx.Attr{hx.AInts("axes", a), hx.AInt("keepdims", 1)}, []*ref.T{x}, []*ref.T{e2}, err2, hx.DCompute, hx.Bits, "op", nil, fmt.Sprintf("long-ties %s n=%d v=%d axis=%d", dt, n, variant, ax), "large", "ties"))
					e3, err3 := ref.Reduce(x, []int64{a}, true, true, false)
					jobs = append(jobs, newJob("ReduceMin", []hx.Attr{hx.AInts("axes", a), hx.AInt("keepdims", 1)}, []*ref.T{x}, []*ref.T{e3}, err3, hx.DCompute, hx.Bits, "op", nil, fmt.Sprintf("long-ties %s n=%d v=%d axis=%d", dt, n, variant, ax), "large", "ties"))
				}
			}
		}
	}
	// larger shapes beyond the exhaustive box
	for _, sh := range [][]int{{4, 5, 6}, {2, 17}, {9, 1, 8}, {37, 111}, {4099}, {3, 1367}, {5, 13, 1009}} {
		x := ref.Fill(ref.F32, sh, func(i int) float64 { return float64((i*37+11)%101)/10 - 5 })
		for ax := 0; ax < len(sh); ax++ {
			for _, kd := range []int{0, 1} {
				e1, err1 := ref.ArgMax(x, ax, kd != 0)
				jobs = append(jobs, newJob("ArgMax", []hx.Attr{hx.AInt("axis", int64(ax)), hx.AInt("keepdims", int64(kd))}, []*ref.T{x}, []*ref.T{e1}, err1, hx.DCompute, hx.Bits, "op", nil, fmt.Sprintf("large axis=%d kd=%d", ax, kd), "large"))
				e2, err2 := ref.Reduce(x, []int64{int64(ax)}, true, kd != 0, true)
				jobs = append(jobs, newJob("ReduceMax", []hx.Attr{hx.AInts("axes", int64(ax)), hx.AInt("keepdims", int64(kd))}, []*ref.T{x}, []*ref.T{e2}, err2, hx.DCompute, hx.Bits, "op", nil, fmt.Sprintf("large axis=%d kd=%d", ax, kd), "large"))
				e3, err3 := ref.Reduce(x, []int64{int64(ax)}, true, kd != 0, false)
				jobs = append(jobs, newJob("ReduceMin", []hx.Attr{hx.AInts("axes", int64(ax)), hx.AInt("keepdims", int64(kd))}, []*ref.T{x}, []*ref.T{e3}, err3, hx.DCompute, hx.Bits, "op", nil, fmt.Sprintf("large axis=%d kd=%d", ax, kd), "large"))
			}
			e4, err4 := ref.Softmax(x, ax, false)
			jobs = append(jobs, newJob("Softmax", []hx.Attr{hx.AInt("axis", int64(ax))}, []*ref.T{x}, []*ref.T{e4}, err4, hx.DCompute, hx.Tol(2e-4, 1e-37), "op", nil, fmt.Sprintf("large axis=%d", ax), "large"))
			e5, err5 := ref.Softmax(x, ax, true)
			jobs = append(jobs, newJob("LogSoftmax", []hx.Attr{hx.AInt("axis", int64(ax))}, []*ref.T{x}, []*ref.T{e5}, err5, hx.DCompute, hx.Tol(2e-4, 2e-4), "op", nil, fmt.Sprintf("large axis=%d", ax), "large"))
		}
	}
	runOpJobs(c, jobs)
	runReuseJobs(c, jobs)
}

// smShortcutOff: gorgonia's last-axis Softmax kernel shifts each slice by max(x[0], slice[1:]) - x[0] being the
// first element of the whole tensor - instead of by the slice maximum (KF-C09-1). This predicate marks exactly
// the inputs on which that matters beyond rounding: the two maxima differ by more than the exp() range, or the
// wrong shift pushes an element below the exp() underflow threshold that the right shift keeps above it.
func smShortcutOff(data *ref.T, n int) bool {
	lim, under, zero := 60.0, -87.0, -104.0
	if data.DT == ref.F64 {
		lim, under, zero = 600.0, -708.0, -746.0
	}
	for s0 := 0; s0 < len(data.V); s0 += n {
		tm, cm := math.Inf(-1), data.F(0)
		for k := 0; k < n; k++ {
			v := data.F(s0 + k)
			tm = math.Max(tm, v)
			if k > 0 {
				cm = math.Max(cm, v)
			}
		}
		if math.Abs(tm-cm) > lim {
			return true
		}
		if cm != tm {
			for k := 0; k < n; k++ {
				v := data.F(s0 + k)
				if v-cm < under && v-tm > zero {
					return true
				}
			}
		}
	}
	return false
}

func normAxisC(a, r int) (int, bool) {
	if a < 0 {
		a += r
	}
	return a, a >= 0 && a < r
}
