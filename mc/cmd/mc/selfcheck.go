package main

// selfCheck validates the reference interpreter against golden vectors (see golden.go) before
// any verdict is produced. A disagreement is a harness error, never a verdict about gonnx.
func selfCheck() {
	for _, f := range selfChecks {
		f()
	}
}

var selfChecks []func()
