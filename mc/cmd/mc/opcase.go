package main

import (
	"encoding/json"
	"fmt"
	"math"
	"os"
	"runtime"
	"sort"
	"strings"

	"verifmc/hx"
	"verifmc/ref"
)

// opReplay is the replay body of every operator-level case (E1).
type opReplay struct {
	ReplayKind string     `json:"replay_kind"`
	Case       *hx.OpCase `json:"case"`
	Domain     hx.Domain  `json:"domain"`
	Expected   []*hx.TJ   `json:"expected,omitempty"`
	Cmp        hx.Cmp     `json:"cmp"`
	Observed   string     `json:"observed,omitempty"`
}

func init() {
	replayers["op"] = func(raw json.RawMessage) *hx.Violation {
		var r opReplay
		if err := json.Unmarshal(raw, &r); err != nil {
			return &hx.Violation{Kind: "bad-replay", Detail: err.Error()}
		}
		return judgeOp(r.Case, r.Domain, hx.TJsT(r.Expected), r.Cmp)
	}
}

// judgeOp runs the case on the real implementation and judges it against exp.
func judgeOp(oc *hx.OpCase, dom hx.Domain, exp []*ref.T, cmp hx.Cmp) *hx.Violation {
	res := hx.RunOp(oc)
	kind, detail := hx.Judge(dom, res, exp, cmp)
	if kind == "" {
		switch {
		case res.Err != nil:
			return hx.OK("refused/" + string(dom))
		default:
			return hx.OK("match/" + string(dom))
		}
	}
	obs := ""
	if res.Err != nil {
		obs = "error: " + res.Err.Error()
	} else if len(res.Outs) > 0 {
		obs = fmt.Sprint(res.Outs)
	}
	return &hx.Violation{Kind: kind, Detail: detail, Replay: &opReplay{ReplayKind: "op", Case: oc, Domain: dom, Expected: hx.ToTJs(exp), Cmp: cmp, Observed: truncateS(obs, 400)}}
}

func truncateS(s string, n int) string {
	if len(s) > n {
		return s[:n] + "..."
	}
	return s
}

// opJob is one enumerated operator case.
type opJob struct {
	id   string
	tags []string
	nt   bool
	oc   *hx.OpCase
	dom  hx.Domain
	exp  []*ref.T
	cmp  hx.Cmp
}

func filterJobs(jobs []opJob) []opJob {
	only := os.Getenv("VERIF_ONLY")
	if only == "" {
		return jobs
	}
	var out []opJob
	for _, j := range jobs {
		if strings.Contains(j.id, only) {
			out = append(out, j)
		}
	}
	return out
}

// withReversedAttrs: the attribute list of a node is unordered; every job with two or more attributes is
// also run with the list reversed and must be judged identically.
func withReversedAttrs(jobs []opJob) []opJob {
	out := jobs
	for i := range jobs {
		j := jobs[i]
		if len(j.oc.Attrs) < 2 {
			continue
		}
		oc := *j.oc
		oc.Attrs = make([]hx.Attr, len(j.oc.Attrs))
		for k, a := range j.oc.Attrs {
			oc.Attrs[len(oc.Attrs)-1-k] = a
		}
		j.oc = &oc
		j.id += "/attrs-reversed"
		j.tags = append(append([]string{}, j.tags...), "attrs-reversed")
		out = append(out, j)
	}
	return out
}

// explicitDefaults: attributes an ONNX node may spell out with their default value; nd = number of spatial axes (Conv).
func explicitDefaults(op string, nd int) []hx.Attr {
	ones := func(n int, v int64) []int64 {
		o := make([]int64, n)
		for i := range o {
			o[i] = v
		}
		return o
	}
	switch op {
	case "Gemm":
		return []hx.Attr{hx.AFloat("alpha", 1), hx.AFloat("beta", 1), hx.AInt("transA", 0), hx.AInt("transB", 0)}
	case "Conv":
		return []hx.Attr{hx.AInt("group", 1), hx.AStr("auto_pad", "NOTSET"), hx.AInts("dilations", ones(nd, 1)...), hx.AInts("strides", ones(nd, 1)...), hx.AInts("pads", ones(2*nd, 0)...)}
	case "Softmax", "LogSoftmax":
		return []hx.Attr{hx.AInt("axis", -1)}
	case "ArgMax":
		return []hx.Attr{hx.AInt("axis", 0), hx.AInt("keepdims", 1), hx.AInt("select_last_index", 0)}
	case "ReduceMax", "ReduceMin":
		return []hx.Attr{hx.AInt("keepdims", 1)}
	case "Flatten":
		return []hx.Attr{hx.AInt("axis", 1)}
	case "Gather":
		return []hx.Attr{hx.AInt("axis", 0)}
	case "GRU":
		return []hx.Attr{hx.AInt("linear_before_reset", 0), hx.AStr("direction", "forward")}
	case "LSTM":
		return []hx.Attr{hx.AInt("input_forget", 0), hx.AStr("direction", "forward")}
	case "RNN":
		return []hx.Attr{hx.AStr("direction", "forward")}
	}
	return nil
}

// withExplicitDefaults: every job whose node leaves defaultable attributes out is also run with ALL of them spelled
// out with their default values (a node may do so); the expectation is the same. (Where the explicit spelling of one
// attribute conflicts with one the job sets - auto_pad next to pads - that attribute is left out.)
func withExplicitDefaults(jobs []opJob) []opJob {
	out := jobs
	for i := range jobs {
		j := jobs[i]
		nd := 0
		if j.oc.Op == "Conv" && len(j.oc.Inputs) > 0 && j.oc.Inputs[0] != nil {
			nd = len(j.oc.Inputs[0].Shape) - 2
			if nd < 1 {
				continue
			}
		}
		defs := explicitDefaults(j.oc.Op, nd)
		if defs == nil {
			continue
		}
		have := map[string]bool{}
		for _, a := range j.oc.Attrs {
			have[a.Name] = true
		}
		var add []hx.Attr
		for _, d := range defs {
			if have[d.Name] {
				continue
			}
			if j.oc.Op == "Conv" && ((d.Name == "pads" && have["auto_pad"]) || (d.Name == "auto_pad" && false)) {
				continue // pads next to an auto_pad mode other than NOTSET is not a valid node
			}
			add = append(add, d)
		}
		if len(add) == 0 {
			continue
		}
		oc := *j.oc
		oc.Attrs = append(append([]hx.Attr{}, j.oc.Attrs...), add...)
		j.oc = &oc
		j.id += "/defaults-spelled-out"
		j.tags = append(append([]string{}, j.tags...), "defaults-spelled-out")
		out = append(out, j)
	}
	return out
}

func runOpJobs(c *hx.Checker, jobs []opJob) {
	plain := filterJobs(jobs)
	jobs = withReversedAttrs(withExplicitDefaults(plain))
	c.ParallelFor(len(jobs), func(i int) {
		j := &jobs[i]
		sample := map[string]any{"id": j.id, "domain": j.dom}
		c.Case(hx.CaseInfo{ID: j.id, Tags: j.tags, NonTrivial: j.nt, Sample: sample}, func() *hx.Violation {
			v := judgeOp(j.oc, j.dom, j.exp, j.cmp)
			if os.Getenv("VERIF_DEBUG") != "" {
				fmt.Printf("DEBUG %s -> %+v\n", j.id, v)
			}
			return v
		})
	})
	runLargeUnderProcs(c, plain)
}

// runLargeUnderProcs: the number of processors the runtime reports is an environment answer: a kernel that splits its
// work by runtime.GOMAXPROCS / NumCPU takes other block sizes on another machine. The large cases (the only ones such
// splitting applies to) are run again with the runtime set to 1, 3, 7 and 64 processors.
func runLargeUnderProcs(c *hx.Checker, jobs []opJob) {
	var large []int
	for i := range jobs {
		for _, t := range jobs[i].tags {
			if t == "large" {
				large = append(large, i)
				break
			}
		}
	}
	if len(large) == 0 {
		return
	}
	old := runtime.GOMAXPROCS(0)
	defer runtime.GOMAXPROCS(old)
	for _, procs := range []int{1, 3, 7, 64} {
		runtime.GOMAXPROCS(procs)
		c.ParallelFor(len(large), func(k int) {
			j := &jobs[large[k]]
			c.Case(hx.CaseInfo{ID: fmt.Sprintf("%s/GOMAXPROCS=%d", j.id, procs), Tags: append(append([]string{}, j.tags...), "gomaxprocs"), NonTrivial: j.nt}, func() *hx.Violation {
				return judgeOp(j.oc, j.dom, j.exp, j.cmp)
			})
		})
	}
}

// extremeInts: attribute / index values at the edges of the 64- and 32-bit ranges.
var extremeInts = []int64{1 << 62, 1 << 31, 1 << 61, math.MinInt64, math.MinInt64 + 1, math.MaxInt64, math.MaxInt64 - 1, math.MinInt32, math.MinInt32 - 1, math.MaxInt32, math.MaxInt32 + 1, 1 << 32, -(1 << 32), 1<<32 + 1, 1<<63 - 1<<31}

func tjs(ts ...*ref.T) []*hx.TJ { return hx.ToTJs(ts) }

// rotatedContents: the same request with the contents of every input rotated by one element (single-element
// inputs: lowest bit of the payload flipped), i.e. "the same tensor objects holding other values".
func rotatedContents(oc *hx.OpCase) *hx.OpCase {
	out := *oc
	out.Inputs = make([]*hx.TJ, len(oc.Inputs))
	for i, in := range oc.Inputs {
		if in == nil {
			continue
		}
		t := in.T()
		n := len(t.V)
		v := make([]uint64, n)
		for k := range v {
			v[k] = t.V[(k+1)%n]
		}
		if n == 1 {
			v[0] = t.V[0] ^ 1
			if t.DT == ref.F32 {
				v[0] = t.V[0] ^ 0x00400000
			}
		}
		out.Inputs[i] = hx.ToTJ(&ref.T{DT: t.DT, Shape: t.Shape, V: v})
	}
	return &out
}

// jobSig: coarse class of a job used to pick diverse predecessors: domain, absent pattern, ranks, dtypes.
func jobSig(j *opJob) string {
	var b strings.Builder
	b.WriteString(string(j.dom))
	for _, in := range j.oc.Inputs {
		if in == nil {
			b.WriteString("|-")
			continue
		}
		fmt.Fprintf(&b, "|%s:%d", in.DT, len(in.Shape))
	}
	return b.String()
}

// reusePairBudget bounds the number of (predecessor, request) pairs per check and tier.
func reusePairBudget(c *hx.Checker) int {
	if c.Tier == "thorough" {
		return 6000000
	}
	return 1500000
}

// runReuseJobs: operator-instance histories. Jobs of the same node (same operator, same attributes) form a
// group; one operator instance is Init'ed once, serves a predecessor request (result discarded, refusals and
// panics ignored) and then the request under test, which is judged exactly like a fresh one. Predecessors:
// every other job of the group when the group is small (all ordered pairs), otherwise one job per class
// (domain x absent-pattern x ranks x dtypes, so refused and vector/scalar/batched requests all occur as
// predecessors) plus the immediately preceding job; the immediately preceding two jobs give depth 3.
// A second family keeps the caller's tensor objects instead of the instance: the objects that carried the
// predecessor's values are refilled in place and carry the request under test (same-signature jobs only).
func runReuseJobs(c *hx.Checker, jobs []opJob) {
	jobs = filterJobs(jobs)
	type pair struct {
		prev2, prev, cur int
		refill           int // 0: instance reuse, 1: refill + same instance, 2: refill + fresh instance
	}
	groups := map[string][]int{}
	var order []string
	for i := range jobs {
		j := &jobs[i]
		if j.oc.Route != "op" && j.oc.Route != "" {
			continue
		}
		key := j.oc.Op + "|" + hx.AttrsKey(j.oc.Attrs)
		if _, ok := groups[key]; !ok {
			order = append(order, key)
		}
		groups[key] = append(groups[key], i)
	}
	budget := reusePairBudget(c)
	// small groups get all ordered pairs (smallest first, up to half of the budget) ...
	bySize := append([]string{}, order...)
	sort.SliceStable(bySize, func(a, b int) bool { return len(groups[bySize[a]]) < len(groups[bySize[b]]) })
	full := map[string]bool{}
	spent, bigJobs := 0, 0
	for _, k := range bySize {
		n := len(groups[k])
		if n <= 12 || (n <= 600 && spent+n*(n-1) <= budget/2) {
			full[k] = true
			spent += n * (n - 1)
		} else {
			bigJobs += n
		}
	}
	// ... the others one predecessor per class, as many classes as the remaining budget allows
	maxP := 4
	if bigJobs > 0 {
		if m := (budget - spent) / bigJobs; m > maxP {
			maxP = m
		}
		if maxP > 24 {
			maxP = 24
		}
	}
	var pairs []pair
	allPairs, classPairs := 0, 0
	for _, key := range order {
		g := groups[key]
		var preds []int
		if full[key] {
			preds = g
			allPairs++
		} else {
			seen := map[string]bool{}
			for _, i := range g {
				if s := jobSig(&jobs[i]); !seen[s] && len(preds) < maxP {
					seen[s] = true
					preds = append(preds, i)
				}
			}
			classPairs++
		}
		inPreds := map[int]bool{}
		for _, p := range preds {
			inPreds[p] = true
		}
		lastSig := map[string]int{}
		for gi, i := range g {
			for _, p := range preds {
				if p != i {
					pairs = append(pairs, pair{-1, p, i, 0})
				}
			}
			if gi >= 1 && !inPreds[g[gi-1]] {
				pairs = append(pairs, pair{-1, g[gi-1], i, 0})
			}
			if gi >= 2 {
				pairs = append(pairs, pair{g[gi-2], g[gi-1], i, 0})
			}
			// refill: most recent job of the group with identical signature
			sig := ""
			for _, in := range jobs[i].oc.Inputs {
				if in == nil {
					sig += "|-"
				} else {
					sig += fmt.Sprintf("|%s%v", in.DT, in.Shape)
				}
			}
			if p, ok := lastSig[sig]; ok {
				pairs = append(pairs, pair{-1, p, i, 1}, pair{-1, p, i, 2})
			}
			lastSig[sig] = i
			// and a synthetic predecessor: the same request with every input's contents rotated by one element
			pairs = append(pairs, pair{-1, -1, i, 3})
		}
	}
	// (accumulated over batches when a check runs its jobs in several batches)
	if prev, ok := c.Extra["reuse_histories"].(map[string]any); ok {
		c.Extra["reuse_histories"] = map[string]any{"histories": len(pairs) + prev["histories"].(int), "groups_all_ordered_pairs": allPairs + prev["groups_all_ordered_pairs"].(int),
			"groups_one_predecessor_per_class": classPairs + prev["groups_one_predecessor_per_class"].(int), "batches": prev["batches"].(int) + 1}
	} else {
		c.Extra["reuse_histories"] = map[string]any{"histories": len(pairs), "groups_all_ordered_pairs": allPairs, "groups_one_predecessor_per_class": classPairs, "batches": 1}
	}
	c.ParallelFor(len(pairs), func(k int) {
		p := pairs[k]
		cur := &jobs[p.cur]
		var prev *opJob
		if p.prev >= 0 {
			prev = &jobs[p.prev]
		} else {
			prev = &opJob{id: "rotated-contents", oc: rotatedContents(cur.oc)}
		}
		var chain []*hx.OpCase
		if p.prev2 >= 0 {
			chain = append(chain, jobs[p.prev2].oc)
		}
		chain = append(chain, prev.oc)
		pre, what := "reuse", "on a reused operator instance: "
		tags := append([]string{"instance-reuse"}, cur.tags...)
		switch p.refill {
		case 1:
			pre, what = "refill-same-instance", "with the caller's tensor objects refilled in place (same operator instance): "
			tags = append([]string{"tensor-object-reuse"}, cur.tags...)
		case 3:
			pre, what = "refill-rotated", "with the caller's tensor objects first carrying other contents, then refilled in place (same operator instance): "
			tags = append([]string{"tensor-object-reuse"}, cur.tags...)
		case 2:
			pre, what = "refill-fresh-instance", "with the caller's tensor objects refilled in place (fresh operator instance): "
			tags = append([]string{"tensor-object-reuse"}, cur.tags...)
		}
		id := pre + "(" + prev.id + ")->" + cur.id
		if p.prev2 >= 0 {
			id = pre + "(" + jobs[p.prev2].id + "," + prev.id + ")->" + cur.id
		}
		c.Case(hx.CaseInfo{ID: id, Tags: tags, NonTrivial: true}, func() *hx.Violation {
			var res hx.Result
			rk := "op-reuse"
			switch p.refill {
			case 0:
				res = hx.RunOpReuse(chain, cur.oc)
			default:
				res = hx.RunOpRefill(prev.oc, cur.oc, p.refill != 2)
				rk = fmt.Sprintf("op-refill-%d", p.refill)
				if res.Phase == "harness" {
					return hx.OK("refill-not-applicable")
				}
			}
			kind, detail := hx.Judge(cur.dom, res, cur.exp, cur.cmp)
			if kind == "" {
				if res.Err != nil {
					return hx.OK(pre + "-refused/" + string(cur.dom))
				}
				return hx.OK(pre + "-match/" + string(cur.dom))
			}
			return &hx.Violation{Kind: kind, Detail: what + detail,
				Replay: map[string]any{"replay_kind": rk, "chain": chain, "case": cur.oc, "domain": cur.dom, "expected": hx.ToTJs(cur.exp), "cmp": cur.cmp}}
		})
	})
}

func init() {
	replayers["op-reuse"] = func(raw json.RawMessage) *hx.Violation {
		var r struct {
			Prev     *hx.OpCase   `json:"prev"`
			Chain    []*hx.OpCase `json:"chain"`
			Case     *hx.OpCase   `json:"case"`
			Domain   hx.Domain    `json:"domain"`
			Expected []*hx.TJ     `json:"expected"`
			Cmp      hx.Cmp       `json:"cmp"`
		}
		if err := json.Unmarshal(raw, &r); err != nil {
			return &hx.Violation{Kind: "bad-replay", Detail: err.Error()}
		}
		if r.Chain == nil && r.Prev != nil {
			r.Chain = []*hx.OpCase{r.Prev}
		}
		res := hx.RunOpReuse(r.Chain, r.Case)
		kind, detail := hx.Judge(r.Domain, res, hx.TJsT(r.Expected), r.Cmp)
		if kind == "" {
			return nil
		}
		return &hx.Violation{Kind: kind, Detail: detail}
	}
	for _, mode := range []int{1, 2, 3} {
		mode := mode
		replayers[fmt.Sprintf("op-refill-%d", mode)] = func(raw json.RawMessage) *hx.Violation {
			var r struct {
				Chain    []*hx.OpCase `json:"chain"`
				Case     *hx.OpCase   `json:"case"`
				Domain   hx.Domain    `json:"domain"`
				Expected []*hx.TJ     `json:"expected"`
				Cmp      hx.Cmp       `json:"cmp"`
			}
			if err := json.Unmarshal(raw, &r); err != nil || len(r.Chain) == 0 {
				return &hx.Violation{Kind: "bad-replay", Detail: fmt.Sprint(err)}
			}
			res := hx.RunOpRefill(r.Chain[len(r.Chain)-1], r.Case, mode != 2)
			kind, detail := hx.Judge(r.Domain, res, hx.TJsT(r.Expected), r.Cmp)
			if kind == "" {
				return nil
			}
			return &hx.Violation{Kind: kind, Detail: detail}
		}
	}
}

// newJob builds an operator job: reference error => the request must be refused (DError),
// otherwise dom applies and exps are the expected outputs.
func newJob(op string, attrs []hx.Attr, ins []*ref.T, exps []*ref.T, refErr error, dom hx.Domain, cmp hx.Cmp, route string, init []bool, desc string, extra ...string) opJob {
	if refErr != nil {
		dom, exps = hx.DError, nil
	}
	rt, in2 := route, init
	if route == "model-init" {
		rt = "model"
		if in2 == nil {
			in2 = make([]bool, len(ins))
			for i := 1; i < len(ins); i++ {
				in2[i] = true
			}
		}
	}
	nOut := len(exps)
	if nOut == 0 {
		nOut = 1
	}
	oc := &hx.OpCase{Op: op, Attrs: attrs, Inputs: hx.ToTJs(ins), NOut: nOut, Route: rt, Init: in2}
	dt, shape := "none", []int{}
	if len(ins) > 0 && ins[0] != nil {
		dt, shape = ins[0].DT.String(), ins[0].Shape
	}
	tags := append([]string{"op=" + op, "dtype=" + dt, "route=" + route, "domain=" + string(dom), fmt.Sprintf("rank=%d", len(shape))}, extra...)
	id := fmt.Sprintf("%s/%s/%s/%v/%s", op, dt, route, shape, desc)
	return opJob{id: id, tags: tags, nt: true, oc: oc, dom: dom, exp: exps, cmp: cmp}
}
