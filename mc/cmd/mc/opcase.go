package main

import (
	"encoding/json"
	"fmt"
	"os"
	"strings"

	"verifmc/hx"
	"verifmc/ref"
)

// opReplay is the replay body of every operator-level case (E1).
type opReplay struct {
	ReplayKind string     `json:"replay_kind"`
	Case       *hx.OpCase `json:"case"`
	Domain     hx.Domain  `json:"domain"`
	Expected   []*hx.TJ   `json:"expected,omitempty"`
	Cmp        hx.Cmp     `json:"cmp"`
	Observed   string     `json:"observed,omitempty"`
}

func init() {
	replayers["op"] = func(raw json.RawMessage) *hx.Violation {
		var r opReplay
		if err := json.Unmarshal(raw, &r); err != nil {
			return &hx.Violation{Kind: "bad-replay", Detail: err.Error()}
		}
		return judgeOp(r.Case, r.Domain, hx.TJsT(r.Expected), r.Cmp)
	}
}

// judgeOp runs the case on the real implementation and judges it against exp.
func judgeOp(oc *hx.OpCase, dom hx.Domain, exp []*ref.T, cmp hx.Cmp) *hx.Violation {
	res := hx.RunOp(oc)
	kind, detail := hx.Judge(dom, res, exp, cmp)
	if kind == "" {
		switch {
		case res.Err != nil:
			return hx.OK("refused/" + string(dom))
		default:
			return hx.OK("match/" + string(dom))
		}
	}
	obs := ""
	if res.Err != nil {
		obs = "error: " + res.Err.Error()
	} else if len(res.Outs) > 0 {
		obs = fmt.Sprint(res.Outs)
	}
	return &hx.Violation{Kind: kind, Detail: detail, Replay: &opReplay{ReplayKind: "op", Case: oc, Domain: dom, Expected: hx.ToTJs(exp), Cmp: cmp, Observed: truncateS(obs, 400)}}
}

func truncateS(s string, n int) string {
	if len(s) > n {
		return s[:n] + "..."
	}
	return s
}

// opJob is one enumerated operator case.
type opJob struct {
	id   string
	tags []string
	nt   bool
	oc   *hx.OpCase
	dom  hx.Domain
	exp  []*ref.T
	cmp  hx.Cmp
}

func filterJobs(jobs []opJob) []opJob {
	only := os.Getenv("VERIF_ONLY")
	if only == "" {
		return jobs
	}
	var out []opJob
	for _, j := range jobs {
		if strings.Contains(j.id, only) {
			out = append(out, j)
		}
	}
	return out
}

func runOpJobs(c *hx.Checker, jobs []opJob) {
	jobs = filterJobs(jobs)
	c.ParallelFor(len(jobs), func(i int) {
		j := &jobs[i]
		sample := map[string]any{"id": j.id, "domain": j.dom}
		c.Case(hx.CaseInfo{ID: j.id, Tags: j.tags, NonTrivial: j.nt, Sample: sample}, func() *hx.Violation {
			v := judgeOp(j.oc, j.dom, j.exp, j.cmp)
			if os.Getenv("VERIF_DEBUG") != "" {
				fmt.Printf("DEBUG %s -> %+v\n", j.id, v)
			}
			return v
		})
	})
}

func tjs(ts ...*ref.T) []*hx.TJ { return hx.ToTJs(ts) }

// runReuseJobs: operator-instance histories of depth 2 and 3. For consecutive op-route jobs of the same
// node (same operator, same attributes) one operator instance is Init'ed once and then serves
// the previous job's inputs followed by this job's inputs; the second answer is judged exactly
// like a fresh one. (An operator whose Apply leaves state behind fails here.)
func runReuseJobs(c *hx.Checker, jobs []opJob) {
	jobs = filterJobs(jobs)
	type pair struct{ prev2, prev, cur int }
	last := map[string]int{}
	last2 := map[string]int{}
	var pairs []pair
	for i := range jobs {
		j := &jobs[i]
		if j.oc.Route != "op" && j.oc.Route != "" {
			continue
		}
		key := j.oc.Op + "|" + hx.MustJSON(j.oc.Attrs)
		if p, ok := last[key]; ok {
			p2 := -1
			if q, ok2 := last2[key]; ok2 {
				p2 = q // history of depth 3: two earlier requests served by the same instance
			}
			pairs = append(pairs, pair{p2, p, i})
			last2[key] = p
		}
		last[key] = i
	}
	c.ParallelFor(len(pairs), func(k int) {
		p := pairs[k]
		prev, cur := &jobs[p.prev], &jobs[p.cur]
		var chain []*hx.OpCase
		if p.prev2 >= 0 {
			chain = append(chain, jobs[p.prev2].oc)
		}
		chain = append(chain, prev.oc)
		id := "reuse(" + prev.id + ")->" + cur.id
		tags := append([]string{"instance-reuse"}, cur.tags...)
		c.Case(hx.CaseInfo{ID: id, Tags: tags, NonTrivial: true}, func() *hx.Violation {
			res := hx.RunOpReuse(chain, cur.oc)
			kind, detail := hx.Judge(cur.dom, res, cur.exp, cur.cmp)
			if kind == "" {
				if res.Err != nil {
					return hx.OK("reuse-refused/" + string(cur.dom))
				}
				return hx.OK("reuse-match/" + string(cur.dom))
			}
			return &hx.Violation{Kind: kind, Detail: "on a reused operator instance: " + detail,
				Replay: map[string]any{"replay_kind": "op-reuse", "chain": chain, "case": cur.oc, "domain": cur.dom, "expected": hx.ToTJs(cur.exp), "cmp": cur.cmp}}
		})
	})
}

func init() {
	replayers["op-reuse"] = func(raw json.RawMessage) *hx.Violation {
		var r struct {
			Prev     *hx.OpCase   `json:"prev"`
			Chain    []*hx.OpCase `json:"chain"`
			Case     *hx.OpCase   `json:"case"`
			Domain   hx.Domain    `json:"domain"`
			Expected []*hx.TJ     `json:"expected"`
			Cmp      hx.Cmp       `json:"cmp"`
		}
		if err := json.Unmarshal(raw, &r); err != nil {
			return &hx.Violation{Kind: "bad-replay", Detail: err.Error()}
		}
		if r.Chain == nil && r.Prev != nil {
			r.Chain = []*hx.OpCase{r.Prev}
		}
		res := hx.RunOpReuse(r.Chain, r.Case)
		kind, detail := hx.Judge(r.Domain, res, hx.TJsT(r.Expected), r.Cmp)
		if kind == "" {
			return nil
		}
		return &hx.Violation{Kind: kind, Detail: detail}
	}
}

// newJob builds an operator job: reference error => the request must be refused (DError),
// otherwise dom applies and exps are the expected outputs.
func newJob(op string, attrs []hx.Attr, ins []*ref.T, exps []*ref.T, refErr error, dom hx.Domain, cmp hx.Cmp, route string, init []bool, desc string, extra ...string) opJob {
	if refErr != nil {
		dom, exps = hx.DError, nil
	}
	rt, in2 := route, init
	if route == "model-init" {
		rt = "model"
		if in2 == nil {
			in2 = make([]bool, len(ins))
			for i := 1; i < len(ins); i++ {
				in2[i] = true
			}
		}
	}
	nOut := len(exps)
	if nOut == 0 {
		nOut = 1
	}
	oc := &hx.OpCase{Op: op, Attrs: attrs, Inputs: hx.ToTJs(ins), NOut: nOut, Route: rt, Init: in2}
	dt, shape := "none", []int{}
	if len(ins) > 0 && ins[0] != nil {
		dt, shape = ins[0].DT.String(), ins[0].Shape
	}
	tags := append([]string{"op=" + op, "dtype=" + dt, "route=" + route, "domain=" + string(dom), fmt.Sprintf("rank=%d", len(shape))}, extra...)
	id := fmt.Sprintf("%s/%s/%s/%v/%s", op, dt, route, shape, desc)
	return opJob{id: id, tags: tags, nt: true, oc: oc, dom: dom, exp: exps, cmp: cmp}
}
