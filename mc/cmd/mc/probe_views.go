package main

import (
	"fmt"

	"gorgonia.org/tensor"
	"verifmc/hx"
	"verifmc/ref"
)

// `mc probe-views` (development aid, not a check): every representative operator case with one input at a time handed
// over as a non-contiguous view. On the pinned tree most operators mishandle such operands (wrong values, wrong
// shapes, refusals, panics - gorgonia kernels and gonnx code that read Data() directly), which is why memory layout
// is not part of any check's input space (DESIGN.md, section 5).

// viewOf builds a non-contiguous view holding exactly t's logical values: a tensor whose last axis is one longer,
// sliced back to t's shape (rank >= 1, more than one row) - what a caller gets from tensor.Slice.
func viewOf(t *ref.T) tensor.Tensor {
	if t == nil {
		return nil
	}
	r := len(t.Shape)
	if r == 0 {
		return hx.ToG(t)
	}
	big := append([]int{}, t.Shape...)
	big[r-1]++
	bt := ref.New(t.DT, big...)
	for i := range bt.V {
		c := ref.Unravel(i, big)
		if c[r-1] < t.Shape[r-1] {
			bt.V[i] = t.V[ref.Ravel(c, t.Shape)]
		} else {
			bt.V[i] = t.V[0] ^ 0x5555
		}
	}
	g := hx.ToG(bt)
	sl := make([]tensor.Slice, r)
	for i := range sl {
		sl[i] = nil
	}
	sl[r-1] = tensor.S(0, t.Shape[r-1])
	v, err := g.Slice(sl...)
	if err != nil {
		return hx.ToG(t)
	}
	return v
}

func probeViewsMain() {
	for _, rc := range repCases() {
		exp, err := refEval(rc.Op, rc.Attrs, rc.Inputs)
		if err != nil {
			continue
		}
		for pos, in := range rc.Inputs {
			if in == nil || len(in.Shape) == 0 {
				continue
			}
			g := hx.ToGs(rc.Inputs)
			g[pos] = viewOf(in)
			oc := rc.opCase()
			res := hx.RunOpTensors(rc.Op, hx.NodeForCase(oc), g)
			k, d := hx.Judge(hx.DCompute, res, exp, hx.Tol(1e-4, 1e-4))
			fmt.Printf("%-28s view@%d: %s %s\n", rc.id(), pos, k, truncateS(d, 100))
		}
	}
}

// `mc probe-dtypes` (development aid): which of the per-type representative cases the pinned implementation refuses at
// run time although the operator's gate admits the type (the list that repCases hard-codes as excluded).
func probeDtypesMain() {
	for _, rc := range repCases() {
		if len(rc.Desc) < 5 || rc.Desc[:5] != "elem=" {
			continue
		}
		res := hx.RunOp(rc.opCase())
		if res.Err != nil || res.Panic != "" {
			fmt.Printf("%s %s: err=%v panic=%.80s\n", rc.Op, rc.Desc, res.Err, res.Panic)
		}
	}
}
