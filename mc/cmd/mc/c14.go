package main

import (
	"encoding/json"
	"fmt"
	"reflect"
	"runtime"
	"runtime/debug"
	"strings"

	"github.com/advancedclimatesystems/gonnx/ops"
	"gorgonia.org/tensor"
	"verifmc/hx"
	"verifmc/ref"
)

// C14 — broadcast helpers. Bounded-exhaustive over ordered shape pairs, element-by-element.

type bcastCase struct {
	ReplayKind string `json:"replay_kind"`
	Fn         string `json:"fn"` // multi | uni
	A, B       *hx.TJ
	PreA, PreB *hx.TJ `json:",omitempty"` // an earlier request made in the same process before the judged one (history)
}

func init() {
	register("C14", "exploration", checkC14)
	replayers["bcast"] = func(raw json.RawMessage) *hx.Violation {
		var c bcastCase
		json.Unmarshal(raw, &c)
		return runBcast(&c)
	}
}

func runBcast(c *bcastCase) (v *hx.Violation) {
	if c.PreA != nil && c.PreB != nil {
		func() {
			defer func() { recover() }() // the earlier request is judged by its own case
			callBcast(c.Fn, hx.ToG(c.PreA.T()), hx.ToG(c.PreB.T()))
		}()
	}
	a, b := c.A.T(), c.B.T()
	ga, gb := hx.ToG(a), hx.ToG(b)
	sa, sb := hx.Snapshot(ga), hx.Snapshot(gb)
	mk := func(kind, detail string) *hx.Violation { return &hx.Violation{Kind: kind, Detail: detail, Replay: c} }
	var oa, ob tensor.Tensor
	var err error
	func() {
		defer func() {
			if p := recover(); p != nil {
				v = mk("panic", fmt.Sprintf("%v :: %s", p, string(debug.Stack())[:400]))
			}
		}()
		oa, ob, err = callBcast(c.Fn, ga, gb)
	}()
	if v != nil {
		return v
	}
	if d := sa.Diff(hx.Snapshot(ga)); d != "" {
		return mk("mutated-input", "source A modified: "+d)
	}
	if d := sb.Diff(hx.Snapshot(gb)); d != "" {
		return mk("mutated-input", "source B modified: "+d)
	}
	bs, compat := ref.BroadcastShape(a.Shape, b.Shape)
	if strings.HasSuffix(c.Fn, "uni") && compat && !ref.ShapeEq(bs, a.Shape) {
		compat = false
	}
	if !compat {
		if err == nil {
			return mk("not-refused", fmt.Sprintf("incompatible shapes %v,%v accepted -> %v,%v", a.Shape, b.Shape, oa.Shape(), ob.Shape()))
		}
		return hx.OK("refused-incompatible")
	}
	if err != nil {
		return mk("refused", fmt.Sprintf("compatible shapes %v,%v refused: %v", a.Shape, b.Shape, err))
	}
	ea, _ := ref.BroadcastTo(a, bs)
	eb, _ := ref.BroadcastTo(b, bs)
	for i, pair := range []struct {
		got tensor.Tensor
		exp *ref.T
	}{{oa, ea}, {ob, eb}} {
		if pair.got == nil {
			return mk("nil-output", fmt.Sprintf("result %d nil", i))
		}
		got, rerr := hx.FromG(pair.got)
		if rerr != nil {
			return mk("unreadable-output", rerr.Error())
		}
		if k, m := hx.CompareT(got, pair.exp, hx.Bits); k != "" {
			return mk(k, fmt.Sprintf("operand %d: %s", i, m))
		}
	}
	// second request with the very same source tensor objects after the caller overwrote their contents in
	// place (rotated by one element): the answer must follow the new contents
	if len(a.V) > 1 || len(b.V) > 1 {
		rot := func(t *ref.T) *ref.T {
			o := t.Clone()
			for i := range o.V {
				o.V[i] = t.V[(i+1)%len(t.V)]
			}
			return o
		}
		a2, b2 := rot(a), rot(b)
		if hx.RefillG(ga, a2) && hx.RefillG(gb, b2) {
			func() {
				defer func() {
					if p := recover(); p != nil {
						v = mk("panic", fmt.Sprintf("second request on refilled sources: %v :: %s", p, string(debug.Stack())[:400]))
					}
				}()
				oa, ob, err = callBcast(c.Fn, ga, gb)
			}()
			if v != nil {
				return v
			}
			if err != nil {
				return mk("refused", fmt.Sprintf("second request on refilled sources refused: %v", err))
			}
			ea2, _ := ref.BroadcastTo(a2, bs)
			eb2, _ := ref.BroadcastTo(b2, bs)
			for i, pair := range []struct {
				got tensor.Tensor
				exp *ref.T
			}{{oa, ea2}, {ob, eb2}} {
				got, rerr := hx.FromG(pair.got)
				if rerr != nil {
					return mk("unreadable-output", rerr.Error())
				}
				if k, m := hx.CompareT(got, pair.exp, hx.Bits); k != "" {
					return mk(k, fmt.Sprintf("second request on the same source objects refilled in place: operand %d: %s", i, m))
				}
			}
		}
	}
	if ref.ShapeEq(a.Shape, b.Shape) {
		return hx.OK("same-shape")
	}
	return hx.OK("broadcast")
}

func checkC14(c *hx.Checker) {
	c.Rule = "operands of different element types: every ordered pair of 5 types on all pairs of Box(rank 0..2, extents {1,2,3}); histories: every compatible request over Box(rank 0..2, extents {1,2,31,32,33}) followed by every other request over that box (multi; uni where A is the larger operand), the second one judged; " +
		"all ordered pairs of shapes of Box(rank 0..4, extents {1,2,3}) for MultidirectionalBroadcast and UnidirectionalBroadcast, int64 fill = flat index + 1; " +
		"extents {1,2,3,4} on rank<=4; thorough: extents {1..5} on rank<=4; all 14 dtypes on the rank<=3 extents {1,2} sub-box; 6 shapes of rank 5 and 6 against every shape of rank <= 2 and against each other (rank differences up to 6); all ordered pairs of 11 larger shapes (up to 5155 elements, odd counts); every case is followed by a second request on the same source tensor objects after their contents were overwritten in place. " +
		"non-trivial = at least one axis of one operand is stretched or padded (shapes differ); distinct by (fn,dtype,shapeA,shapeB)"
	c.Assumptions = []string{"reference = right-aligned broadcasting written as index arithmetic (ref.BroadcastTo)", "complex/string elements are opaque tags (only moved, never computed on)"}
	type job struct {
		fn         string
		dt         ref.DT
		a, b       []int
		dtB        *ref.DT // element type of B when it differs from A's (the helpers only move elements: each keeps its own)
		preA, preB []int   // shapes of an earlier request in the same process (nil: none)
	}
	var jobs []job
	add := func(dt ref.DT, shapesA, shapesB [][]int) {
		for _, a := range shapesA {
			for _, b := range shapesB {
				for _, fn := range []string{"multi", "uni"} {
					jobs = append(jobs, job{fn: fn, dt: dt, a: a, b: b})
				}
				if dt == ref.I64 && len(a) <= 3 && len(b) <= 3 {
					jobs = append(jobs, job{fn: "apply-multi", dt: dt, a: a, b: b}, job{fn: "apply-uni", dt: dt, a: a, b: b})
				}
			}
		}
	}
	e123 := []int{1, 2, 3}
	_ = e123
	b4 := ref.Box(0, 4, []int{1, 2, 3, 4})
	add(ref.I64, b4, b4)
	if c.Tier == "thorough" {
		b5 := ref.Box(0, 4, []int{1, 2, 3, 4, 5})
		add(ref.I64, b5, b5)
	}
	sub := ref.Box(0, 3, []int{1, 2})
	for _, dt := range ref.AllDT {
		if dt != ref.I64 {
			add(dt, sub, sub)
		}
	}
	// ranks 5 and 6 (rank differences up to 6) against every shape of rank <= 2 and against each other
	hi := [][]int{{2, 1, 3, 1, 2}, {1, 1, 1, 1, 2}, {2, 3, 1, 2, 1}, {1, 2, 1, 1, 3, 2}, {2, 1, 1, 1, 1, 1}, {1, 1, 1, 1, 1, 1}}
	lo := ref.Box(0, 2, []int{1, 2, 3})
	add(ref.I64, hi, lo)
	add(ref.I64, lo, hi)
	add(ref.I64, hi, hi)
	// larger shapes: all ordered pairs
	big := [][]int{{5, 1, 7}, {1, 6, 1}, {7}, {2, 5, 1, 7}, {6, 7}, {5, 6, 7}, {1, 1, 1, 1, 8}, {1, 1031}, {5, 1}, {4099}, {3, 1, 1367}}
	add(ref.F32, big, big)
	// large first operands against small ones whose element count happens to fit but whose extents do not, and against
	// operands with surplus leading unit axes
	fit := [][]int{{1000, 6, 4}, {4, 6}, {6, 4}, {24}, {1, 6, 4}, {256, 256}, {1, 1, 256}, {1, 256}, {256}, {1, 1, 1}, {2, 1, 256}, {300, 4, 6}}
	add(ref.I64, fit, fit)
	// operands of different element types (the helpers are also called with an index or condition tensor next to data):
	// every ordered pair of 5 types on the rank<=2 extents {1,2,3} box
	mixed := []ref.DT{ref.F32, ref.I64, ref.Bool, ref.F64, ref.U8}
	mbox := ref.Box(0, 2, []int{1, 2, 3})
	for _, dtA := range mixed {
		for i := range mixed {
			if dtB := mixed[i]; dtB != dtA {
				for _, a := range mbox {
					for _, b := range mbox {
						jobs = append(jobs, job{fn: "multi", dt: dtA, a: a, b: b, dtB: &mixed[i]}, job{fn: "uni", dt: dtA, a: a, b: b, dtB: &mixed[i]})
					}
				}
			}
		}
	}
	// histories of two requests in one process: every ordered pair of requests over the rank<=2 shapes with extents
	// {1,2,31,32,33} (beyond the small box: whatever a helper remembers between calls - plans keyed by a digest of the
	// shapes, scratch buffers - must not reach the second answer)
	hbox := ref.Box(0, 2, []int{1, 2, 31, 32, 33})
	for _, pa := range hbox {
		for _, pb := range hbox {
			if _, ok := ref.BroadcastShape(pa, pb); !ok {
				continue
			}
			for _, a := range hbox {
				for _, b := range hbox {
					if ref.ShapeEq(pa, a) && ref.ShapeEq(pb, b) {
						continue
					}
					jobs = append(jobs, job{fn: "multi", dt: ref.I64, a: a, b: b, preA: pa, preB: pb})
					if ref.NElem(pa) >= ref.NElem(pb) && ref.NElem(a) >= ref.NElem(b) {
						jobs = append(jobs, job{fn: "uni", dt: ref.I64, a: a, b: b, preA: pa, preB: pb})
					}
				}
			}
		}
	}
	c.ParallelFor(len(jobs), func(i int) {
		j := jobs[i]
		dtB := j.dt
		if j.dtB != nil {
			dtB = *j.dtB
		}
		bc := &bcastCase{ReplayKind: "bcast", Fn: j.fn, A: hx.ToTJ(ref.Distinct(j.dt, j.a)), B: hx.ToTJ(ref.Distinct(dtB, j.b))}
		id := fmt.Sprintf("%s/%s/%v/%v", j.fn, j.dt, j.a, j.b)
		tags := []string{"fn=" + j.fn, "dtype=" + j.dt.String(), fmt.Sprintf("rankA=%d", len(j.a)), fmt.Sprintf("rankB=%d", len(j.b))}
		if j.dtB != nil {
			id += "/B:" + dtB.String()
			tags = append(tags, "mixed-types")
		}
		if j.preA != nil {
			bc.PreA, bc.PreB = hx.ToTJ(ref.Distinct(j.dt, j.preA)), hx.ToTJ(ref.Distinct(j.dt, j.preB))
			id += fmt.Sprintf("/after:%v,%v", j.preA, j.preB)
			tags = append(tags, "history")
		}
		if len(j.a) == 0 || len(j.b) == 0 {
			tags = append(tags, "scalar-operand")
		}
		c.Case(hx.CaseInfo{ID: id, Tags: tags, NonTrivial: !ref.ShapeEq(j.a, j.b),
			Sample: map[string]any{"fn": j.fn, "dtype": j.dt.String(), "shapeA": j.a, "shapeB": j.b}},
			func() *hx.Violation { return runBcast(bc) })
		if len(j.a) <= 3 && len(j.b) <= 3 && ref.NElem(j.a) <= 64 && ref.NElem(j.b) <= 64 && (j.dt == ref.I64 || j.dt == ref.F32) && j.dtB == nil && j.preA == nil {
			c.Case(hx.CaseInfo{ID: "frozen-sources/" + id, Tags: append(append([]string{}, tags...), "frozen-sources"), NonTrivial: !ref.ShapeEq(j.a, j.b)},
				func() *hx.Violation {
					if v := runBcastFrozen(bc); v != nil {
						return v
					}
					return hx.OK("sources-not-written")
				})
		}
	})
}

// runBcastFrozen: the same request with both source tensors (header, shape, strides, data) relocated into a
// write-protected arena: a helper that changes a source even for the duration of the call (reshape in place and restore)
// faults - which decides "the sources are not written" for every interleaving of concurrent callers sharing an operand.
func runBcastFrozen(c *bcastCase) (v *hx.Violation) {
	mk := func(kind, detail string) *hx.Violation { return &hx.Violation{Kind: kind, Detail: detail, Replay: c} }
	a, b := c.A.T(), c.B.T()
	da, okA := hx.ToG(a).(*tensor.Dense)
	db, okB := hx.ToG(b).(*tensor.Dense)
	if !okA || !okB {
		return nil
	}
	arena, err := hx.NewArena(1 << 16)
	if err != nil {
		hx.HarnessError("mmap failed: %v", err)
	}
	defer arena.Close()
	fa, fb := arena.FreezeDense(da), arena.FreezeDense(db)
	if err := arena.Freeze(); err != nil {
		hx.HarnessError("mprotect failed: %v", err)
	}
	runtime.LockOSThread()
	defer runtime.UnlockOSThread()
	old := debug.SetPanicOnFault(true)
	defer debug.SetPanicOnFault(old)
	defer func() {
		if p := recover(); p != nil {
			msg := fmt.Sprint(p)
			kind := "panic"
			if strings.Contains(msg, "fault address") || strings.Contains(msg, "invalid memory address") {
				kind = "shared-write"
				msg = "the helper wrote into a source tensor (header / shape / strides / data) during the call: " + msg
			}
			v = mk(kind, msg+" :: "+firstLines(string(debug.Stack()), 30))
		}
	}()
	callBcast(c.Fn, fa, fb)
	return nil
}

// callBcast: the two helpers directly, or through ops.ApplyBinaryOperation with the corresponding broadcast option
// (the operands its callback receives are the broadcast ones).
func callBcast(fn string, ga, gb tensor.Tensor) (oa, ob tensor.Tensor, err error) {
	switch fn {
	case "multi":
		return ops.MultidirectionalBroadcast(ga, gb)
	case "uni":
		return ops.UnidirectionalBroadcast(ga, gb)
	}
	opt := ops.MultidirectionalBroadcasting
	if fn == "apply-uni" {
		opt = ops.UnidirectionalBroadcasting
	}
	// called through reflection: the callback type (ops.BinaryOp) is an exported signature that a change to the library
	// may extend (further option parameters); the harness must keep building against such a tree
	fv := reflect.ValueOf(ops.ApplyBinaryOperation)
	ft := fv.Type()
	if ft.Kind() != reflect.Func || ft.NumIn() != 4 || ft.In(2).Kind() != reflect.Func || ft.In(2).NumIn() < 2 || ft.In(2).NumOut() != 2 {
		return nil, nil, fmt.Errorf("ApplyBinaryOperation has another shape than (A, B, op, option)")
	}
	cb := reflect.MakeFunc(ft.In(2), func(args []reflect.Value) []reflect.Value {
		oa, _ = args[0].Interface().(tensor.Tensor)
		ob, _ = args[1].Interface().(tensor.Tensor)
		return []reflect.Value{args[0].Convert(ft.In(2).Out(0)), reflect.Zero(ft.In(2).Out(1))}
	})
	outs := fv.Call([]reflect.Value{reflect.ValueOf(ga), reflect.ValueOf(gb), cb, reflect.ValueOf(opt).Convert(ft.In(3))})
	if e, ok := outs[len(outs)-1].Interface().(error); ok && e != nil {
		err = e
	}
	return oa, ob, err
}
