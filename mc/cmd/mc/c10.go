package main

import (
	"fmt"
	"math"
	"sort"
	"sync"

	"github.com/advancedclimatesystems/gonnx/onnx"
	"gorgonia.org/tensor"
	"verifmc/hx"
	"verifmc/ref"
)

// C10 — unary math / activation operators.

func init() { register("C10", "exploration", checkC10) }

var unaryFloatOps = []string{"Abs", "Relu", "Sigmoid", "Tanh", "Sin", "Cos", "Tan", "Asin", "Acos", "Atan", "Sinh", "Cosh", "Asinh", "Acosh", "Atanh"}

func valueClass(x float64, f32 bool) string {
	switch {
	case math.IsNaN(x):
		return "nan"
	case math.IsInf(x, 1):
		return "+inf"
	case math.IsInf(x, -1):
		return "-inf"
	case x == 0:
		if math.Signbit(x) {
			return "-zero"
		}
		return "+zero"
	}
	s := "+"
	if x < 0 {
		s = "-"
	}
	ax := math.Abs(x)
	minNormal := 2.2250738585072014e-308
	if f32 {
		minNormal = 1.1754943508222875e-38
	}
	switch {
	case ax < minNormal:
		return s + "subnormal"
	case ax < math.Ldexp(1, -20):
		return s + "tiny"
	case ax < 1:
		return s + "small"
	case ax == 1:
		return s + "one"
	case ax < 2:
		return s + "unit"
	case ax < 128:
		return s + "mid"
	case ax < 16777216:
		return s + "large"
	case ax < 1073741824:
		return s + "huge"
	default:
		return s + "giant"
	}
}

var allClasses = []string{"nan", "+inf", "-inf", "+zero", "-zero", "+subnormal", "-subnormal", "+tiny", "-tiny", "+small", "-small", "+one", "-one", "+unit", "-unit", "+mid", "-mid", "+large", "-large", "+huge", "-huge", "+giant", "-giant"}

func ulpOK(dt ref.DT, got, exp float64, k int, num bool) bool {
	if math.IsNaN(exp) {
		return math.IsNaN(got)
	}
	if math.IsNaN(got) {
		return false
	}
	if got == exp {
		if num || got != 0 {
			return true
		}
		return math.Signbit(got) == math.Signbit(exp)
	}
	if k == 0 {
		return false
	}
	t := hx.ToTJ(ref.FromF(dt, []int{1}, exp)).T()
	g := ref.FromF(dt, []int{1}, got)
	kind, _ := hx.CompareT(g, t, hx.Ulp(k))
	return kind == ""
}

type sweepStat struct {
	mu      sync.Mutex
	count   map[string]int64  // class -> elements evaluated
	failX   map[string]uint64 // class -> first failing input bits
	failed  map[string]bool
	failMsg map[string]string
}

func newSweepStat() *sweepStat {
	return &sweepStat{count: map[string]int64{}, failX: map[string]uint64{}, failed: map[string]bool{}, failMsg: map[string]string{}}
}

// fullChunk: tensor length of the complete float32 sweep (odd, no multiple of 4 or 8).
const fullChunk = 1<<20 + 3

// sweepChunk pushes one chunk of raw bit patterns through the real operator and compares every element.
func sweepChunk(op string, dt ref.DT, bits []uint64, st *sweepStat, tolUlps int) {
	f := ref.UnaryF[op]
	num := op == "Relu" || op == "Abs"
	var in tensor.Tensor
	n := len(bits)
	if dt == ref.F32 {
		b := make([]float32, n)
		for i, v := range bits {
			b[i] = math.Float32frombits(uint32(v))
		}
		in = tensor.New(tensor.WithShape(n), tensor.WithBacking(b))
	} else {
		b := make([]float64, n)
		for i, v := range bits {
			b[i] = math.Float64frombits(v)
		}
		in = tensor.New(tensor.WithShape(n), tensor.WithBacking(b))
	}
	res := hx.RunOpTensors(op, &onnx.NodeProto{OpType: op, Input: []string{"x"}, Output: []string{"y"}}, []tensor.Tensor{in})
	cnt := map[string]int64{}
	fail := func(i int, msg string) {
		x := ref.DecF(dt, bits[i])
		cl := valueClass(x, dt == ref.F32)
		st.mu.Lock()
		if !st.failed[cl] || lessAbs(bits[i], st.failX[cl]) {
			st.failed[cl], st.failX[cl], st.failMsg[cl] = true, bits[i], msg
		}
		st.mu.Unlock()
	}
	if res.Panic != "" || res.Err != nil || len(res.Outs) != 1 || res.Outs[0] == nil || len(res.Outs[0].V) != n || res.Outs[0].DT != dt {
		// whole-chunk failure: find the classes by re-running element-wise later; mark every class present
		for i := range bits {
			fail(i, fmt.Sprintf("chunk failed: panic=%q err=%v", res.Panic, res.Err))
		}
	} else {
		out := res.Outs[0]
		for i := range bits {
			x := ref.DecF(dt, bits[i])
			cl := valueClass(x, dt == ref.F32)
			cnt[cl]++
			exp := ref.DecF(dt, ref.EncF(dt, f(x)))
			got := ref.DecF(dt, out.V[i])
			if !ulpOK(dt, got, exp, tolUlps, num) {
				fail(i, fmt.Sprintf("%s(%g) = %g, expected %g", op, x, got, exp))
			}
			// Abs clears the sign bit also of zero (fabs): |−0| is +0, bit for bit
			if op == "Abs" && x == 0 && math.Signbit(got) {
				fail(i, fmt.Sprintf("Abs(%g) = -0 (the sign bit is not cleared)", x))
			}
		}
	}
	st.mu.Lock()
	for k, v := range cnt {
		st.count[k] += v
	}
	st.mu.Unlock()
}

func lessAbs(a, b uint64) bool { return a < b }

// tolFor: 4 ulp for functions evaluated through Go's float64 math library; Sigmoid (and Tanh) are
// evaluated by gorgonia in the element type as 1/(1+exp(-x)): exp() has condition number |x|, so a
// float32 evaluation is off by up to ~|x| ulp for results that are still normal numbers (|x| < 88).
func tolFor(op string, dt ref.DT) int {
	if op == "Sigmoid" || op == "Tanh" {
		return 256 // the full float32 sweep measured up to 97 ulp (Sigmoid near x = -71.7)
	}
	if op == "Relu" || op == "Abs" {
		return 0 // exact (up to the sign of zero)
	}
	return 4
}

func checkC10(c *hx.Checker) {
	thorough := c.Tier == "thorough"
	c.Rule = "value sweeps: per float operator and float dtype every value of the structured alphabet (every binade x 5-7 mantissa patterns x both signs + specials + function boundaries) pushed through the Operator API in chunks" +
		map[bool]string{true: "; THOROUGH: additionally ALL 2^32 float32 bit patterns per operator", false: ""}[thorough] +
		"; results grouped into 21 value classes (nan, +-inf, +-0, +-subnormal, +-tiny..+-huge), one case per (operator,dtype,class) replayed on the smallest failing input; " +
		"shape preservation: Box(rank 0..4, extents {1,2,3}) per operator (Operator API) and rank<=2 sub-box through Model.Run; PRelu: all (x,slope) shape pairs of Box(0..3) x gate dtypes x special values; Abs on all gate dtypes incl. integer minimum; Not on bool. " +
		"non-trivial = case that evaluated at least one element / one broadcast"
	c.Assumptions = []string{"reference = Go math library on the exactly widened input, rounded to the element type; tolerance 4 ulp (Go's math functions are within 1 ulp); Relu compares -0 == +0; Abs must clear the sign of -0",
		"Sigmoid/Tanh are computed by gorgonia in the element type as 1/(1+exp(-x)): bound 256 ulp (condition number of exp is |x| <= 104 down to subnormal results; the full sweep measured 97 ulp), absolute floor at the smallest normal"}
	// ---------------- value sweeps
	type sweepKey struct {
		op string
		dt ref.DT
	}
	stats := map[sweepKey]*sweepStat{}
	type chunk struct {
		k    sweepKey
		bits []uint64
		lo   uint64
		full bool
	}
	var chunks []chunk
	for _, op := range unaryFloatOps {
		for _, dt := range []ref.DT{ref.F32, ref.F64} {
			k := sweepKey{op, dt}
			stats[k] = newSweepStat()
			vals := ref.StructuredFloats(dt)
			// chunk lengths are odd and no multiple of 4 or 8 (a kernel that splits its work into blocks and drops
			// the remainder shows); the whole alphabet additionally goes through as one tensor
			for i := 0; i < len(vals); i += 4099 {
				j := i + 4099
				if j > len(vals) {
					j = len(vals)
				}
				chunks = append(chunks, chunk{k: k, bits: vals[i:j]})
			}
			chunks = append(chunks, chunk{k: k, bits: vals})
			if len(vals) > 70001 {
				chunks = append(chunks, chunk{k: k, bits: vals[:32771]}, chunk{k: k, bits: vals[len(vals)-65539:]})
			}
			if thorough && dt == ref.F32 {
				for lo := uint64(0); lo < 1<<32; lo += fullChunk {
					chunks = append(chunks, chunk{k: k, lo: lo, full: true})
				}
			}
		}
	}
	var elements int64
	var emu sync.Mutex
	c.ParallelFor(len(chunks), func(i int) {
		ch := chunks[i]
		bits := ch.bits
		if ch.full {
			n := uint64(fullChunk)
			if ch.lo+n > 1<<32 {
				n = 1<<32 - ch.lo
			}
			bits = make([]uint64, n)
			for j := range bits {
				bits[j] = ch.lo + uint64(j)
			}
		}
		sweepChunk(ch.k.op, ch.k.dt, bits, stats[ch.k], tolFor(ch.k.op, ch.k.dt))
		c.Tick()
		emu.Lock()
		elements += int64(len(bits))
		emu.Unlock()
	})
	c.Extra["elements_swept"] = elements
	c.Extra["full_float32_sweep"] = thorough && !c.Capped
	var keys []sweepKey
	for k := range stats {
		keys = append(keys, k)
	}
	sort.Slice(keys, func(i, j int) bool {
		if keys[i].op != keys[j].op {
			return keys[i].op < keys[j].op
		}
		return keys[i].dt < keys[j].dt
	})
	for _, k := range keys {
		st := stats[k]
		for _, cl := range allClasses {
			info := hx.CaseInfo{ID: fmt.Sprintf("sweep/%s/%s/%s", k.op, k.dt, cl), Tags: []string{"op=" + k.op, "dtype=" + k.dt.String(), "class=" + cl, "sweep"},
				NonTrivial: st.count[cl] > 0 || st.failed[cl], Sample: map[string]any{"op": k.op, "dtype": k.dt.String(), "class": cl, "elements": st.count[cl]}}
			if !st.failed[cl] {
				c.Note(info, "ok:sweep", nil)
				continue
			}
			x := &ref.T{DT: k.dt, Shape: []int{1}, V: []uint64{st.failX[cl]}}
			exp, _ := ref.Unary(k.op, x)
			oc := &hx.OpCase{Op: k.op, Inputs: tjs(x), NOut: 1, Route: "op"}
			cmp := hx.Ulp(tolFor(k.op, k.dt))
			if tolFor(k.op, k.dt) == 0 {
				cmp = hx.Num
			}
			if k.op == "Abs" {
				cmp = hx.Bits // |x| is exact, including the cleared sign of -0
			}
			c.Case(info, func() *hx.Violation {
				return judgeOp(oc, hx.DCompute, []*ref.T{exp}, cmp)
			})
		}
	}
	// ---------------- shapes, dtypes, routes
	var jobs []opJob
	box := ref.Box(0, 4, []int{1, 2, 3})
	sub := ref.Box(0, 2, []int{1, 2})
	fill := func(dt ref.DT, sh []int, op string) *ref.T {
		return ref.Fill(dt, sh, func(i int) float64 {
			v := float64((i*7+3)%11)/11*1.6 - 0.8 // in (-0.8, 0.8): inside every domain
			if op == "Acosh" {
				v = 1.5 + float64(i%7)
			}
			return v
		})
	}
	for _, op := range unaryFloatOps {
		for _, dt := range gateDTs(op, 0) {
			cmp := hx.Ulp(tolFor(op, dt))
			if tolFor(op, dt) == 0 {
				cmp = hx.Num
			}
			if op == "Abs" {
				cmp = hx.Bits
			}
			shapes := box
			if dt != ref.F32 {
				shapes = sub
			}
			for _, sh := range shapes {
				var x *ref.T
				if dt.IsFloat() {
					x = fill(dt, sh, op)
				} else {
					x = ref.Fill(dt, sh, func(i int) float64 { return float64(i*3%7) - 3 })
					if n := len(x.V); n > 0 && dt.IsSigned() {
						x.V[n-1] = ref.SpecialInts(dt)[6] // integer minimum
					}
				}
				exp, err := ref.Unary(op, x)
				extra := []string{}
				if len(sh) == 0 {
					extra = append(extra, "scalar")
				}
				if dt.IsUnsigned() {
					extra = append(extra, "unsigned")
				}
				jobs = append(jobs, newJob(op, nil, []*ref.T{x}, []*ref.T{exp}, err, hx.DCompute, cmp, "op", nil, "shape", extra...))
				if len(sh) <= 2 && ref.NElem(sh) <= 4 {
					jobs = append(jobs, newJob(op, nil, []*ref.T{x}, []*ref.T{exp}, err, hx.DCompute, cmp, "model", nil, "shape", extra...))
				}
			}
		}
	}
	// Abs over the whole integer alphabets (all values of 8/16-bit types; powers of two +-1, extremes and float
	// rounding witnesses for wider ones)
	for _, dt := range gateDTs("Abs", 0) {
		if !dt.IsInt() {
			continue
		}
		all := ref.CastAlphabet(dt)
		x := &ref.T{DT: dt, Shape: []int{len(all)}, V: all}
		exp, err := ref.Unary("Abs", x)
		extra := []string{"all-values"}
		if dt.IsUnsigned() {
			extra = append(extra, "unsigned")
		}
		jobs = append(jobs, newJob("Abs", nil, []*ref.T{x}, []*ref.T{exp}, err, hx.DCompute, hx.Bits, "op", nil, "integer-alphabet", extra...))
	}
	// PRelu with a per-channel slope (C,1,1) on rank-4 feature maps, square and not, small and above 4096 elements
	for _, sh := range [][]int{{1, 2, 3, 3}, {2, 3, 2, 5}, {1, 3, 31, 47}, {2, 2, 33, 33}, {1, 5, 9, 101}} {
		for _, dt := range []ref.DT{ref.F32, ref.F64} {
			x := ref.Fill(dt, sh, func(i int) float64 { return float64((i*7+3)%23) - 11.5 })
			for _, ssh := range [][]int{{sh[1], 1, 1}, {1, sh[1], 1, 1}, {sh[3]}, {sh[2], 1}} {
				sl := ref.Fill(dt, ssh, func(i int) float64 { return float64(i+1)*0.25 - 0.6 })
				exp, err := ref.PRelu(x, sl)
				jobs = append(jobs, newJob("PRelu", nil, []*ref.T{x, sl}, []*ref.T{exp}, err, hx.DCompute, hx.Bits, "op", nil, fmt.Sprintf("feature-map slope%v", ssh), "feature-map"))
			}
		}
	}
	for _, sh := range box {
		x := ref.Distinct(ref.Bool, sh)
		exp, err := ref.Unary("Not", x)
		jobs = append(jobs, newJob("Not", nil, []*ref.T{x}, []*ref.T{exp}, err, hx.DCompute, hx.Bits, "op", nil, "shape"))
		if len(sh) <= 2 {
			jobs = append(jobs, newJob("Not", nil, []*ref.T{x}, []*ref.T{exp}, err, hx.DCompute, hx.Bits, "model", nil, "shape"))
		}
	}
	// ---------------- PRelu
	b3 := ref.Box(0, 3, []int{1, 2, 3})
	for _, dt := range gateDTs("PRelu", 0) {
		xs, ss := b3, b3
		if dt != ref.F32 {
			xs, ss = ref.Box(0, 2, []int{1, 2}), ref.Box(0, 2, []int{1, 2})
		}
		for _, xsh := range xs {
			for _, ssh := range ss {
				x := ref.Fill(dt, xsh, func(i int) float64 { return float64((i*5+1)%7) - 3 })
				sl := ref.Fill(dt, ssh, func(i int) float64 { return float64(i%5) + 2 })
				if dt.IsFloat() {
					sl = ref.Fill(dt, ssh, func(i int) float64 { return 0.25 * float64(i+1) })
				}
				exp, err := ref.PRelu(x, sl)
				extra := []string{}
				if len(xsh) == 0 {
					extra = append(extra, "scalar-x")
				}
				if dt.IsUnsigned() {
					extra = append(extra, "unsigned")
				}
				jobs = append(jobs, newJob("PRelu", nil, []*ref.T{x, sl}, []*ref.T{exp}, err, hx.DCompute, hx.Bits, "op", nil, fmt.Sprintf("slope%v", ssh), extra...))
				if dt == ref.F32 && len(xsh) <= 2 && len(ssh) <= 2 {
					jobs = append(jobs, newJob("PRelu", nil, []*ref.T{x, sl}, []*ref.T{exp}, err, hx.DCompute, hx.Bits, "model", nil, fmt.Sprintf("slope%v", ssh), extra...))
					jobs = append(jobs, newJob("PRelu", nil, []*ref.T{x, sl}, []*ref.T{exp}, err, hx.DCompute, hx.Bits, "model-init", nil, fmt.Sprintf("slope%v", ssh), extra...))
				}
			}
		}
		if dt.IsFloat() {
			sp := ref.SpecialFloats(dt)
			n := len(sp)
			xa, sa := make([]uint64, 0, n*n), make([]uint64, 0, n*n)
			for _, a := range sp {
				for _, b := range sp {
					xa, sa = append(xa, a), append(sa, b)
				}
			}
			x, sl := &ref.T{DT: dt, Shape: []int{n * n}, V: xa}, &ref.T{DT: dt, Shape: []int{n * n}, V: sa}
			exp, err := ref.PRelu(x, sl)
			jobs = append(jobs, newJob("PRelu", nil, []*ref.T{x, sl}, []*ref.T{exp}, err, hx.DCompute, hx.Bits, "op", nil, "special-values", "special-values"))
		}
	}
	// PRelu on larger tensors with odd element counts (block-splitting kernels), slope of the same shape and broadcast
	for _, n := range []int{1025, 4099, 32771, 65539, 2048, 4096, 65536} {
		for _, dt := range []ref.DT{ref.F32, ref.F64, ref.I32} {
			for _, ssh := range [][]int{{n}, {1}, {3, n}} {
				xsh := []int{n}
				if len(ssh) == 2 {
					xsh = []int{3, n}
				}
				x := ref.Fill(dt, xsh, func(i int) float64 { return float64((i*7+3)%23) - 11 })
				sl := ref.Fill(dt, ssh, func(i int) float64 { return float64((i*5+1)%7) - 3 })
				if dt.IsFloat() {
					sl = ref.Fill(dt, ssh, func(i int) float64 { return float64((i*5+1)%7)*0.25 - 0.75 })
				}
				exp, err := ref.PRelu(x, sl)
				jobs = append(jobs, newJob("PRelu", nil, []*ref.T{x, sl}, []*ref.T{exp}, err, hx.DCompute, hx.Bits, "op", nil, fmt.Sprintf("large slope%v", ssh), "large"))
			}
		}
	}
	runOpJobs(c, jobs)
	runReuseJobs(c, jobs)
}
