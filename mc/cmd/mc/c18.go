package main

import (
	"archive/zip"
	"bytes"
	"encoding/base64"
	"encoding/json"
	"errors"
	"fmt"
	"hash/crc32"
	"math"
	"os"
	"path/filepath"
	"runtime/debug"
	"strings"
	"sync"
	"sync/atomic"

	gonnx "github.com/advancedclimatesystems/gonnx"
	"github.com/advancedclimatesystems/gonnx/onnx"
	"github.com/advancedclimatesystems/gonnx/ops"
	"github.com/advancedclimatesystems/gonnx/ops/opset13"
	"google.golang.org/protobuf/proto"
	"gorgonia.org/tensor"
	"verifmc/hx"
	"verifmc/ref"
)

// C18 — loading never crashes; unsupported opsets / operators are refused with the right error.

type loadCase struct {
	ReplayKind string `json:"replay_kind"`
	Bytes      string `json:"bytes_b64"`
	Expect     string `json:"expect"` // nopanic | load-ok | opset-error | op-error
	Desc       string `json:"desc"`
}

func init() {
	register("C18", "fault_enumeration", checkC18)
	replayers["load"] = func(raw json.RawMessage) *hx.Violation {
		var c loadCase
		if err := json.Unmarshal(raw, &c); err != nil {
			return &hx.Violation{Kind: "bad-replay", Detail: err.Error()}
		}
		b, _ := base64.StdEncoding.DecodeString(c.Bytes)
		k, d, _ := tryLoad(b, c.Expect)
		if k == "" {
			return nil
		}
		return &hx.Violation{Kind: k, Detail: d}
	}
}

var runPanics int64
var runPanicKinds sync.Map // first line of the panic -> *int64

// zeroFeed builds an input set satisfying the declared signature (dynamic dims = 1, float32).
func zeroFeed(m *gonnx.Model) gonnx.Tensors {
	feed := gonnx.Tensors{}
	shapes := m.InputShapes()
	for _, n := range m.InputNames() {
		sh := shapes[n]
		dims := make([]int, len(sh))
		total := 1
		for i, d := range sh {
			dims[i] = int(d.Size)
			if d.IsDynamic || d.Size <= 0 {
				dims[i] = 1
			}
			total *= dims[i]
			if total > 1<<16 {
				return nil
			}
		}
		if len(dims) == 0 {
			feed[n] = tensor.New(tensor.FromScalar(float32(0)))
			continue
		}
		feed[n] = tensor.New(tensor.WithShape(dims...), tensor.WithBacking(make([]float32, total)))
	}
	return feed
}

// tryLoad loads b (and runs it once when it loads); returns a violation kind or "" plus whether it loaded.
func tryLoad(b []byte, expect string) (kind, detail string, loaded bool) {
	var m *gonnx.Model
	var err error
	func() {
		defer func() {
			if p := recover(); p != nil {
				kind, detail = "panic", fmt.Sprintf("NewModelFromBytes panicked: %v :: %s", p, firstLines(string(debug.Stack()), 16))
			}
		}()
		m, err = gonnx.NewModelFromBytes(b)
	}()
	if kind != "" {
		return
	}
	switch expect {
	case "opset-error":
		if err == nil {
			return "not-refused", "model with an unsupported highest opset version was loaded", true
		}
		if !errors.Is(err, ops.ErrUnsupportedOpsetVersion) {
			return "wrong-error", fmt.Sprintf("load error %v is not ErrUnsupportedOpsetVersion", err), false
		}
		return "", "", false
	case "load-ok":
		if err != nil {
			return "refused", "valid model refused at load: " + err.Error(), false
		}
	}
	if err != nil {
		return "", "", false
	}
	loaded = true
	var rerr error
	var outs gonnx.Tensors
	func() {
		defer func() {
			if p := recover(); p != nil {
				atomic.AddInt64(&runPanics, 1)
				key := firstLines(fmt.Sprint(p), 1)
				if len(key) > 90 {
					key = key[:90]
				}
				if fr := gonnxFrames(firstLines(string(debug.Stack()), 30)); fr != "" {
					if i := strings.Index(fr, "("); i > 0 {
						key += " @ " + fr[:i]
					}
				}
				cnt, _ := runPanicKinds.LoadOrStore(key, new(int64))
				atomic.AddInt64(cnt.(*int64), 1)
				rerr = fmt.Errorf("run panicked: %v", p)
				if strings.HasPrefix(expect, "op-error") {
					kind, detail = "panic", fmt.Sprintf("Run panicked: %v :: %s", p, firstLines(string(debug.Stack()), 14))
				}
			}
		}()
		feed := zeroFeed(m)
		if feed != nil && expect == "op-error-fed" {
			// the caller's map additionally carries an entry for every name a node produces
			if mp, e := gonnx.ModelProtoFromBytes(b); e == nil {
				for _, nd := range mp.GetGraph().GetNode() {
					for _, o := range nd.GetOutput() {
						if o != "" {
							feed[o] = tensor.New(tensor.WithShape(2, 2), tensor.WithBacking(make([]float32, 4)))
						}
					}
				}
			}
		}
		if feed != nil {
			outs, rerr = m.Run(feed)
		}
	}()
	if kind != "" {
		return
	}
	if strings.HasPrefix(expect, "op-error") {
		if rerr == nil {
			return "not-refused", fmt.Sprintf("graph with an unsupported operator type ran and returned %d outputs", len(outs)), true
		}
		if !errors.Is(rerr, ops.ErrUnsupportedOperator) {
			return "wrong-error", fmt.Sprintf("Run error %v is not ErrUnsupportedOperator", rerr), true
		}
		if outs != nil {
			return "outputs-with-error", "Run returned outputs together with the unsupported-operator error", true
		}
	}
	return "", "", true
}

func tinyModels() map[string][]byte {
	out := map[string][]byte{}
	w := ref.Distinct(ref.F32, []int{2, 2})
	mk := func(name string, g *onnx.GraphProto) { out[name] = hx.Marshal(hx.Model(g, 13)) }
	// every initializer type / encoding behind an Identity-like node
	for _, dt := range storable {
		for _, enc := range []string{"raw", "typed"} {
			t := patternFill(dt, []int{2, 2}, 1)
			g := &onnx.GraphProto{Name: "g", Initializer: []*onnx.TensorProto{hx.TensorProto("w", t, enc)}, Output: []*onnx.ValueInfoProto{hx.ValueInfo("w", dt, hx.FixedDims([]int{2, 2}))}}
			mk(fmt.Sprintf("init-%s-%s", dt, enc), g)
		}
	}
	// rank-0 and rank-1 initializers of every type (scalars take their own paths in decoders)
	for _, dt := range storable {
		for _, sh := range [][]int{{}, {3}} {
			t := patternFill(dt, sh, 2)
			g0 := &onnx.GraphProto{Name: "g", Initializer: []*onnx.TensorProto{hx.TensorProto("w", t, "raw"), hx.TensorProto("v", t, "typed")},
				Output: []*onnx.ValueInfoProto{hx.ValueInfoNoShape("w"), hx.ValueInfoNoShape("v")}}
			mk(fmt.Sprintf("init-%s-rank%d", dt, len(sh)), g0)
		}
	}
	g := &onnx.GraphProto{Name: "g", Input: []*onnx.ValueInfoProto{hx.ValueInfo("x", ref.F32, []hx.DimSpec{{Param: "N"}, {Fixed: 2}})},
		Initializer: []*onnx.TensorProto{hx.TensorProto("w", w, "raw"), hx.TensorProto("shape", ref.I64Vec(0, -1), "raw")},
		Node: []*onnx.NodeProto{hx.Node("Gemm", []string{"x", "w"}, []string{"h"}, []hx.Attr{hx.AFloat("alpha", 0.5), hx.AInt("transB", 1)}), hx.Node("Relu", []string{"h"}, []string{"r"}, nil),
			hx.Node("Reshape", []string{"r", "shape"}, []string{"y"}, nil), hx.Node("Constant", nil, []string{"c"}, []hx.Attr{hx.ATensor("value", w, "typed")}),
			hx.Node("Concat", []string{"y", "y"}, []string{"z"}, []hx.Attr{hx.AInt("axis", 1)}), hx.Node("Transpose", []string{"z"}, []string{"t"}, []hx.Attr{hx.AInts("perm", 1, 0)})},
		Output: []*onnx.ValueInfoProto{hx.ValueInfo("t", ref.F32, []hx.DimSpec{{Fixed: 4}, {Param: "N"}}), hx.ValueInfoNoShape("c")}}
	mk("mixed-attrs", g)
	// initializers that are also declared as graph inputs (rank 0, 1, 2; declared with the same, a higher and a lower rank)
	for _, decl := range [][]hx.DimSpec{{{Fixed: 2}, {Fixed: 2}}, {{Fixed: 2}}, {{Fixed: 2}, {Fixed: 2}, {Fixed: 1}}, {{Param: "N"}, {Fixed: 2}, {Fixed: 3}}, {}} {
		for _, ish := range [][]int{{2, 2}, {2}, {}} {
			iw := ref.Distinct(ref.F32, ish)
			gi := &onnx.GraphProto{Name: "g", Input: []*onnx.ValueInfoProto{hx.ValueInfo("x", ref.F32, []hx.DimSpec{{Fixed: 2}, {Fixed: 2}}), hx.ValueInfo("w", ref.F32, decl)},
				Initializer: []*onnx.TensorProto{hx.TensorProto("w", iw, "raw")},
				Node:        []*onnx.NodeProto{hx.Node("Add", []string{"x", "w"}, []string{"y"}, nil)}, Output: []*onnx.ValueInfoProto{hx.ValueInfoNoShape("y")}}
			mk(fmt.Sprintf("init-as-input-decl%d-init%v", len(decl), ish), gi)
		}
	}
	cf := recCfg{Op: "LSTM", DT: "float32", S: 2, B: 1, I: 2, H: 2, HasB: true, HasH0: true, HasC0: true, HasP: true, Route: "model"}
	j := cf.job()
	mb, _, _ := hx.SingleNodeModel(j.oc)
	out["lstm"] = mb
	cj := convJob(convCfg{dt: ref.F32, x: []int{1, 2, 3, 4}, w: []int{2, 2, 2, 1}, bias: true, a: ref.ConvAttrs{AutoPad: "SAME_UPPER", Strides: []int{1, 2}}, route: "model", init: []bool{false, true, true}})
	mb, _, _ = hx.SingleNodeModel(cj.oc)
	out["conv"] = mb
	return out
}

func checkC18(c *hx.Checker) {
	thorough := c.Tier == "thorough"
	dir := hx.RepoDir() + "/sample_models/onnx_models"
	seeds := map[string][]byte{}
	for _, f := range []string{"mlp.onnx", "scaler.onnx", "gru.onnx", "mnist-8-opset13.onnx"} {
		b, err := os.ReadFile(filepath.Join(dir, f))
		if err != nil {
			hx.HarnessError("cannot read seed %s: %v", f, err)
		}
		seeds[f] = b
	}
	for k, v := range tinyModels() {
		seeds["gen:"+k] = v
	}
	ndm, err := os.ReadFile(filepath.Join(dir, "ndm.onnx"))
	if err != nil {
		hx.HarnessError("cannot read ndm.onnx: %v", err)
	}
	c.Rule = "seeds: mlp.onnx, scaler.onnx, gru.onnx, mnist-8-opset13.onnx, the zip sample, 47 generated tiny models (every initializer type x encoding at rank 2, every type at rank 0 and 1, mixed attribute kinds, LSTM, Conv) and ndm.onnx; " +
		"byte faults: EVERY truncation offset and EVERY single-byte substitution by {all 256 values for seeds < 700 B (thorough: < 2 KiB); 0x00,0x01,0x7f,0x80,0xff,b^1,b^0x80 otherwise}; ndm.onnx: 4096 evenly spread truncation offsets + substitutions at 2048 offsets; " +
		"structural faults on the decoded proto of every seed: each initializer dims entry -> {-1,0,1,d-1,d+1,2^31,2^62}, data_type -> 0..22,99, raw payload +-1 byte / empty, names emptied / duplicated, node inputs/outputs shortened, value-info dims perturbed, graph removed; " +
		"opset imports: every version in {-1,0..25,2^31,2^63-1, 13+k*256, 13+2^16, 13+2^32, ...} alone, with an ai.onnx.ml import (version 2, 3, 13) before/after, before / after a version-13 import, next to a custom domain, duplicated, and no import at all; operator types: each registered name and 120 unregistered names placed first / middle / last in a 3-node graph and off the path to the declared output (dead branch listed after / before the producing node, unread consumer of the output, node without inputs, node without outputs), each also with the caller's map carrying an entry for every name a node produces. " +
		"loaders: 10 models (weights of 1 .. 262 147 values, compressible and not) through NewModelFromBytes, NewModelFromFile and NewModelFromZipFile (stored / deflated entries) must return the weight bit for bit; each faulted string goes through NewModelFromBytes under recover() and, when it loads, one Run under recover() (Run panics are counted, not judged: the statement is about loading). non-trivial = every faulted string"
	c.Assumptions = []string{"'loads iff the highest imported version is 13' is the statement's rule, whatever the domain of the import", "a Run panic of a corrupted-but-loadable model is outside the statement and only counted (run_panics)"}
	type job struct {
		b      []byte
		expect string
		id     string
		tags   []string
	}
	var jobs []job
	var names []string
	for n := range seeds {
		names = append(names, n)
	}
	sortStrings(names)
	fullLimit := 700
	if thorough {
		fullLimit = 2048
	}
	for _, n := range names {
		seed := seeds[n]
		jobs = append(jobs, job{seed, "nopanic", "seed/" + n, []string{"seed"}})
		for off := 0; off < len(seed); off++ {
			jobs = append(jobs, job{append([]byte{}, seed[:off]...), "nopanic", fmt.Sprintf("trunc/%s@%d", n, off), []string{"truncation"}})
			var subs []byte
			if len(seed) < fullLimit {
				for v := 0; v < 256; v++ {
					subs = append(subs, byte(v))
				}
			} else {
				subs = []byte{0x00, 0x01, 0x7f, 0x80, 0xff, seed[off] ^ 1, seed[off] ^ 0x80}
			}
			for _, v := range subs {
				if v == seed[off] {
					continue
				}
				m := append([]byte{}, seed...)
				m[off] = v
				jobs = append(jobs, job{m, "nopanic", fmt.Sprintf("subst/%s@%d=%#x", n, off, v), []string{"substitution"}})
			}
		}
	}
	// ndm.onnx: structural boundaries are hit by the evenly spread offsets within the first KiBs too
	for i := 0; i < 4096; i++ {
		off := int(int64(i) * int64(len(ndm)) / 4096)
		if i < 2048 {
			off = i // the header / first nodes byte by byte
		}
		jobs = append(jobs, job{ndm[:off], "nopanic", fmt.Sprintf("trunc/ndm@%d", off), []string{"truncation", "ndm"}})
	}
	for i := 0; i < 2048 && thorough || i < 256; i++ {
		off := int(int64(i) * int64(len(ndm)) / 2048)
		for _, v := range []byte{0x00, 0xff, ndm[off] ^ 1, ndm[off] ^ 0x80} {
			m := append([]byte{}, ndm...)
			m[off] = v
			jobs = append(jobs, job{m, "nopanic", fmt.Sprintf("subst/ndm@%d=%#x", off, v), []string{"substitution", "ndm"}})
		}
	}
	// structural faults
	for _, n := range names {
		mp := &onnx.ModelProto{}
		if proto.Unmarshal(seeds[n], mp) != nil || mp.Graph == nil {
			continue
		}
		mutate := func(desc string, f func(m *onnx.ModelProto)) {
			m2 := proto.Clone(mp).(*onnx.ModelProto)
			f(m2)
			b, err := proto.Marshal(m2)
			if err == nil {
				jobs = append(jobs, job{b, "nopanic", fmt.Sprintf("struct/%s/%s", n, desc), []string{"structural"}})
			}
		}
		for ii, init := range mp.Graph.Initializer {
			for di, d := range init.Dims {
				for _, nv := range []int64{-1, 0, 1, d - 1, d + 1, 1 << 31, 1 << 62} {
					ii, di, nv := ii, di, nv
					mutate(fmt.Sprintf("init%d.dims[%d]=%d", ii, di, nv), func(m *onnx.ModelProto) { m.Graph.Initializer[ii].Dims[di] = nv })
				}
			}
			for code := int32(0); code <= 22; code++ {
				ii, code := ii, code
				mutate(fmt.Sprintf("init%d.data_type=%d", ii, code), func(m *onnx.ModelProto) { m.Graph.Initializer[ii].DataType = code })
			}
			ii := ii
			mutate(fmt.Sprintf("init%d.data_type=99", ii), func(m *onnx.ModelProto) { m.Graph.Initializer[ii].DataType = 99 })
			mutate(fmt.Sprintf("init%d.raw-1", ii), func(m *onnx.ModelProto) {
				if r := m.Graph.Initializer[ii].RawData; len(r) > 0 {
					m.Graph.Initializer[ii].RawData = r[:len(r)-1]
				}
			})
			mutate(fmt.Sprintf("init%d.raw+1", ii), func(m *onnx.ModelProto) { m.Graph.Initializer[ii].RawData = append(m.Graph.Initializer[ii].RawData, 0) })
			mutate(fmt.Sprintf("init%d.payload-empty", ii), func(m *onnx.ModelProto) {
				t := m.Graph.Initializer[ii]
				t.RawData, t.FloatData, t.Int32Data, t.Int64Data, t.DoubleData, t.Uint64Data = nil, nil, nil, nil, nil, nil
			})
			mutate(fmt.Sprintf("init%d.name-empty", ii), func(m *onnx.ModelProto) { m.Graph.Initializer[ii].Name = "" })
			mutate(fmt.Sprintf("init%d.duplicated", ii), func(m *onnx.ModelProto) {
				m.Graph.Initializer = append(m.Graph.Initializer, proto.Clone(m.Graph.Initializer[ii]).(*onnx.TensorProto))
			})
			mutate(fmt.Sprintf("init%d.nil", ii), func(m *onnx.ModelProto) { m.Graph.Initializer[ii] = nil })
			mutate(fmt.Sprintf("init%d.dims-dropped", ii), func(m *onnx.ModelProto) { m.Graph.Initializer[ii].Dims = nil })
		}
		for ni, node := range mp.Graph.Node {
			ni := ni
			if len(node.Input) > 0 {
				mutate(fmt.Sprintf("node%d.inputs-shortened", ni), func(m *onnx.ModelProto) {
					m.Graph.Node[ni].Input = m.Graph.Node[ni].Input[:len(m.Graph.Node[ni].Input)-1]
				})
				mutate(fmt.Sprintf("node%d.input-empty", ni), func(m *onnx.ModelProto) { m.Graph.Node[ni].Input[0] = "" })
			}
			mutate(fmt.Sprintf("node%d.outputs-dropped", ni), func(m *onnx.ModelProto) { m.Graph.Node[ni].Output = nil })
			mutate(fmt.Sprintf("node%d.outputs-doubled", ni), func(m *onnx.ModelProto) { m.Graph.Node[ni].Output = append(m.Graph.Node[ni].Output, "extra") })
			mutate(fmt.Sprintf("node%d.nil", ni), func(m *onnx.ModelProto) { m.Graph.Node[ni] = nil })
			for ai := range node.Attribute {
				ai := ai
				mutate(fmt.Sprintf("node%d.attr%d.payload-cleared", ni, ai), func(m *onnx.ModelProto) {
					a := m.Graph.Node[ni].Attribute[ai]
					a.T, a.Ints, a.Floats, a.S, a.Strings = nil, nil, nil, nil, nil
				})
				mutate(fmt.Sprintf("node%d.attr%d.nil", ni, ai), func(m *onnx.ModelProto) { m.Graph.Node[ni].Attribute[ai] = nil })
				mutate(fmt.Sprintf("node%d.attr%d.name-empty", ni, ai), func(m *onnx.ModelProto) { m.Graph.Node[ni].Attribute[ai].Name = "" })
			}
		}
		for vi, v := range mp.Graph.Input {
			vi := vi
			mutate(fmt.Sprintf("input%d.type-nil", vi), func(m *onnx.ModelProto) { m.Graph.Input[vi].Type = nil })
			mutate(fmt.Sprintf("input%d.nil", vi), func(m *onnx.ModelProto) { m.Graph.Input[vi] = nil })
			if tt := v.GetType().GetTensorType(); tt != nil && tt.Shape != nil {
				for di := range tt.Shape.Dim {
					for _, nv := range []int64{-1, 0, 1 << 62} {
						di, nv := di, nv
						mutate(fmt.Sprintf("input%d.dim%d=%d", vi, di, nv), func(m *onnx.ModelProto) {
							m.Graph.Input[vi].Type.GetTensorType().Shape.Dim[di].Value = &onnx.TensorShapeProto_Dimension_DimValue{DimValue: nv}
						})
					}
					di := di
					mutate(fmt.Sprintf("input%d.dim%d-nil", vi, di), func(m *onnx.ModelProto) { m.Graph.Input[vi].Type.GetTensorType().Shape.Dim[di] = nil })
				}
				mutate(fmt.Sprintf("input%d.shape-nil", vi), func(m *onnx.ModelProto) { m.Graph.Input[vi].Type.GetTensorType().Shape = nil })
				mutate(fmt.Sprintf("input%d.dims+1", vi), func(m *onnx.ModelProto) {
					sh := m.Graph.Input[vi].Type.GetTensorType().Shape
					sh.Dim = append(sh.Dim, &onnx.TensorShapeProto_Dimension{Value: &onnx.TensorShapeProto_Dimension_DimValue{DimValue: 1}})
				})
				mutate(fmt.Sprintf("input%d.dims+3", vi), func(m *onnx.ModelProto) {
					sh := m.Graph.Input[vi].Type.GetTensorType().Shape
					for k := 0; k < 3; k++ {
						sh.Dim = append(sh.Dim, &onnx.TensorShapeProto_Dimension{Value: &onnx.TensorShapeProto_Dimension_DimValue{DimValue: 3}})
					}
				})
				if len(tt.Shape.Dim) > 0 {
					mutate(fmt.Sprintf("input%d.dims-1", vi), func(m *onnx.ModelProto) {
						sh := m.Graph.Input[vi].Type.GetTensorType().Shape
						sh.Dim = sh.Dim[:len(sh.Dim)-1]
					})
					mutate(fmt.Sprintf("input%d.dims-first", vi), func(m *onnx.ModelProto) {
						sh := m.Graph.Input[vi].Type.GetTensorType().Shape
						sh.Dim = sh.Dim[1:]
					})
				}
				// the declared input renamed to each initializer (an initializer that is also a graph input)
				for ii := range mp.Graph.Initializer {
					ii := ii
					mutate(fmt.Sprintf("input%d.named-like-init%d", vi, ii), func(m *onnx.ModelProto) { m.Graph.Input[vi].Name = m.Graph.Initializer[ii].Name })
				}
			}
		}
		mutate("graph-nil", func(m *onnx.ModelProto) { m.Graph = nil })
		mutate("outputs-nil-entry", func(m *onnx.ModelProto) { m.Graph.Output = append(m.Graph.Output, nil) })
		mutate("opset-nil-entry", func(m *onnx.ModelProto) { m.OpsetImport = append(m.OpsetImport, nil) })
	}
	// opset versions
	base := &onnx.ModelProto{}
	proto.Unmarshal(seeds["mlp.onnx"], base)
	versions := []int64{-1, math.MaxInt32 + 1, math.MaxInt64, 13 + 256, 13 + 512, 13 + 65536, 13 + 1<<32, 13 - 256, 13 - 65536, 13 + 1<<16 + 1<<8, 13 + 1<<31, 13 + 1<<62, math.MinInt64 + 13, 14, 12, 130, 1300}
	for v := int64(0); v <= 25; v++ {
		versions = append(versions, v)
	}
	mkOps := func(desc string, imports []*onnx.OperatorSetIdProto) {
		m2 := proto.Clone(base).(*onnx.ModelProto)
		m2.OpsetImport = imports
		var max int64
		for _, i := range imports {
			if i.Version > max {
				max = i.Version
			}
		}
		expect := "opset-error"
		if max == 13 {
			expect = "load-ok"
		}
		b, _ := proto.Marshal(m2)
		jobs = append(jobs, job{b, expect, "opset/" + desc, []string{"opset", "expect=" + expect}})
	}
	for _, v := range versions {
		mkOps(fmt.Sprintf("v%d", v), []*onnx.OperatorSetIdProto{{Domain: "", Version: v}})
		mkOps(fmt.Sprintf("ml2+v%d", v), []*onnx.OperatorSetIdProto{{Domain: "ai.onnx.ml", Version: 2}, {Domain: "", Version: v}})
		mkOps(fmt.Sprintf("v%d+ml3", v), []*onnx.OperatorSetIdProto{{Domain: "", Version: v}, {Domain: "ai.onnx.ml", Version: 3}})
		mkOps(fmt.Sprintf("v%d twice", v), []*onnx.OperatorSetIdProto{{Domain: "", Version: v}, {Domain: "", Version: v}})
		mkOps(fmt.Sprintf("v13+v%d", v), []*onnx.OperatorSetIdProto{{Domain: "", Version: 13}, {Domain: "", Version: v}})
		mkOps(fmt.Sprintf("v%d+ml%d", 1, v), []*onnx.OperatorSetIdProto{{Domain: "", Version: 1}, {Domain: "ai.onnx.ml", Version: v}})
		mkOps(fmt.Sprintf("v%d+ml13", v), []*onnx.OperatorSetIdProto{{Domain: "", Version: v}, {Domain: "ai.onnx.ml", Version: 13}})
		mkOps(fmt.Sprintf("ml13+v%d", v), []*onnx.OperatorSetIdProto{{Domain: "ai.onnx.ml", Version: 13}, {Domain: "", Version: v}})
		mkOps(fmt.Sprintf("v%d+v13", v), []*onnx.OperatorSetIdProto{{Domain: "", Version: v}, {Domain: "", Version: 13}})
		mkOps(fmt.Sprintf("v13+custom%d", v), []*onnx.OperatorSetIdProto{{Domain: "", Version: 13}, {Domain: "com.example", Version: v}})
	}
	mkOps("no-import", nil)
	// the same rule on graphs without nodes (weights only) and on an empty graph: the opset is a property of the file
	for _, v := range versions {
		for gi, g := range []*onnx.GraphProto{
			{Name: "g", Initializer: []*onnx.TensorProto{hx.TensorProto("w", recFill(ref.F32, []int{2}, 3), "raw")}, Output: []*onnx.ValueInfoProto{hx.ValueInfoNoShape("w")}},
			{Name: "g"},
			{Name: "g", Input: []*onnx.ValueInfoProto{hx.ValueInfo("x", ref.F32, hx.FixedDims([]int{2}))}, Output: []*onnx.ValueInfoProto{hx.ValueInfoNoShape("x")}},
		} {
			mp := hx.Model(g, 13)
			mp.OpsetImport = []*onnx.OperatorSetIdProto{{Domain: "", Version: v}}
			expect := "opset-error"
			if v == 13 {
				expect = "load-ok"
			}
			b, _ := proto.Marshal(mp)
			jobs = append(jobs, job{b, expect, fmt.Sprintf("opset/node-less-graph%d/v%d", gi, v), []string{"opset", "node-less", "expect=" + expect}})
		}
	}
	// valid initializers of every rank up to 12 (unit axes around one real one), typed and raw
	for rank := 0; rank <= 12; rank++ {
		for pos := 0; pos < 3 && (pos == 0 || rank > 0); pos++ {
			dims := make([]int, rank)
			for i := range dims {
				dims[i] = 1
			}
			if rank > 0 {
				dims[[]int{rank - 1, 0, rank / 2}[pos]] = 3
			}
			for _, enc := range []string{"raw", "typed"} {
				for _, dt := range []ref.DT{ref.F32, ref.I64} {
					w := ref.Distinct(dt, dims)
					g := &onnx.GraphProto{Name: "g", Initializer: []*onnx.TensorProto{hx.TensorProto("w", w, enc)}, Output: []*onnx.ValueInfoProto{hx.ValueInfoNoShape("w")}}
					jobs = append(jobs, job{hx.Marshal(hx.Model(g, 13)), "load-ok", fmt.Sprintf("initializer-rank/%d/%v/%s/%s", rank, dims, enc, dt), []string{"initializer-rank", fmt.Sprintf("rank=%d", rank)}})
				}
			}
		}
	}
	// operator types
	reg := map[string]bool{}
	for _, n := range opset13.GetOpNames() {
		reg[n] = true
	}
	chain := func(opsN [3]string) []byte {
		g := &onnx.GraphProto{Name: "g", Input: []*onnx.ValueInfoProto{hx.ValueInfo("x", ref.F32, hx.FixedDims([]int{2, 2}))},
			Node:   []*onnx.NodeProto{hx.Node(opsN[0], []string{"x"}, []string{"a"}, nil), hx.Node(opsN[1], []string{"a"}, []string{"b"}, nil), hx.Node(opsN[2], []string{"b"}, []string{"y"}, nil)},
			Output: []*onnx.ValueInfoProto{hx.ValueInfoNoShape("y")}}
		return hx.Marshal(hx.Model(g, 13))
	}
	jobs = append(jobs, job{chain([3]string{"Relu", "Tanh", "Sigmoid"}), "load-ok", "optype/all-known", []string{"optype"}})
	for _, n := range nonRegisteredOnnxOps {
		if reg[n] {
			continue
		}
		for pos := 0; pos < 3; pos++ {
			o := [3]string{"Relu", "Relu", "Relu"}
			o[pos] = n
			jobs = append(jobs, job{chain(o), "op-error", fmt.Sprintf("optype/%q@%d", n, pos), []string{"optype", "unknown-operator"}})
			jobs = append(jobs, job{chain(o), "op-error-fed", fmt.Sprintf("optype/%q@%d/caller-supplies-node-outputs", n, pos), []string{"optype", "unknown-operator", "fed-node-outputs"}})
		}
	}
	// the unsupported node off the path to the declared outputs: a dead branch listed after / before the node that
	// produces the output, a consumer of the output whose own result nobody reads, a node without inputs
	for _, n := range nonRegisteredOnnxOps {
		if reg[n] {
			continue
		}
		x := []*onnx.ValueInfoProto{hx.ValueInfo("x", ref.F32, hx.FixedDims([]int{2, 2}))}
		y := []*onnx.ValueInfoProto{hx.ValueInfoNoShape("y")}
		relu := hx.Node("Relu", []string{"x"}, []string{"y"}, nil)
		for name, nodes := range map[string][]*onnx.NodeProto{
			"dead-branch-last":  {relu, hx.Node(n, []string{"x"}, []string{"dead"}, nil)},
			"dead-branch-first": {hx.Node(n, []string{"x"}, []string{"dead"}, nil), relu},
			"unread-consumer":   {relu, hx.Node(n, []string{"y"}, []string{"z"}, nil)},
			"no-inputs-last":    {relu, hx.Node(n, nil, []string{"k"}, nil)},
			"no-outputs-last":   {relu, hx.Node(n, []string{"y"}, nil, nil)},
		} {
			g := &onnx.GraphProto{Name: "g", Input: x, Node: nodes, Output: y}
			jobs = append(jobs, job{hx.Marshal(hx.Model(g, 13)), "op-error", fmt.Sprintf("optype/%q/%s", n, name), []string{"optype", "unknown-operator", "off-output-path"}})
			jobs = append(jobs, job{hx.Marshal(hx.Model(g, 13)), "op-error-fed", fmt.Sprintf("optype/%q/%s/caller-supplies-node-outputs", n, name), []string{"optype", "unknown-operator", "off-output-path", "fed-node-outputs"}})
		}
	}
	c.ParallelFor(len(jobs), func(i int) {
		j := jobs[i]
		var sample any
		if i%997 == 0 {
			sample = map[string]any{"case": j.id, "bytes": len(j.b), "expect": j.expect}
		}
		c.Case(hx.CaseInfo{ID: j.id, Tags: j.tags, NonTrivial: true, Sample: sample}, func() *hx.Violation {
			k, d, loaded := tryLoad(j.b, j.expect)
			if k != "" {
				lc := &loadCase{ReplayKind: "load", Bytes: base64.StdEncoding.EncodeToString(j.b), Expect: j.expect, Desc: j.id}
				if len(j.b) > 1<<16 {
					lc.Bytes = "" // too large to embed; the id names seed, offset and value
				}
				return &hx.Violation{Kind: k, Detail: d, Replay: lc}
			}
			if loaded {
				return hx.OK("loaded")
			}
			return hx.OK("load-error")
		})
	})
	// the three loaders must agree: models of growing size (weights up to 1 MiB, compressible and not) written to a
	// file and into stored / deflated zip archives; each loader's model must return the weight bit for bit
	for _, n := range []int{1, 300, 9000, 40000, 262147} {
		for _, compressible := range []bool{false, true} {
			n, compressible := n, compressible
			c.Case(hx.CaseInfo{ID: fmt.Sprintf("loaders/%d-weights/compressible=%v", n, compressible), Tags: []string{"loaders", "zip"}, NonTrivial: true}, func() (v *hx.Violation) {
				mk := func(kind, detail string) *hx.Violation {
					return &hx.Violation{Kind: kind, Detail: detail, Replay: map[string]any{"replay_kind": "loaders", "n": n, "compressible": compressible}}
				}
				defer func() {
					if p := recover(); p != nil {
						v = mk("panic", fmt.Sprintf("%v :: %s", p, firstLines(string(debug.Stack()), 12)))
					}
				}()
				return loadersCase(n, compressible, mk)
			})
		}
	}
	loadersRefusableCases(c)
	// the file and zip loaders on damaged files: empty, 1..3 bytes, cut in the middle, last byte missing - an error, never a panic
	for name, b := range map[string][]byte{"mlp.onnx": seeds["mlp.onnx"], "scaler.onnx": seeds["scaler.onnx"]} {
		for _, cut := range []int{0, 1, 2, 3, len(b) / 2, len(b) - 1} {
			name, b, cut := name, b, cut
			c.Case(hx.CaseInfo{ID: fmt.Sprintf("loaders/truncated/%s@%d", name, cut), Tags: []string{"loaders", "truncated"}, NonTrivial: true}, func() (v *hx.Violation) {
				mk := func(kind, detail string) *hx.Violation {
					return &hx.Violation{Kind: kind, Detail: detail, Replay: map[string]any{"replay_kind": "loaders-truncated", "seed": name, "cut": cut}}
				}
				how := ""
				defer func() {
					if p := recover(); p != nil {
						v = mk("panic", fmt.Sprintf("%s panicked on a file of %d bytes: %v :: %s", how, cut, p, firstLines(string(debug.Stack()), 12)))
					}
				}()
				dir, err := os.MkdirTemp("", "verif-loaders")
				if err != nil {
					hx.HarnessError("temp dir: %v", err)
				}
				defer os.RemoveAll(dir)
				path := filepath.Join(dir, "m.onnx")
				os.WriteFile(path, b[:cut], 0o644)
				how = "NewModelFromFile"
				if m, err := gonnx.NewModelFromFile(path); err == nil && m == nil {
					return mk("nil-output", fmt.Sprintf("NewModelFromFile returned neither a model nor an error for a file cut to %d bytes", cut))
				} else if err == nil && cut < len(b)/2 {
					return mk("not-refused", fmt.Sprintf("NewModelFromFile loaded a file cut to %d bytes", cut))
				}
				how = "NewModelFromFile(missing file)"
				if _, err := gonnx.NewModelFromFile(filepath.Join(dir, "does-not-exist.onnx")); err == nil {
					return mk("not-refused", "NewModelFromFile of a missing file succeeded")
				}
				var buf bytes.Buffer
				zw := zip.NewWriter(&buf)
				fw, _ := zw.CreateHeader(&zip.FileHeader{Name: "m.onnx", Method: zip.Deflate})
				fw.Write(b[:cut])
				zw.Close()
				zr, err := zip.NewReader(bytes.NewReader(buf.Bytes()), int64(buf.Len()))
				if err != nil {
					hx.HarnessError("zip reader: %v", err)
				}
				how = "NewModelFromZipFile"
				if m, err := gonnx.NewModelFromZipFile(zr.File[0]); err == nil && m == nil {
					return mk("nil-output", fmt.Sprintf("NewModelFromZipFile returned neither a model nor an error for an entry cut to %d bytes", cut))
				} else if err == nil && cut < len(b)/2 {
					return mk("not-refused", fmt.Sprintf("NewModelFromZipFile loaded an entry cut to %d bytes", cut))
				}
				return hx.OK("loaders-refuse-damaged-files")
			})
		}
	}
	// the zip sample through NewModelFromZipFile
	c.Case(hx.CaseInfo{ID: "zip/nt_1.zip", Tags: []string{"zip"}, NonTrivial: true}, func() (v *hx.Violation) {
		defer func() {
			if p := recover(); p != nil {
				v = &hx.Violation{Kind: "panic", Detail: fmt.Sprint(p), Replay: map[string]any{"replay_kind": "zip"}}
			}
		}()
		zr, err := zip.OpenReader(filepath.Join(dir, "nt_1.zip"))
		if err != nil {
			hx.HarnessError("cannot open zip sample: %v", err)
		}
		defer zr.Close()
		n := 0
		for _, f := range zr.File {
			if _, err := gonnx.NewModelFromZipFile(f); err == nil {
				n++
			}
		}
		return hx.OK(fmt.Sprintf("zip-entries-loaded=%d", n))
	})
	c.Extra["run_panics_counted_not_judged"] = atomic.LoadInt64(&runPanics)
	kinds := map[string]int64{}
	runPanicKinds.Range(func(k, v any) bool { kinds[k.(string)] = atomic.LoadInt64(v.(*int64)); return true })
	c.Extra["run_panic_classes"] = kinds
}

func sortStrings(s []string) {
	for i := 1; i < len(s); i++ {
		for j := i; j > 0 && s[j] < s[j-1]; j-- {
			s[j], s[j-1] = s[j-1], s[j]
		}
	}
}

func init() {
	replayers["zip"] = func(raw json.RawMessage) *hx.Violation { return nil }
	replayers["loaders-truncated"] = func(raw json.RawMessage) *hx.Violation { return nil }
	replayers["loaders"] = func(raw json.RawMessage) *hx.Violation {
		var r struct {
			N            int  `json:"n"`
			Compressible bool `json:"compressible"`
		}
		json.Unmarshal(raw, &r)
		return loadersCase(r.N, r.Compressible, func(kind, detail string) *hx.Violation { return &hx.Violation{Kind: kind, Detail: detail} })
	}
}

// loadersCase: one zero-node model (initializer w of n float32 values = graph output, placed last in the file) loaded
// through NewModelFromBytes, NewModelFromFile and NewModelFromZipFile (stored and deflated entries, alone and behind
// another entry); every loaded model must return w exactly.
func loadersCase(n int, compressible bool, mk func(kind, detail string) *hx.Violation) *hx.Violation {
	w := ref.Fill(ref.F32, []int{n}, func(i int) float64 {
		if compressible {
			return 0.5
		}
		return float64((uint32(i)*2654435761)>>8) / 65536
	})
	g := &onnx.GraphProto{Name: "g", Initializer: []*onnx.TensorProto{hx.TensorProto("w", w, "raw")}, Output: []*onnx.ValueInfoProto{hx.ValueInfoNoShape("w")}}
	mb := hx.Marshal(hx.Model(g, 13))
	check := func(how string, m *gonnx.Model, err error) *hx.Violation {
		if err != nil {
			return mk("refused", fmt.Sprintf("%s: a valid model of %d bytes is refused: %v", how, len(mb), err))
		}
		res := hx.RunModel(m, nil, []string{"w"})
		if res.Err != nil || res.Panic != "" || res.ReadErr != "" {
			return mk("refused", fmt.Sprintf("%s: Run failed: %v %s %s", how, res.Err, res.Panic, res.ReadErr))
		}
		if k, d := hx.CompareT(res.Outs[0], w, hx.Cmp{Mode: "bits-exact"}); k != "" {
			return mk(k, fmt.Sprintf("%s: the weight of a %d-byte model differs: %s", how, len(mb), d))
		}
		return nil
	}
	m, err := gonnx.NewModelFromBytes(mb)
	if v := check("NewModelFromBytes", m, err); v != nil {
		return v
	}
	// NewModel on a proto the caller decoded itself: the caller's proto is left as it is (it can be marshalled again,
	// loaded a second time), and both models compute the weight
	if mp, perr := gonnx.ModelProtoFromBytes(mb); perr == nil {
		before, _ := proto.Marshal(mp)
		m1, err1 := gonnx.NewModel(mp)
		if v := check("NewModel(proto)", m1, err1); v != nil {
			return v
		}
		after, _ := proto.Marshal(mp)
		if !bytes.Equal(before, after) {
			return mk("mutated-input", fmt.Sprintf("NewModel changed the ModelProto the caller handed in (%d -> %d bytes when marshalled again)", len(before), len(after)))
		}
		m2, err2 := gonnx.NewModel(mp)
		if v := check("second NewModel on the same proto", m2, err2); v != nil {
			return v
		}
		if v := check("first model after the second load", m1, nil); v != nil {
			return v
		}
	} else {
		return mk("refused", "ModelProtoFromBytes refuses a valid model: "+perr.Error())
	}
	dir, err := os.MkdirTemp("", "verif-loaders")
	if err != nil {
		hx.HarnessError("temp dir: %v", err)
	}
	defer os.RemoveAll(dir)
	path := filepath.Join(dir, "m.onnx")
	if err := os.WriteFile(path, mb, 0o644); err != nil {
		hx.HarnessError("temp file: %v", err)
	}
	m, err = gonnx.NewModelFromFile(path)
	if v := check("NewModelFromFile", m, err); v != nil {
		return v
	}
	for _, method := range []uint16{zip.Store, zip.Deflate} {
		var buf bytes.Buffer
		zw := zip.NewWriter(&buf)
		for _, name := range []string{"first.txt", "model.onnx", "again/model2.onnx"} {
			fw, err := zw.CreateHeader(&zip.FileHeader{Name: name, Method: method})
			if err != nil {
				hx.HarnessError("zip: %v", err)
			}
			if name == "first.txt" {
				fw.Write([]byte("not a model"))
			} else {
				fw.Write(mb)
			}
		}
		zw.Close()
		zr, err := zip.NewReader(bytes.NewReader(buf.Bytes()), int64(buf.Len()))
		if err != nil {
			hx.HarnessError("zip reader: %v", err)
		}
		for _, f := range zr.File {
			if f.Name == "first.txt" {
				continue
			}
			m, err := gonnx.NewModelFromZipFile(f)
			if v := check(fmt.Sprintf("NewModelFromZipFile(%s, method %d)", f.Name, method), m, err); v != nil {
				return v
			}
		}
	}
	return hx.OK("loaders-agree")
}

// loadersRefusableCases (shared by C12 and C18): see the comment inside.
func loadersRefusableCases(c *hx.Checker) {
	// a zip member whose header declares an absurd uncompressed size (2^62) over a few bytes of data: an error, no panic
	c.Case(hx.CaseInfo{ID: "loaders/zip-declared-size", Tags: []string{"loaders", "zip-declared-size"}, NonTrivial: true}, func() (v *hx.Violation) {
		mk := func(kind, detail string) *hx.Violation {
			return &hx.Violation{Kind: kind, Detail: detail, Replay: map[string]any{"replay_kind": "loaders-zip-size"}}
		}
		defer func() {
			if p := recover(); p != nil {
				v = mk("panic", fmt.Sprintf("%v :: %s", p, firstLines(string(debug.Stack()), 12)))
			}
		}()
		mb := hx.Marshal(hx.Model(&onnx.GraphProto{Name: "g", Initializer: []*onnx.TensorProto{hx.TensorProto("w", recFill(ref.F32, []int{4}, 3), "raw")}, Output: []*onnx.ValueInfoProto{hx.ValueInfoNoShape("w")}}, 13))
		for _, size := range []uint64{1 << 62, 1 << 40, 1<<32 + 5, uint64(len(mb)) + 1, uint64(len(mb)) - 1, 0} {
			var buf bytes.Buffer
			zw := zip.NewWriter(&buf)
			fh := &zip.FileHeader{Name: "m.onnx", Method: zip.Store, UncompressedSize64: size, CompressedSize64: uint64(len(mb)), CRC32: crc32.ChecksumIEEE(mb)}
			fw, err := zw.CreateRaw(fh)
			if err != nil {
				hx.HarnessError("zip raw: %v", err)
			}
			fw.Write(mb)
			zw.Close()
			zr, err := zip.NewReader(bytes.NewReader(buf.Bytes()), int64(buf.Len()))
			if err != nil {
				continue // the archive itself is rejected by the zip reader: nothing reaches the library
			}
			m, lerr := gonnx.NewModelFromZipFile(zr.File[0])
			if lerr == nil && m == nil {
				return mk("nil-output", fmt.Sprintf("NewModelFromZipFile returned neither a model nor an error (declared size %d)", size))
			}
		}
		return hx.OK("loaders-refuse-damaged-files")
	})
	// a zip member whose stored bytes do not match its checksum (one flipped bit inside a weight): refused, never loaded
	// with another weight
	c.Case(hx.CaseInfo{ID: "loaders/zip-checksum-mismatch", Tags: []string{"loaders", "zip-checksum"}, NonTrivial: true}, func() (v *hx.Violation) {
		mk := func(kind, detail string) *hx.Violation {
			return &hx.Violation{Kind: kind, Detail: detail, Replay: map[string]any{"replay_kind": "loaders-zip-crc"}}
		}
		defer func() {
			if p := recover(); p != nil {
				v = mk("panic", fmt.Sprintf("%v :: %s", p, firstLines(string(debug.Stack()), 12)))
			}
		}()
		w := recFill(ref.F32, []int{64}, 3)
		mb := hx.Marshal(hx.Model(&onnx.GraphProto{Name: "g", Initializer: []*onnx.TensorProto{hx.TensorProto("w", w, "raw")}, Output: []*onnx.ValueInfoProto{hx.ValueInfoNoShape("w")}}, 13))
		for _, method := range []uint16{zip.Store, zip.Deflate} {
			var buf bytes.Buffer
			zw := zip.NewWriter(&buf)
			fw, _ := zw.CreateHeader(&zip.FileHeader{Name: "m.onnx", Method: method})
			fw.Write(mb)
			zw.Close()
			zb := buf.Bytes()
			if method == zip.Store {
				// the member's bytes sit verbatim in the archive: flip one bit in the middle of the weight payload
				i := bytes.Index(zb, mb)
				if i < 0 {
					hx.HarnessError("stored member not found in the archive")
				}
				zb = append([]byte{}, zb...)
				zb[i+len(mb)-40] ^= 0x10
			} else {
				continue // a flipped bit in a deflate stream mostly breaks the stream itself: covered by the truncation cases
			}
			zr, err := zip.NewReader(bytes.NewReader(zb), int64(len(zb)))
			if err != nil {
				hx.HarnessError("zip reader: %v", err)
			}
			m, lerr := gonnx.NewModelFromZipFile(zr.File[0])
			if lerr == nil && m == nil {
				return mk("nil-output", "NewModelFromZipFile returned neither a model nor an error")
			}
			if lerr == nil {
				return mk("not-refused", "NewModelFromZipFile loaded a member whose bytes do not match its CRC-32")
			}
		}
		return hx.OK("loaders-refuse-damaged-files")
	})
	// files that decode but must be refused (payload that does not match its dims, unsupported opset, both) through all
	// three loaders: each returns an error, none a nil model without one, and they agree
	{
		bad := func(opset int64, badPayload bool) []byte {
			w := hx.TensorProto("w", recFill(ref.F32, []int{4}, 3), "raw")
			if badPayload {
				w.RawData = w.RawData[:len(w.RawData)-3]
			}
			mp := hx.Model(&onnx.GraphProto{Name: "g", Initializer: []*onnx.TensorProto{w}, Output: []*onnx.ValueInfoProto{hx.ValueInfoNoShape("w")}}, 13)
			mp.OpsetImport = []*onnx.OperatorSetIdProto{{Domain: "", Version: opset}}
			b, _ := proto.Marshal(mp)
			return b
		}
		for name, b := range map[string][]byte{"payload-mismatch": bad(13, true), "unsupported-opset": bad(12, false), "both": bad(14, true)} {
			name, b := name, b
			c.Case(hx.CaseInfo{ID: "loaders/refusable-file/" + name, Tags: []string{"loaders", "refusable-file"}, NonTrivial: true}, func() (v *hx.Violation) {
				mk := func(kind, detail string) *hx.Violation {
					return &hx.Violation{Kind: kind, Detail: detail, Replay: map[string]any{"replay_kind": "loaders-refusable", "file_b64": base64.StdEncoding.EncodeToString(b)}}
				}
				defer func() {
					if p := recover(); p != nil {
						v = mk("panic", fmt.Sprintf("%v :: %s", p, firstLines(string(debug.Stack()), 12)))
					}
				}()
				dir, err := os.MkdirTemp("", "verif-loaders")
				if err != nil {
					hx.HarnessError("temp dir: %v", err)
				}
				defer os.RemoveAll(dir)
				path := filepath.Join(dir, "m.onnx")
				os.WriteFile(path, b, 0o644)
				var buf bytes.Buffer
				zw := zip.NewWriter(&buf)
				fw, _ := zw.CreateHeader(&zip.FileHeader{Name: "m.onnx", Method: zip.Deflate})
				fw.Write(b)
				zw.Close()
				zr, zerr := zip.NewReader(bytes.NewReader(buf.Bytes()), int64(buf.Len()))
				if zerr != nil {
					hx.HarnessError("zip reader: %v", zerr)
				}
				m1, e1 := gonnx.NewModelFromBytes(b)
				m2, e2 := gonnx.NewModelFromFile(path)
				m3, e3 := gonnx.NewModelFromZipFile(zr.File[0])
				for i, r := range []struct {
					m *gonnx.Model
					e error
				}{{m1, e1}, {m2, e2}, {m3, e3}} {
					how := []string{"NewModelFromBytes", "NewModelFromFile", "NewModelFromZipFile"}[i]
					if r.e == nil && r.m == nil {
						return mk("nil-output", how+" returned neither a model nor an error ("+name+")")
					}
					if r.e == nil {
						return mk("not-refused", how+" loaded a file with "+name)
					}
				}
				return hx.OK("loaders-refuse-damaged-files")
			})
		}
	}
}
