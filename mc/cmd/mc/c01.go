package main

import (
	"fmt"
	"sort"
	"strings"
	"sync"
	"time"

	"github.com/advancedclimatesystems/gonnx/onnx"
	"verifmc/hx"
	"verifmc/ref"
)

// C01 — Run computes the dataflow composition of the graph (program BFS, E2).

func init() { register("C01", "model_checking", checkC01) }

type pNode struct {
	Op    string
	Attrs []hx.Attr
	In    []string // "" = absent optional input
	Out   []string // "" = skipped output
	NRet  int      // number of tensors the operator returns
	Inits map[string]*ref.T
	Desc  string
}

type pValue struct {
	Name string
	Sort string // M S H Y C4
}

type program struct {
	Nodes  []pNode
	Values []pValue // values available for wiring, in creation order
	Used   map[string]bool
}

var sortShape = map[string][]int{"M": {2, 2}, "S": {2, 1, 2}, "H": {1, 1, 2}, "Y": {2, 1, 1, 2}, "C4": {4, 2}}

func (p *program) clone() *program {
	q := &program{Nodes: append([]pNode{}, p.Nodes...), Values: append([]pValue{}, p.Values...), Used: map[string]bool{}}
	for k := range p.Used {
		q.Used[k] = true
	}
	return q
}

func (p *program) ofSort(s string) []string {
	var out []string
	for _, v := range p.Values {
		if v.Sort == s {
			out = append(out, v.Name)
		}
	}
	return out
}

func (p *program) text() string {
	var sb strings.Builder
	for _, n := range p.Nodes {
		fmt.Fprintf(&sb, "%v = %s%s(%v); ", n.Out, n.Op, n.Desc, n.In)
	}
	return sb.String()
}

func initialProgram() *program {
	p := &program{Used: map[string]bool{}}
	for _, v := range []pValue{{"a", "M"}, {"b", "M"}, {"w1", "M"}, {"w2", "M"}, {"s", "S"}, {"h", "H"}} {
		p.Values = append(p.Values, v)
		p.Used[v.Name] = true
	}
	return p
}

// successors enumerates every node instance (template x wiring x naming scheme) appendable to p.
// reduced=true uses the smaller alphabet for deep levels; must, if non-empty, requires the new node to
// consume that value (chains / diamonds).
func successors(p *program, reduced bool, must string) []*program {
	var out []*program
	k := len(p.Nodes)
	fresh := func(j int) string { return fmt.Sprintf("n%d_%d", k, j) }
	emit := func(n pNode, outSorts []string) {
		if must != "" {
			ok := false
			for _, i := range n.In {
				if i == must {
					ok = true
				}
			}
			if !ok {
				return
			}
		}
		for _, o := range n.Out {
			if o != "" && p.Used[o] {
				return // SSA: names are unique
			}
		}
		seen := map[string]bool{}
		for _, o := range n.Out {
			if o != "" {
				if seen[o] {
					return
				}
				seen[o] = true
			}
		}
		q := p.clone()
		q.Nodes = append(q.Nodes, n)
		for j, o := range n.Out {
			if o != "" {
				q.Used[o] = true
				if j < len(outSorts) && j < n.NRet {
					q.Values = append(q.Values, pValue{o, outSorts[j]})
				}
			}
		}
		for name := range n.Inits {
			q.Used[name] = true
		}
		out = append(out, q)
	}
	M, S, H, Y, C4 := p.ofSort("M"), p.ofSort("S"), p.ofSort("H"), p.ofSort("Y"), p.ofSort("C4")
	// elementwise binary
	for _, op := range []string{"Sub", "Add", "Mul"} {
		if reduced && op != "Sub" {
			continue
		}
		for _, vals := range [][]string{M, S} {
			sortName := "M"
			if len(vals) > 0 && vals[0] == "s" || (len(S) > 0 && len(vals) == len(S) && &vals[0] == &S[0]) {
				sortName = "S"
			}
			for i, x := range vals {
				for j, y := range vals {
					if op != "Sub" && j < i {
						continue
					}
					emit(pNode{Op: op, In: []string{x, y}, Out: []string{fresh(0)}, NRet: 1}, []string{sortName})
				}
			}
		}
	}
	// unary
	for _, v := range p.Values {
		emit(pNode{Op: "Relu", In: []string{v.Name}, Out: []string{fresh(0)}, NRet: 1}, []string{v.Sort})
	}
	for _, x := range M {
		emit(pNode{Op: "Transpose", Attrs: []hx.Attr{hx.AInts("perm", 1, 0)}, In: []string{x}, Out: []string{fresh(0)}, NRet: 1, Desc: "[1,0]"}, []string{"M"})
		if !reduced {
			emit(pNode{Op: "Softmax", Attrs: []hx.Attr{hx.AInt("axis", -1)}, In: []string{x}, Out: []string{fresh(0)}, NRet: 1, Desc: "{axis=-1}"}, []string{"M"})
			emit(pNode{Op: "Softmax", Attrs: []hx.Attr{hx.AInt("axis", 0)}, In: []string{x}, Out: []string{fresh(0)}, NRet: 1, Desc: "{axis=0}"}, []string{"M"})
			shp := fmt.Sprintf("n%d_shape", k)
			emit(pNode{Op: "Reshape", In: []string{x, shp}, Out: []string{fresh(0)}, NRet: 1, Inits: map[string]*ref.T{shp: ref.I64Vec(2, 1, 2)}}, []string{"S"})
		}
	}
	if !reduced {
		// forwarding operators: with these arguments the result equals the operand, and an implementation may hand the
		// operand object itself on under the new name (one tensor object bound to two names of the environment)
		for _, sv := range []struct {
			vals  []string
			sort  string
			shape []int64
		}{{M, "M", []int64{2, 2}}, {S, "S", []int64{2, 1, 2}}} {
			for _, x := range sv.vals {
				shp := fmt.Sprintf("n%d_same", k)
				emit(pNode{Op: "Expand", In: []string{x, shp}, Out: []string{fresh(0)}, NRet: 1, Inits: map[string]*ref.T{shp: ref.I64Vec(sv.shape...)}, Desc: "same-shape"}, []string{sv.sort})
				emit(pNode{Op: "Concat", Attrs: []hx.Attr{hx.AInt("axis", 0)}, In: []string{x}, Out: []string{fresh(0)}, NRet: 1, Desc: "single-input"}, []string{sv.sort})
			}
		}
	}
	for _, x := range M {
		for _, y := range M {
			if !reduced {
				emit(pNode{Op: "MatMul", In: []string{x, y}, Out: []string{fresh(0)}, NRet: 1}, []string{"M"})
				emit(pNode{Op: "Gemm", Attrs: []hx.Attr{hx.AInt("transB", 1)}, In: []string{x, y}, Out: []string{fresh(0)}, NRet: 1, Desc: "{transB}"}, []string{"M"})
				emit(pNode{Op: "Concat", Attrs: []hx.Attr{hx.AInt("axis", 0)}, In: []string{x, y}, Out: []string{fresh(0)}, NRet: 1}, []string{"C4"})
			}
			g2 := []hx.Attr{hx.AInt("transA", 1), hx.AFloat("alpha", 0.5), hx.AFloat("beta", 2)}
			emit(pNode{Op: "Gemm", Attrs: g2, In: []string{x, y}, Out: []string{fresh(0)}, NRet: 1, Desc: "{transA,.5,2;C omitted}"}, []string{"M"})
			emit(pNode{Op: "Gemm", Attrs: g2, In: []string{x, y, ""}, Out: []string{fresh(0)}, NRet: 1, Desc: "{transA,.5,2;C empty}"}, []string{"M"})
			emit(pNode{Op: "Gemm", Attrs: g2, In: []string{x, y, M[0]}, Out: []string{fresh(0)}, NRet: 1, Desc: "{transA,.5,2;C}"}, []string{"M"})
			if !reduced && len(M) > 1 {
				emit(pNode{Op: "Gemm", Attrs: g2, In: []string{x, y, M[len(M)-1]}, Out: []string{fresh(0)}, NRet: 1, Desc: "{transA,.5,2;C}"}, []string{"M"})
			}
		}
	}
	if !reduced {
		for _, x := range C4 {
			st, en, ax := fmt.Sprintf("n%d_st", k), fmt.Sprintf("n%d_en", k), fmt.Sprintf("n%d_ax", k)
			emit(pNode{Op: "Slice", In: []string{x, st, en, ax}, Out: []string{fresh(0)}, NRet: 1, Inits: map[string]*ref.T{st: ref.I64Vec(1), en: ref.I64Vec(3), ax: ref.I64Vec(0)}, Desc: "[1:3]"}, []string{"M"})
		}
		for _, x := range Y {
			ax := fmt.Sprintf("n%d_axes", k)
			emit(pNode{Op: "Squeeze", In: []string{x, ax}, Out: []string{fresh(0)}, NRet: 1, Inits: map[string]*ref.T{ax: ref.I64Vec(1)}}, []string{"S"})
		}
		emit(pNode{Op: "Constant", Attrs: []hx.Attr{hx.ATensor("value", recFill(ref.F32, []int{2, 2}, 40+k), "raw")}, Out: []string{fresh(0)}, NRet: 1}, []string{"M"})
	}
	// recurrent nodes
	for _, op := range []string{"GRU", "RNN", "LSTM"} {
		if reduced && op != "GRU" {
			continue
		}
		ng := map[string]int{"RNN": 1, "GRU": 3, "LSTM": 4}[op]
		nret := 2
		sorts := []string{"Y", "H"}
		if op == "LSTM" {
			nret, sorts = 3, []string{"Y", "H", "H"}
		}
		wn, rn, bn := fmt.Sprintf("n%d_W", k), fmt.Sprintf("n%d_R", k), fmt.Sprintf("n%d_B", k)
		inits := map[string]*ref.T{wn: recFill(ref.F32, []int{1, ng * 2, 2}, 2+k), rn: recFill(ref.F32, []int{1, ng * 2, 2}, 3+k), bn: recFill(ref.F32, []int{1, 2 * ng * 2}, 4+k)}
		for _, explicitActs := range []bool{false, true} {
			attrs := []hx.Attr{hx.AInt("hidden_size", 2)}
			actDesc := ""
			if explicitActs { // the same operator type with different attributes (both orders arise at depth 2)
				if reduced {
					continue
				}
				attrs = append(attrs, hx.AStrs("activations", map[string][]string{"RNN": {"relu"}, "GRU": {"sigmoid", "relu"}, "LSTM": {"tanh", "sigmoid", "relu"}}[op]...))
				actDesc = " acts"
			}
			for _, x := range S {
				hopts := append([]string{"<omit>", ""}, H...)
				for _, hv := range hopts {
					ins := []string{x, wn, rn, bn}
					switch hv {
					case "<omit>":
					default:
						ins = append(ins, "", hv)
						if op == "LSTM" && hv != "" {
							ins = append(ins, H[0]) // initial_c
						}
						if op == "LSTM" && hv == "" && len(H) > 0 {
							ins = append(ins, H[len(H)-1]) // initial_c wired while initial_h is skipped by an empty name
						}
					}
					if op == "LSTM" && len(H) > 0 && hv == H[0] {
						// extra wiring: initial_h wired, initial_c omitted
						emit(pNode{Op: op, Attrs: attrs, In: []string{x, wn, rn, bn, "", hv}, Out: []string{fresh(0), fresh(1), fresh(2)}, NRet: nret, Inits: inits, Desc: fmt.Sprintf("{h=%q c omitted%s}", hv, actDesc)}, sorts)
					}
					var schemes [][]string
					spec := []string{"Y", "Y_h", "Y_c"}[:nret]
					arb := make([]string, nret)
					for j := range arb {
						arb[j] = fresh(j)
					}
					perm := append([]string{}, spec...)
					perm[0], perm[1] = perm[1], perm[0]
					mid := append([]string{}, arb...)
					if nret == 3 {
						mid[1] = ""
					} else {
						mid[0] = ""
					}
					// trailing optional outputs omitted by EMPTY names at the end of the list (legal ONNX, as is a shorter list)
					trail := append([]string{}, arb...)
					trail[nret-1] = ""
					onlyY := append([]string{}, arb...)
					for j := 1; j < nret; j++ {
						onlyY[j] = ""
					}
					schemes = [][]string{arb, spec, perm, arb[:nret-1], mid, trail, onlyY}
					if reduced {
						schemes = schemes[:1]
					}
					if explicitActs {
						schemes = schemes[:2]
					}
					for si, sc := range schemes {
						emit(pNode{Op: op, Attrs: attrs, In: ins, Out: sc, NRet: nret, Inits: inits, Desc: fmt.Sprintf("{h=%q names=%d%s}", hv, si, actDesc)}, sorts)
					}
				}
			}
		}
	}
	return out
}

type progVariant struct {
	initAsInput string // name of an initializer also listed as graph input ("" = none)
	supply      bool   // caller supplies a different value for it
	decl        string // how graph inputs are declared: "" fixed dims | symbolic | typeonly (no shape)
	passthrough bool   // the initializer w1 and the graph input a are declared as graph outputs too
	valueInfo   bool   // the graph carries value_info entries (name, type, shape) for every intermediate value
	extraOut    bool   // the last node lists one output name more than its operator returns; that name is a graph output
	dupOut      bool   // the last declared graph output is declared twice
	fedInter    bool   // the caller's map also carries (other) tensors named like the intermediate values
	lastOnly    bool   // only the values of the LAST node are declared graph outputs (intermediates are not observable:
	// an executor is free to release them once their last reader has run)
}

// build marshals the program and computes the reference environment.
func buildProgram(p *program, valueSet int, pv progVariant) (*modelCase, string) {
	feedAll := map[string]*ref.T{"a": recFill(ref.F32, []int{2, 2}, 11+valueSet*7), "b": recFill(ref.F32, []int{2, 2}, 12+valueSet*5), "s": recFill(ref.F32, []int{2, 1, 2}, 13+valueSet*3), "h": recFill(ref.F32, []int{1, 1, 2}, 14+valueSet)}
	inits := map[string]*ref.T{"w1": recFill(ref.F32, []int{2, 2}, 21), "w2": recFill(ref.F32, []int{2, 2}, 22)}
	g := &onnx.GraphProto{Name: "g"}
	for _, n := range []string{"a", "b", "s", "h"} {
		switch pv.decl {
		case "symbolic":
			g.Input = append(g.Input, hx.ValueInfo(n, ref.F32, hx.SymbolicDims(len(feedAll[n].Shape), n+"_d")))
		case "typeonly":
			g.Input = append(g.Input, hx.ValueInfoTypeOnly(n, ref.F32))
		default:
			g.Input = append(g.Input, hx.ValueInfo(n, ref.F32, hx.FixedDims(feedAll[n].Shape)))
		}
	}
	env := map[string]*ref.T{}
	for k, v := range feedAll {
		env[k] = v
	}
	feed := map[string]*ref.T{}
	for k, v := range feedAll {
		feed[k] = v
	}
	for _, n := range p.Nodes {
		for k, v := range n.Inits {
			inits[k] = v
		}
	}
	var inames []string
	for k := range inits {
		inames = append(inames, k)
	}
	sort.Strings(inames)
	for _, k := range inames {
		g.Initializer = append(g.Initializer, hx.TensorProto(k, inits[k], "raw"))
		env[k] = inits[k]
	}
	if pv.initAsInput != "" {
		g.Input = append(g.Input, hx.ValueInfo(pv.initAsInput, ref.F32, hx.FixedDims(inits[pv.initAsInput].Shape)))
		if pv.supply {
			other := recFill(ref.F32, inits[pv.initAsInput].Shape, 77)
			feed[pv.initAsInput] = other
			env[pv.initAsInput] = other // ONNX: the initializer is only the default
		}
	}
	expect := "outputs"
	expected := map[string]*ref.T{}
	if pv.passthrough {
		// a graph may declare an initializer (here w1: the default or the caller's value) or a graph input as output
		for _, o := range []string{"w1", "a"} {
			expected[o] = env[o]
			g.Output = append(g.Output, hx.ValueInfoNoShape(o))
		}
	}
	for _, n := range p.Nodes {
		g.Node = append(g.Node, hx.Node(n.Op, n.In, n.Out, n.Attrs))
		ins := make([]*ref.T, len(n.In))
		for i, name := range n.In {
			if name != "" {
				ins[i] = env[name]
			}
		}
		outs, err := refEval(n.Op, n.Attrs, ins)
		if err != nil {
			hx.HarnessError("reference cannot evaluate generated program %s: %v", p.text(), err)
		}
		if len(n.Out) < n.NRet {
			expect = "outputs-or-error" // fewer names than results: positional binding with a length check may refuse
		}
		for j, o := range n.Out {
			if o != "" && j < len(outs) {
				env[o] = outs[j]
				expected[o] = outs[j]
				g.Output = append(g.Output, hx.ValueInfoNoShape(o))
			}
		}
	}
	if pv.lastOnly && len(p.Nodes) > 0 {
		lastOuts := map[string]bool{}
		for _, o := range p.Nodes[len(p.Nodes)-1].Out {
			if o != "" {
				lastOuts[o] = true
			}
		}
		var keep []*onnx.ValueInfoProto
		for _, vi := range g.Output {
			if lastOuts[vi.GetName()] || vi.GetName() == "w1" || vi.GetName() == "a" {
				keep = append(keep, vi)
			} else {
				delete(expected, vi.GetName())
			}
		}
		g.Output = keep
	}
	if pv.valueInfo {
		for name, t := range expected {
			g.ValueInfo = append(g.ValueInfo, hx.ValueInfo(name, t.DT, hx.FixedDims(t.Shape)))
		}
		sort.Slice(g.ValueInfo, func(i, j int) bool { return g.ValueInfo[i].Name < g.ValueInfo[j].Name })
	}
	if pv.extraOut && len(g.Node) > 0 && len(p.Nodes[len(p.Nodes)-1].Out) >= p.Nodes[len(p.Nodes)-1].NRet {
		last := g.Node[len(g.Node)-1]
		last.Output = append(last.Output, "one_name_too_many")
		g.Output = append(g.Output, hx.ValueInfoNoShape("one_name_too_many"))
		// no tensor can be bound to that name: the declared output cannot be present and non-nil, so Run must fail
		expect, expected = "error", nil
	}
	if pv.dupOut && len(g.Output) > 0 {
		g.Output = append(g.Output, hx.ValueInfoNoShape(g.Output[len(g.Output)-1].GetName()))
	}
	if pv.fedInter && expected != nil {
		// a name the graph does not declare as input is not an input: the nodes decide these values (Run may refuse
		// the surplus entries, but must not let them replace a node's result)
		for name, t := range expected {
			if _, isIn := feedAll[name]; !isIn && name != "w1" && name != "w2" && t.DT == ref.F32 {
				feed[name] = recFill(ref.F32, t.Shape, 91)
			}
		}
		if expect == "outputs" {
			expect = "outputs-or-error"
		}
	}
	mc := newModelCase(hx.Marshal(hx.Model(g, 13)), feed, expect, expected, hx.Tol(1e-4, 1e-4), "")
	mc.Graph = p.text()
	return mc, expect
}

func checkC01(c *hx.Checker) {
	thorough := c.Tier == "thorough"
	c.Rule = "program-construction transition system: state = program prefix over graph inputs a,b:(2,2) s:(2,1,2) h:(1,1,2) and initializers w1,w2; transition = append one node instance = template x wiring of every input slot to every value of the right sort (or absent: omitted / empty name) x output naming scheme. " +
		"Templates: Add/Sub/Mul (all ordered pairs for Sub), Relu, Transpose, Softmax{axis=-1}, Softmax{axis=0}, MatMul, Gemm{transB}, Gemm{transA,alpha=.5,beta=2} (C wired / omitted / empty), Concat+Slice, Reshape, Squeeze, Constant, RNN/GRU/LSTM with default and with explicit non-default activations (initial_h omitted / empty / wired; 5 output naming schemes: arbitrary, spec names, permuted spec names, trailing output omitted, skipped output with empty name). " +
		"BFS: all programs of depth <= 2 over the full alphabet; depth 3 over the reduced alphabet {Sub, Relu, Transpose, Gemm2, GRU} as chains (each node consumes its predecessor's result)" +
		map[bool]string{true: " and, thorough, unrestricted depth 3 over the reduced alphabet plus ALL depth-3 programs over the full alphabet (streamed simplest-first under a 25-minute budget; the evidence says whether it completed)", false: ""}[thorough] +
		"; 2 input value sets; every depth<=1 program also with w1 declared as graph input (not supplied / supplied with another value), with the graph inputs declared with symbolic dims / without shape, and with the initializer w1 and the graph input a declared as graph outputs (passthrough); with value_info entries for every intermediate value, and with one output name more than the last node's operator returns (declared as graph output: Run must fail), with the last graph output declared twice, and with the caller's map carrying other tensors under the names of the intermediate values (computed correctly or refused); scalar (rank-0) graph inputs with and without an initializer default; one 5-node program under 7 value-naming schemes (prefixes of each other, case-only differences, odd characters, numeric-looking, very long, keyword-like) x 4 orders of the input / initializer / output lists; a chain of 600 nodes; 4 graphs with a node whose operator fails while computing (error, never a nil output); 31 pairs of twin nodes (same operator, same inputs; one differing attribute of each kind, or spelled out vs left to the default) in 3 orders. A producer -> consumer sweep: every representative case of every operator, and producers chosen for the state they leave behind (every transpose of shapes with extent-1 axes, rank-preserving reshapes, slices, gathers, squeezes), followed - directly and through Relu / Mul(-1) - by each of 31 shape-agnostic consumers (broadcasts that stretch the value, PRelu on either side, transposes, reshapes, slices, gathers, concats, reductions, Softmax, MatMul, Gemm C, Expand, Cast, Shape): about 16 000 two- and three-node graphs; two-node graphs with the operator-set domain spelled empty / ai.onnx / ai.onnx.ml on each node. Every program is marshalled, loaded with NewModelFromBytes and Run with EVERY intermediate value declared as graph output - and every program of depth >= 2 a second time with only the LAST node's values declared (intermediates that the executor may release; forwarding nodes - Expand to the same shape, single-input Concat - hand one tensor object on under two names) - and compared value by value with the reference evaluation of the same graph. " +
		"states = program prefixes, transitions = appended node instances; non-trivial = programs with >= 1 node"
	c.Assumptions = []string{"reference evaluator: ref interpreter applied node by node to a name->tensor environment (refeval.go)", "tolerance 1e-4 (abs+rel) on float32 values of magnitude <= ~10",
		"a node listing fewer output names than the operator returns may be refused (positional binding with length check) but must never yield nil / missing outputs"}
	type item struct {
		p  *program
		vs int
		pv progVariant
	}
	var items []item
	var states, transitions int64
	root := initialProgram()
	states++
	level1 := successors(root, false, "")
	transitions += int64(len(level1))
	for _, p := range level1 {
		states++
		for vs := 0; vs < 2; vs++ {
			items = append(items, item{p, vs, progVariant{}})
		}
		items = append(items, item{p, 0, progVariant{initAsInput: "w1"}}, item{p, 0, progVariant{initAsInput: "w1", supply: true}})
		for _, d := range []string{"symbolic", "typeonly"} {
			items = append(items, item{p, 1, progVariant{decl: d}})
		}
		items = append(items, item{p, 1, progVariant{valueInfo: true}}, item{p, 0, progVariant{extraOut: true}}, item{p, 0, progVariant{dupOut: true}}, item{p, 1, progVariant{fedInter: true}})
		items = append(items, item{p, 0, progVariant{passthrough: true}}, item{p, 1, progVariant{initAsInput: "w1", passthrough: true}},
			item{p, 0, progVariant{initAsInput: "w1", supply: true, passthrough: true}}, item{p, 1, progVariant{decl: "typeonly", initAsInput: "w1", supply: true, passthrough: true}})
	}
	items = append(items, item{root, 0, progVariant{}}, item{root, 0, progVariant{initAsInput: "w1", supply: true}}, item{root, 0, progVariant{passthrough: true}},
		item{root, 0, progVariant{initAsInput: "w1", passthrough: true}}, item{root, 0, progVariant{initAsInput: "w1", supply: true, passthrough: true}})
	var level2 []*program
	for _, p := range level1 {
		succ := successors(p, false, "")
		transitions += int64(len(succ))
		for _, q := range succ {
			states++
			level2 = append(level2, q)
			items = append(items, item{q, int(states) % 2, progVariant{}})
			items = append(items, item{q, int(states+1) % 2, progVariant{lastOnly: true}})
		}
		if c.Expired() {
			break
		}
	}
	// depth 3 over the reduced alphabet
	var l1r []*program
	l1r = successors(root, true, "")
	for _, p := range l1r {
		last := p.Nodes[len(p.Nodes)-1].Out
		for _, q := range successors(p, true, pick(last)) {
			transitions++
			var third []*program
			if thorough {
				third = successors(q, true, "")
			} else {
				third = successors(q, true, pick(q.Nodes[len(q.Nodes)-1].Out))
			}
			transitions += int64(len(third))
			for _, r := range third {
				states++
				items = append(items, item{r, int(states) % 2, progVariant{}})
				items = append(items, item{r, int(states+1) % 2, progVariant{lastOnly: true}})
			}
		}
	}
	c.Extra["programs_depth1"] = len(level1)
	c.Extra["programs_depth2"] = len(level2)
	c.AddStates(states)
	c.AddTransitions(transitions)
	c.AddTraces(int64(len(items)))
	runItem := func(i int, it item) {
		mc, expect := buildProgram(it.p, it.vs, it.pv)
		tags := []string{fmt.Sprintf("depth=%d", len(it.p.Nodes)), "expect=" + expect}
		ops := map[string]bool{}
		for _, n := range it.p.Nodes {
			if !ops[n.Op] {
				ops[n.Op] = true
				tags = append(tags, "has="+n.Op)
			}
		}
		if it.pv.initAsInput != "" {
			tags = append(tags, "initializer-as-input", fmt.Sprintf("supplied=%v", it.pv.supply))
		}
		if it.pv.decl != "" {
			tags = append(tags, "inputs-declared="+it.pv.decl)
		}
		if it.pv.passthrough {
			tags = append(tags, "passthrough-outputs")
		}
		if it.pv.valueInfo {
			tags = append(tags, "with-value_info")
		}
		if it.pv.extraOut {
			tags = append(tags, "one-output-name-too-many")
		}
		if it.pv.dupOut {
			tags = append(tags, "output-declared-twice")
		}
		if it.pv.fedInter {
			tags = append(tags, "caller-supplies-intermediate-names")
		}
		id := fmt.Sprintf("prog[%s]/vs%d/%+v", it.p.text(), it.vs, it.pv)
		var sample any
		if i%2500 == 1 {
			sample = map[string]any{"program": it.p.text(), "variant": fmt.Sprintf("%+v", it.pv)}
		}
		c.Case(hx.CaseInfo{ID: id, Tags: tags, NonTrivial: len(it.p.Nodes) > 0, Sample: sample}, func() *hx.Violation { return mc.run() })
	}
	c.ParallelFor(len(items), func(i int) { runItem(i, items[i]) })
	pairSweep(c)
	domainSweep(c)
	// naming and ordering stress on one fixed program (x = Sub(a,b); y = Relu(x); z = Add(y,w1); t = Transpose(z);
	// u = MatMul(t,w2)): value names that are prefixes of each other, differ only in case, carry spaces / dots /
	// non-ASCII characters or are very long; the lists of initializers, graph inputs and graph outputs in every
	// rotation / reversed; a chain of 600 nodes
	{
		base := []string{"a", "b", "w1", "w2", "x", "y", "z", "t", "u"}
		schemes := map[string][]string{
			"plain":         base,
			"prefixes":      {"a", "aa", "aaa", "aaaa", "a_", "a__", "a_a", "aa_", "_a"},
			"case":          {"x", "X", "w", "W", "Y", "y", "Z", "z", "xX"},
			"odd-chars":     {"in put", "in.put", "wei/ght", "w:2", " x", "y ", "z\tz", "t\"", "\u00fc"},
			"numeric":       {"0", "1", "00", "01", "10", "1.0", "-1", "1e3", "0x1"},
			"very-long":     {strings.Repeat("a", 300), strings.Repeat("a", 301), strings.Repeat("w", 4000), strings.Repeat("w", 3999) + "W", "x" + strings.Repeat("y", 999), strings.Repeat("y", 1000), "z", "t", strings.Repeat("u", 70000)},
			"like-keywords": {"input", "output", "Input", "initializer", "tensor", "nil", "null", "_", "y_pred"},
		}
		av, bv := recFill(ref.F32, []int{2, 2}, 41), recFill(ref.F32, []int{2, 2}, 42)
		w1v, w2v := recFill(ref.F32, []int{2, 2}, 43), recFill(ref.F32, []int{2, 2}, 44)
		xv, _ := ref.Binary("Sub", av, bv)
		yv, _ := ref.Unary("Relu", xv)
		zv, _ := ref.Binary("Add", yv, w1v)
		tv, _ := ref.Transpose(zv, []int64{1, 0}, true)
		uv, _ := ref.MatMul(tv, w2v)
		vals := []*ref.T{av, bv, w1v, w2v, xv, yv, zv, tv, uv}
		var snames []string
		for k := range schemes {
			snames = append(snames, k)
		}
		sort.Strings(snames)
		for _, sn := range snames {
			nm := schemes[sn]
			for rot := 0; rot < 4; rot++ {
				g := &onnx.GraphProto{Name: "g"}
				ins := []*onnx.ValueInfoProto{hx.ValueInfo(nm[0], ref.F32, hx.FixedDims([]int{2, 2})), hx.ValueInfo(nm[1], ref.F32, hx.FixedDims([]int{2, 2}))}
				inits := []*onnx.TensorProto{hx.TensorProto(nm[2], w1v, "raw"), hx.TensorProto(nm[3], w2v, "typed")}
				outs := []*onnx.ValueInfoProto{}
				for k := 4; k < 9; k++ {
					outs = append(outs, hx.ValueInfoNoShape(nm[k]))
				}
				if rot&1 == 1 {
					ins[0], ins[1] = ins[1], ins[0]
					inits[0], inits[1] = inits[1], inits[0]
				}
				if rot&2 == 2 {
					for i, j := 0, len(outs)-1; i < j; i, j = i+1, j-1 {
						outs[i], outs[j] = outs[j], outs[i]
					}
				}
				g.Input, g.Initializer, g.Output = ins, inits, outs
				g.Node = []*onnx.NodeProto{hx.Node("Sub", []string{nm[0], nm[1]}, []string{nm[4]}, nil), hx.Node("Relu", []string{nm[4]}, []string{nm[5]}, nil),
					hx.Node("Add", []string{nm[5], nm[2]}, []string{nm[6]}, nil), hx.Node("Transpose", []string{nm[6]}, []string{nm[7]}, []hx.Attr{hx.AInts("perm", 1, 0)}),
					hx.Node("MatMul", []string{nm[7], nm[3]}, []string{nm[8]}, nil)}
				exp := map[string]*ref.T{}
				for k := 4; k < 9; k++ {
					exp[nm[k]] = vals[k]
				}
				mc := newModelCase(hx.Marshal(hx.Model(g, 13)), map[string]*ref.T{nm[0]: av, nm[1]: bv}, "outputs", exp, hx.Tol(1e-5, 1e-5), "")
				mc.Graph = "Sub, Relu, Add, Transpose, MatMul with the value names of scheme " + sn
				id := fmt.Sprintf("naming/%s/list-order=%d", sn, rot)
				c.Case(hx.CaseInfo{ID: id, Tags: []string{"naming", "scheme=" + sn}, NonTrivial: true}, func() *hx.Violation { return mc.run() })
			}
		}
		// a long chain: 600 nodes alternating Relu / Add(w) / Sub(w) / Transpose, every 50th value a graph output
		g := &onnx.GraphProto{Name: "g", Input: []*onnx.ValueInfoProto{hx.ValueInfo("v0", ref.F32, hx.FixedDims([]int{2, 2}))}, Initializer: []*onnx.TensorProto{hx.TensorProto("w", w1v, "raw")}}
		cur := av
		exp := map[string]*ref.T{}
		for i := 1; i <= 600; i++ {
			in, out := fmt.Sprintf("v%d", i-1), fmt.Sprintf("v%d", i)
			switch i % 4 {
			case 0:
				g.Node = append(g.Node, hx.Node("Relu", []string{in}, []string{out}, nil))
				cur, _ = ref.Unary("Relu", cur)
			case 1:
				g.Node = append(g.Node, hx.Node("Add", []string{in, "w"}, []string{out}, nil))
				cur, _ = ref.Binary("Add", cur, w1v)
			case 2:
				g.Node = append(g.Node, hx.Node("Sub", []string{"w", in}, []string{out}, nil))
				cur, _ = ref.Binary("Sub", w1v, cur)
			default:
				g.Node = append(g.Node, hx.Node("Transpose", []string{in}, []string{out}, []hx.Attr{hx.AInts("perm", 1, 0)}))
				cur, _ = ref.Transpose(cur, []int64{1, 0}, true)
			}
			if i%50 == 0 {
				g.Output = append(g.Output, hx.ValueInfoNoShape(out))
				exp[out] = cur
			}
		}
		mc := newModelCase(hx.Marshal(hx.Model(g, 13)), map[string]*ref.T{"v0": av}, "outputs", exp, hx.Tol(1e-4, 1e-4), "")
		mc.Graph = "chain of 600 nodes"
		c.Case(hx.CaseInfo{ID: "naming/long-chain-600", Tags: []string{"naming", "long-chain"}, NonTrivial: true}, func() *hx.Violation { return mc.run() })
	}
	// twin nodes: two nodes of the same operator on the same inputs that differ in exactly one attribute, of every
	// attribute kind (int, float, ints, floats, string, strings, tensor) - "two nodes of the same operator type never
	// influence each other", and neither may be taken for a repetition of the other
	{
		x := recFill(ref.F32, []int{2, 3}, 51)
		x3 := recFill(ref.F32, []int{2, 1, 3}, 52)
		img := recFill(ref.F32, []int{1, 1, 4, 4}, 53)
		ker := recFill(ref.F32, []int{1, 1, 2, 2}, 54)
		rx, rw, rr := recFill(ref.F32, []int{2, 1, 2}, 55), recFill(ref.F32, []int{1, 6, 2}, 56), recFill(ref.F32, []int{1, 6, 2}, 57)
		sq := recFill(ref.F32, []int{3, 3}, 58)
		type twin struct {
			op     string
			ins    []*ref.T
			a, b   []hx.Attr
			nOut   int
			define string
		}
		twins := []twin{
			{"Transpose", []*ref.T{x3}, []hx.Attr{hx.AInts("perm", 2, 1, 0)}, []hx.Attr{hx.AInts("perm", 1, 0, 2)}, 1, "ints"},
			{"ReduceMax", []*ref.T{x}, []hx.Attr{hx.AInts("axes", 0), hx.AInt("keepdims", 1)}, []hx.Attr{hx.AInts("axes", 1), hx.AInt("keepdims", 1)}, 1, "ints"},
			{"ReduceMin", []*ref.T{x}, []hx.Attr{hx.AInts("axes", 1), hx.AInt("keepdims", 1)}, []hx.Attr{hx.AInts("axes", 1), hx.AInt("keepdims", 0)}, 1, "int"},
			{"Softmax", []*ref.T{x}, []hx.Attr{hx.AInt("axis", 0)}, []hx.Attr{hx.AInt("axis", 1)}, 1, "int"},
			{"ArgMax", []*ref.T{x}, []hx.Attr{hx.AInt("axis", 0), hx.AInt("keepdims", 1)}, []hx.Attr{hx.AInt("axis", 1), hx.AInt("keepdims", 1)}, 1, "int"},
			{"Gemm", []*ref.T{sq, sq}, []hx.Attr{hx.AFloat("alpha", 0.5)}, []hx.Attr{hx.AFloat("alpha", 2)}, 1, "float"},
			{"Gemm", []*ref.T{sq, sq}, []hx.Attr{hx.AInt("transA", 1)}, []hx.Attr{hx.AInt("transB", 1)}, 1, "name"},
			{"Flatten", []*ref.T{x3}, []hx.Attr{hx.AInt("axis", 1)}, []hx.Attr{hx.AInt("axis", 2)}, 1, "int"},
			{"Concat", []*ref.T{sq, sq}, []hx.Attr{hx.AInt("axis", 0)}, []hx.Attr{hx.AInt("axis", 1)}, 1, "int"},
			{"Cast", []*ref.T{x}, []hx.Attr{hx.AInt("to", 11)}, []hx.Attr{hx.AInt("to", 6)}, 1, "int"},
			{"Scaler", []*ref.T{x}, []hx.Attr{hx.AFloats("offset", 0.5, -1, 2), hx.AFloats("scale", 2, 0.5, -1)}, []hx.Attr{hx.AFloats("offset", 0.5, -1, 2), hx.AFloats("scale", 2, 0.5, 3)}, 1, "floats"},
			{"LinearRegressor", []*ref.T{x}, []hx.Attr{hx.AFloats("coefficients", 0.5, -1, 2), hx.AInt("targets", 1)}, []hx.Attr{hx.AFloats("coefficients", 0.5, 1, 2), hx.AInt("targets", 1)}, 1, "floats"},
			{"Conv", []*ref.T{img, ker}, []hx.Attr{hx.AInts("strides", 1, 2)}, []hx.Attr{hx.AInts("strides", 2, 1)}, 1, "ints"},
			{"Conv", []*ref.T{img, ker}, []hx.Attr{hx.AStr("auto_pad", "SAME_UPPER")}, []hx.Attr{hx.AStr("auto_pad", "SAME_LOWER")}, 1, "string"},
			{"GRU", []*ref.T{rx, rw, rr}, []hx.Attr{hx.AInt("hidden_size", 2), hx.AStrs("activations", "sigmoid", "tanh")}, []hx.Attr{hx.AInt("hidden_size", 2), hx.AStrs("activations", "tanh", "sigmoid")}, 2, "strings"},
			{"Constant", nil, []hx.Attr{hx.ATensor("value", recFill(ref.F32, []int{2}, 61), "raw")}, []hx.Attr{hx.ATensor("value", recFill(ref.F32, []int{2}, 62), "raw")}, 1, "tensor"},
			{"Constant", nil, []hx.Attr{hx.AFloats("value_floats", 1, 2)}, []hx.Attr{hx.AFloats("value_floats", 1, 3)}, 1, "floats"},
			{"ConstantOfShape", []*ref.T{ref.I64Vec(2)}, []hx.Attr{hx.ATensor("value", ref.FromF(ref.F32, []int{1}, 1.5), "raw")}, []hx.Attr{hx.ATensor("value", ref.FromF(ref.F32, []int{1}, 2.5), "raw")}, 1, "tensor"},
		}
		// one node spells an attribute out, its twin leaves it to the default (and the other way round)
		gidx := ref.I64Vec(1, 0)
		twins = append(twins,
			twin{"Gather", []*ref.T{x, gidx}, []hx.Attr{hx.AInt("axis", 1)}, nil, 1, "default"},
			twin{"Softmax", []*ref.T{x}, []hx.Attr{hx.AInt("axis", 0)}, nil, 1, "default"},
			twin{"LogSoftmax", []*ref.T{x}, []hx.Attr{hx.AInt("axis", 0)}, nil, 1, "default"},
			twin{"Flatten", []*ref.T{x3}, []hx.Attr{hx.AInt("axis", 2)}, nil, 1, "default"},
			twin{"ArgMax", []*ref.T{x}, []hx.Attr{hx.AInt("axis", 1), hx.AInt("keepdims", 0)}, nil, 1, "default"},
			twin{"ReduceMax", []*ref.T{x}, []hx.Attr{hx.AInts("axes", 1), hx.AInt("keepdims", 0)}, nil, 1, "default"},
			twin{"ReduceMin", []*ref.T{x}, []hx.Attr{hx.AInts("axes", 0), hx.AInt("keepdims", 0)}, []hx.Attr{hx.AInts("axes", 0)}, 1, "default"},
			twin{"Gemm", []*ref.T{sq, sq}, []hx.Attr{hx.AFloat("alpha", 0.5), hx.AFloat("beta", 2), hx.AInt("transA", 1), hx.AInt("transB", 1)}, nil, 1, "default"},
			twin{"Conv", []*ref.T{img, ker}, []hx.Attr{hx.AInts("strides", 2, 2), hx.AInts("pads", 1, 0, 0, 1), hx.AInts("dilations", 2, 1)}, nil, 1, "default"},
			twin{"ConstantOfShape", []*ref.T{ref.I64Vec(2)}, []hx.Attr{hx.ATensor("value", ref.FromF(ref.F32, []int{1}, 1.5), "raw")}, nil, 1, "default"},
			twin{"GRU", []*ref.T{rx, rw, rr}, []hx.Attr{hx.AInt("hidden_size", 2), hx.AStrs("activations", "tanh", "sigmoid")}, []hx.Attr{hx.AInt("hidden_size", 2)}, 2, "default"},
			twin{"Scaler", []*ref.T{x}, []hx.Attr{hx.AFloats("offset", 0.5, -1, 2), hx.AFloats("scale", 2, 0.5, -1)}, []hx.Attr{hx.AFloats("offset", 0.5, -1, 2), hx.AFloats("scale", 1)}, 1, "floats"},
			twin{"Cast", []*ref.T{x}, []hx.Attr{hx.AInt("to", 7)}, []hx.Attr{hx.AInt("to", 1)}, 1, "int"},
		)
		for ti, tw := range twins {
			for _, order := range []string{"ab", "ba", "aba"} {
				g := &onnx.GraphProto{Name: "g"}
				feed := map[string]*ref.T{}
				var inNames []string
				for i, t := range tw.ins {
					nm := fmt.Sprintf("in%d", i)
					inNames = append(inNames, nm)
					if t.DT == ref.I64 || i > 0 {
						g.Initializer = append(g.Initializer, hx.TensorProto(nm, t, "raw"))
					} else {
						g.Input = append(g.Input, hx.ValueInfo(nm, t.DT, hx.FixedDims(t.Shape)))
						feed[nm] = t
					}
				}
				exp := map[string]*ref.T{}
				for k, which := range order {
					attrs := tw.a
					if which == 'b' {
						attrs = tw.b
					}
					outs, err := refEval(tw.op, attrs, tw.ins)
					if err != nil {
						hx.HarnessError("twin %s: reference: %v", tw.op, err)
					}
					var onames []string
					for j := 0; j < tw.nOut; j++ {
						nm := fmt.Sprintf("n%d_o%d", k, j)
						onames = append(onames, nm)
						g.Output = append(g.Output, hx.ValueInfoNoShape(nm))
						exp[nm] = outs[j]
					}
					g.Node = append(g.Node, hx.Node(tw.op, inNames, onames, attrs))
				}
				mc := newModelCase(hx.Marshal(hx.Model(g, 13)), feed, "outputs", exp, hx.Tol(1e-4, 1e-4), "")
				mc.Graph = fmt.Sprintf("twin %s nodes differing in one %s attribute, order %s", tw.op, tw.define, order)
				id := fmt.Sprintf("twin-nodes/%d:%s/%s/%s", ti, tw.op, tw.define, order)
				c.Case(hx.CaseInfo{ID: id, Tags: []string{"twin-nodes", "op=" + tw.op, "attr-kind=" + tw.define}, NonTrivial: true}, func() *hx.Violation { return mc.run() })
			}
		}
	}
	// nodes whose operator fails while computing (integer division by zero, inner dimensions that do not match, a
	// reshape target that does not fit): Run reports an error, or - where the outcome is undefined - returns every
	// declared output non-nil; never "success" with a nil tensor
	{
		type fk struct {
			name  string
			nodes []*onnx.NodeProto
			ins   map[string]*ref.T
			inits []*onnx.TensorProto
			outs  []string
			must  bool // must fail (else: error or all outputs non-nil)
		}
		i32 := func(v ...int64) *ref.T {
			t := ref.New(ref.I32, len(v))
			for i, x := range v {
				t.V[i] = ref.EncI(ref.I32, x)
			}
			return t
		}
		cases := []fk{
			{"int-div-by-zero", []*onnx.NodeProto{hx.Node("Div", []string{"p", "q"}, []string{"y"}, nil), hx.Node("Relu", []string{"f"}, []string{"z"}, nil)}, map[string]*ref.T{"p": i32(7, 0, -3), "q": i32(0, 0, 0), "f": recFill(ref.F32, []int{2}, 3)}, nil, []string{"y", "z"}, false},
			{"matmul-inner-mismatch", []*onnx.NodeProto{hx.Node("Relu", []string{"f"}, []string{"z"}, nil), hx.Node("MatMul", []string{"m", "w"}, []string{"y"}, nil)}, map[string]*ref.T{"m": recFill(ref.F32, []int{2, 3}, 1), "f": recFill(ref.F32, []int{2}, 3)}, []*onnx.TensorProto{hx.TensorProto("w", recFill(ref.F32, []int{2, 2}, 2), "raw")}, []string{"z", "y"}, true},
			{"reshape-does-not-fit", []*onnx.NodeProto{hx.Node("Reshape", []string{"m", "s"}, []string{"y"}, nil)}, map[string]*ref.T{"m": recFill(ref.F32, []int{2, 3}, 1)}, []*onnx.TensorProto{hx.TensorProto("s", ref.I64Vec(4, 2), "raw")}, []string{"y"}, true},
			{"add-not-broadcastable", []*onnx.NodeProto{hx.Node("Add", []string{"m", "w"}, []string{"y"}, nil), hx.Node("Relu", []string{"y"}, []string{"z"}, nil)}, map[string]*ref.T{"m": recFill(ref.F32, []int{2, 3}, 1)}, []*onnx.TensorProto{hx.TensorProto("w", recFill(ref.F32, []int{2, 2}, 2), "raw")}, []string{"y", "z"}, true},
		}
		for _, k := range cases {
			k := k
			g := &onnx.GraphProto{Name: "g", Node: k.nodes, Initializer: k.inits}
			var inNames []string
			for n := range k.ins {
				inNames = append(inNames, n)
			}
			sort.Strings(inNames)
			for _, n := range inNames {
				g.Input = append(g.Input, hx.ValueInfo(n, k.ins[n].DT, hx.SymbolicDims(len(k.ins[n].Shape), n+"_d")))
			}
			for _, o := range k.outs {
				g.Output = append(g.Output, hx.ValueInfoNoShape(o))
			}
			mb := hx.Marshal(hx.Model(g, 13))
			c.Case(hx.CaseInfo{ID: "failing-kernel/" + k.name, Tags: []string{"failing-kernel"}, NonTrivial: true}, func() *hx.Violation {
				mc := newModelCase(mb, k.ins, "error", nil, hx.Bits, "failing kernel: "+k.name)
				res := hx.RunModelBytes(mb, k.ins, k.outs)
				mk := func(kind, d string) *hx.Violation { return &hx.Violation{Kind: kind, Detail: d, Replay: mc} }
				switch {
				case res.Panic != "":
					return mk("panic", res.Panic)
				case res.Err != nil && res.ReadErr != "":
					return mk("outputs-with-error", res.ReadErr)
				case res.Err != nil:
					return hx.OK("refused/error")
				case k.must:
					return mk("not-refused", "a node whose operator cannot compute this request did not make Run fail")
				case res.ReadErr != "":
					return mk("nil-output", res.ReadErr)
				}
				for i, o := range res.Outs {
					if o == nil {
						return mk("nil-output", fmt.Sprintf("Run reported success but declared output %q is nil", k.outs[i]))
					}
				}
				return hx.OK("undefined-but-present")
			})
		}
	}
	// scalar (rank-0) graph inputs: declared with an empty shape or without shape, with / without an initializer
	// default, supplied or left to the default, also declared as graph output
	{
		x := recFill(ref.F32, []int{2, 2}, 31)
		k3, k2 := ref.FromF(ref.F32, []int{}, 3), ref.FromF(ref.F32, []int{}, 2)
		for _, decl := range []string{"rank0", "typeonly"} {
			for _, def := range []bool{false, true} {
				for _, supply := range []bool{false, true} {
					for _, pass := range []bool{false, true} {
						if !def && !supply {
							continue
						}
						g := &onnx.GraphProto{Name: "g"}
						g.Input = append(g.Input, hx.ValueInfo("x", ref.F32, hx.FixedDims(x.Shape)))
						if decl == "rank0" {
							g.Input = append(g.Input, hx.ValueInfo("k", ref.F32, []hx.DimSpec{}))
						} else {
							g.Input = append(g.Input, hx.ValueInfoTypeOnly("k", ref.F32))
						}
						kv := k3
						feed := map[string]*ref.T{"x": x}
						if def {
							g.Initializer = append(g.Initializer, hx.TensorProto("k", k2, "raw"))
							kv = k2
						}
						if supply {
							feed["k"] = k3
							kv = k3
						}
						g.Node = append(g.Node, hx.Node("Mul", []string{"x", "k"}, []string{"y"}, nil))
						g.Output = append(g.Output, hx.ValueInfoNoShape("y"))
						y, _ := ref.Binary("Mul", x, kv)
						exp := map[string]*ref.T{"y": y}
						if pass {
							g.Output = append(g.Output, hx.ValueInfoNoShape("k"))
							exp["k"] = kv
						}
						mc := newModelCase(hx.Marshal(hx.Model(g, 13)), feed, "outputs", exp, hx.Bits, "")
						id := fmt.Sprintf("scalar-input/decl=%s default=%v supplied=%v passthrough=%v", decl, def, supply, pass)
						mc.Graph = "y = Mul(x, k) with k a rank-0 graph input"
						c.Case(hx.CaseInfo{ID: id, Tags: []string{"scalar-input", "decl=" + decl, fmt.Sprintf("default=%v", def), fmt.Sprintf("supplied=%v", supply)}, NonTrivial: true}, func() *hx.Violation { return mc.run() })
					}
				}
			}
		}
	}
	if thorough {
		// depth 3 over the FULL alphabet, streamed per depth-2 prefix (simplest first) under a wall-clock budget
		c.SetBudget(25 * time.Minute)
		var d3states, d3trans int64
		var mu sync.Mutex
		c.ParallelFor(len(level2), func(i int) {
			succ := successors(level2[i], false, "")
			mu.Lock()
			d3trans += int64(len(succ))
			d3states += int64(len(succ))
			mu.Unlock()
			for k, r := range succ {
				runItem(i*1000+k, item{r, (i + k) % 2, progVariant{}})
			}
		})
		c.Extra["programs_depth3_full_alphabet"] = d3states
		c.AddStates(d3states)
		c.AddTransitions(d3trans)
		c.AddTraces(d3states)
	}
}

func pick(outs []string) string {
	for _, o := range outs {
		if o != "" {
			return o
		}
	}
	return ""
}
