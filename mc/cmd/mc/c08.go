package main

import (
	"fmt"
	"math"

	"verifmc/hx"
	"verifmc/ref"
)

// C08 — Transpose, Concat, Slice, Gather, Expand.

func init() { register("C08", "exploration", checkC08) }

func perms(n int) [][]int64 {
	var out [][]int64
	cur := make([]int64, 0, n)
	used := make([]bool, n)
	var rec func()
	rec = func() {
		if len(cur) == n {
			out = append(out, append([]int64{}, cur...))
			return
		}
		for i := 0; i < n; i++ {
			if !used[i] {
				used[i] = true
				cur = append(cur, int64(i))
				rec()
				cur = cur[:len(cur)-1]
				used[i] = false
			}
		}
	}
	rec()
	return out
}

func i32Vec(v ...int64) *ref.T {
	t := ref.New(ref.I32, len(v))
	for i, x := range v {
		t.V[i] = ref.EncI(ref.I32, x)
	}
	return t
}

func checkC08(c *hx.Checker) {
	thorough := c.Tier == "thorough"
	maxRank := 3
	if thorough {
		maxRank = 4
	}
	c.Rule = fmt.Sprintf("data shapes: Box(rank 1..%d, extents {1,2,3}), distinct float32 fill. Transpose: all permutations + repeated/out-of-range/short perms + perm absent; "+
		"Concat: 1..3 inputs x every axis in [-r-1,r] x independent axis extents {1,2,3}^n + off-axis/rank mismatches; "+
		"Slice: per axis all (start,end) in ([-dim-2,dim+2] U {INT_MIN,INT_MAX})^2 x step in {1,2,3,-1,-2,0}, axes given/negative/defaulted, steps given/defaulted, int64 and int32 operands, 2-axis slices on a reduced alphabet; "+
		"Gather: every axis in [-r-1,r] x index tensors of shapes (),(1),(2),(3),(1,1),(1,2),(2,1),(2,2) over ALL in-range value assignments (negative included, capped at 1300 per shape by a covering rotation) + one out-of-range, int32/int64; "+
		"Expand: every (input, target) pair of Box(0..3)xBox(1..%d) incl. shorter / incompatible targets; all 14 element types on the rank<=2 sub-box; Model.Run route on the sub-box; instance-reuse histories. "+
		"non-trivial = result differs from the input tensor or request must be refused", maxRank, maxRank)
	c.Assumptions = []string{"reference: ONNX index formulas as nested index arithmetic (ref/moveops.go); Slice follows the numpy clamping rule of the ONNX operator text",
		"D_compute (must be computed): Transpose with a perm, Concat, Gather in range, Expand with target rank >= input rank, Slice with step>=1 and 0<=start<dim and non-empty result; every other *valid* ONNX request may instead be refused with an error but never answered with other data/shape; invalid requests must be refused",
		"repeated Slice axes are undefined in ONNX and excluded; zero-extent results cannot be represented by gorgonia and must therefore be refused"}
	var jobs []opJob
	add := func(op string, attrs []hx.Attr, ins []*ref.T, exp *ref.T, err error, core bool, route string, init []bool, desc string, extra ...string) {
		dom := hx.DCompute
		var exps []*ref.T
		switch {
		case err != nil:
			dom = hx.DError
		case ref.NElem(exp.Shape) == 0:
			dom = hx.DError // zero-extent result: not representable -> must be refused
			extra = append(extra, "empty-result")
		case !core:
			dom = hx.DRefuse
			exps = []*ref.T{exp}
		default:
			exps = []*ref.T{exp}
		}
		oc := &hx.OpCase{Op: op, Attrs: attrs, Inputs: hx.ToTJs(ins), NOut: 1, Route: route, Init: init}
		tags := append([]string{"op=" + op, "dtype=" + ins[0].DT.String(), "route=" + route, "domain=" + string(dom), fmt.Sprintf("rank=%d", len(ins[0].Shape))}, extra...)
		id := fmt.Sprintf("%s/%s/%s%v/%v/%s", op, ins[0].DT, route, init, ins[0].Shape, desc)
		jobs = append(jobs, opJob{id: id, tags: tags, nt: true, oc: oc, dom: dom, exp: exps, cmp: hx.Bits})
	}
	box := ref.Box(1, maxRank, []int{1, 2, 3})
	sub := ref.Box(1, 2, []int{1, 2})
	type variant struct {
		dt     ref.DT
		shapes [][]int
		route  string
		full   bool
	}
	vars := []variant{{ref.F32, box, "op", true}}
	for _, dt := range ref.AllDT {
		if dt != ref.F32 {
			vars = append(vars, variant{dt, sub, "op", false})
		}
		if dt.IsNumeric() || dt == ref.Bool {
			vars = append(vars, variant{dt, sub, "model", false})
		}
	}
	for _, v := range vars {
		for _, sh := range v.shapes {
			r := len(sh)
			data := ref.Distinct(v.dt, sh)
			// ---- Transpose
			for _, p := range perms(r) {
				exp, err := ref.Transpose(data, p, true)
				add("Transpose", []hx.Attr{hx.AInts("perm", p...)}, []*ref.T{data}, exp, err, true, v.route, nil, fmt.Sprint(p))
			}
			if v.full {
				bad := [][]int64{}
				if r >= 2 {
					p := perms(r)[0]
					q := append([]int64{}, p...)
					q[1] = q[0]
					bad = append(bad, q)
					q2 := append([]int64{}, p...)
					q2[r-1] = int64(r)
					bad = append(bad, q2, p[:r-1], append(append([]int64{}, p...), int64(r)))
				}
				for _, p := range bad {
					exp, err := ref.Transpose(data, p, true)
					add("Transpose", []hx.Attr{hx.AInts("perm", p...)}, []*ref.T{data}, exp, err, true, v.route, nil, "bad"+fmt.Sprint(p))
				}
				// numpy-style negative entries (p[i]-rank): not part of ONNX; either refused or taken for the entry they
				// denote - never another arrangement
				if r <= 3 {
					for _, p0 := range perms(r) {
						for mask := 1; mask < 1<<r; mask++ {
							pn := append([]int64{}, p0...)
							for i := range pn {
								if mask&(1<<i) != 0 {
									pn[i] -= int64(r)
								}
							}
							exp, err := ref.Transpose(data, p0, true)
							add("Transpose", []hx.Attr{hx.AInts("perm", pn...)}, []*ref.T{data}, exp, err, false, v.route, nil, "negative-entries"+fmt.Sprint(pn), "negative-perm-entries")
						}
					}
				}
				exp, err := ref.Transpose(data, nil, false)
				add("Transpose", nil, []*ref.T{data}, exp, err, false, v.route, nil, "perm-absent")
			}
			// ---- Concat
			for ax := -r - 1; ax <= r; ax++ {
				axn := ax
				if axn < 0 {
					axn += r
				}
				maxN := 3
				if !v.full {
					maxN = 2
				}
				for n := 1; n <= maxN; n++ {
					for _, ext := range seqs([]int64{1, 2, 3}, n, n) {
						if !v.full && (ext[0] == 3 || ext[n-1] == 3) {
							continue
						}
						var ins []*ref.T
						for k, e := range ext {
							s := append([]int{}, sh...)
							if axn >= 0 && axn < r {
								s[axn] = int(e)
							}
							t := ref.Distinct(v.dt, s)
							for i := range t.V { // make inputs distinguishable
								if v.dt.IsNumeric() {
									t.V[i] = ref.Fill(v.dt, []int{1}, func(int) float64 { return float64(100*k + i + 1) }).V[0]
								}
							}
							ins = append(ins, t)
						}
						exp, err := ref.Concat(ins, ax)
						add("Concat", []hx.Attr{hx.AInt("axis", int64(ax))}, ins, exp, err, true, v.route, nil, fmt.Sprintf("axis=%d ext=%v", ax, ext))
						if axn < 0 || axn >= r {
							break
						}
					}
				}
				if v.full && r >= 2 && axn >= 0 && axn < r {
					// off-axis mismatch and rank mismatch
					other := (axn + 1) % r
					s2 := append([]int{}, sh...)
					s2[other]++
					ins := []*ref.T{data, ref.Distinct(v.dt, s2)}
					exp, err := ref.Concat(ins, ax)
					add("Concat", []hx.Attr{hx.AInt("axis", int64(ax))}, ins, exp, err, true, v.route, nil, fmt.Sprintf("axis=%d off-axis-mismatch", ax))
					ins = []*ref.T{data, ref.Distinct(v.dt, sh[1:])}
					exp, err = ref.Concat(ins, ax)
					add("Concat", []hx.Attr{hx.AInt("axis", int64(ax))}, ins, exp, err, true, v.route, nil, fmt.Sprintf("axis=%d rank-mismatch", ax))
				}
			}
			// ---- Slice
			for ax := 0; ax < r; ax++ {
				dim := sh[ax]
				vals := rangeI64(-dim-2, dim+2)
				vals = append(vals, math.MinInt64, math.MaxInt64)
				stepsA := []int64{1, 2, 3, -1, -2, 0}
				if !v.full {
					vals = []int64{int64(-dim - 1), -1, 0, 1, int64(dim), int64(dim) + 1}
					stepsA = []int64{1, 2, -1}
				}
				for _, st := range vals {
					for _, en := range vals {
						for _, sp := range stepsA {
							spec := ref.SliceSpec{Start: st, End: en, Step: sp, Axis: int64(ax)}
							exp, err := ref.Slice(data, []ref.SliceSpec{spec})
							core := sp >= 1 && st >= 0 && st < int64(dim) && en >= 0
							extra := []string{}
							if err == nil && sp > 1 && st >= 0 && st < int64(dim) && en >= 0 {
								ce := en
								if ce > int64(dim) {
									ce = int64(dim)
								}
								if ce > st && (ce-st)%sp != 0 {
									extra = append(extra, "step-truncated")
								}
							}
							if err == nil {
								if exp.Shape[ax] == 1 {
									extra = append(extra, "sliced-extent=1")
								}
								if sp < 0 {
									extra = append(extra, "step<0")
								}
								if st < 0 {
									extra = append(extra, "start<0")
								}
								if st >= int64(dim) {
									extra = append(extra, "start>=dim")
								}
								if en < 0 {
									extra = append(extra, "end<0")
								}
								if en > int64(dim) {
									extra = append(extra, "end>dim")
								}
							} else {
								extra = append(extra, "step=0")
							}
							if err == nil && exp.Shape[ax] == 0 && st >= 0 && st < int64(dim) && en >= 0 {
								// the empty selections the pinned tree answers (KF-C08-3): start inside the axis, end not
								// negative; every other empty selection (start beyond the axis, negative bounds) is refused today
								extra = append(extra, "empty-with-start-inside-axis")
							}
							desc := fmt.Sprintf("ax=%d %d:%d:%d", ax, st, en, sp)
							// axes given (positive)
							add("Slice", nil, []*ref.T{data, ref.I64Vec(st), ref.I64Vec(en), ref.I64Vec(int64(ax)), ref.I64Vec(sp)}, exp, err, core, v.route, nil, desc, extra...)
							if !v.full {
								continue
							}
							// negative axis spelling
							add("Slice", nil, []*ref.T{data, ref.I64Vec(st), ref.I64Vec(en), ref.I64Vec(int64(ax - r)), ref.I64Vec(sp)}, exp, err, core, v.route, nil, desc+" negaxis", extra...)
							if ax == 0 {
								// axes defaulted
								add("Slice", nil, []*ref.T{data, ref.I64Vec(st), ref.I64Vec(en), nil, ref.I64Vec(sp)}, exp, err, core, v.route, nil, desc+" axes-default", extra...)
							}
							if sp == 1 {
								add("Slice", nil, []*ref.T{data, ref.I64Vec(st), ref.I64Vec(en), ref.I64Vec(int64(ax)), nil}, exp, err, core, v.route, nil, desc+" steps-default", extra...)
							}
							if st >= math.MinInt32 && st <= math.MaxInt32 && en >= math.MinInt32 && en <= math.MaxInt32 {
								add("Slice", nil, []*ref.T{data, i32Vec(st), i32Vec(en), i32Vec(int64(ax)), i32Vec(sp)}, exp, err, core, v.route, nil, desc+" int32", extra...)
							}
						}
					}
				}
				// out-of-range axis
				if v.full {
					for _, bad := range []int64{int64(r), int64(-r - 1)} {
						spec := ref.SliceSpec{Start: 0, End: 1, Step: 1, Axis: bad}
						exp, err := ref.Slice(data, []ref.SliceSpec{spec})
						add("Slice", nil, []*ref.T{data, ref.I64Vec(0), ref.I64Vec(1), ref.I64Vec(bad), ref.I64Vec(1)}, exp, err, true, v.route, nil, fmt.Sprintf("axis=%d out-of-range", bad), "axis-out-of-range")
					}
				}
			}
			if v.full && r >= 2 {
				// two-axis slices on a reduced alphabet
				for a1 := 0; a1 < r; a1++ {
					for a2 := 0; a2 < r; a2++ {
						if a1 == a2 {
							continue
						}
						for _, s1 := range [][3]int64{{0, 1, 1}, {1, 3, 1}, {0, 3, 2}, {-1, 5, 1}} {
							for _, s2 := range [][3]int64{{0, 1, 1}, {1, 3, 1}, {0, 3, 2}, {0, -1, 1}} {
								specs := []ref.SliceSpec{{Start: s1[0], End: s1[1], Step: s1[2], Axis: int64(a1)}, {Start: s2[0], End: s2[1], Step: s2[2], Axis: int64(a2)}}
								exp, err := ref.Slice(data, specs)
								core := s1[0] >= 0 && s1[0] < int64(sh[a1]) && s2[0] >= 0 && s2[0] < int64(sh[a2]) && s1[1] >= 0 && s2[1] >= 0
								extra := []string{"two-axis"}
								for k, sx := range [][3]int64{s1, s2} {
									d := int64(sh[[]int{a1, a2}[k]])
									ce := sx[1]
									if ce > d {
										ce = d
									}
									if sx[2] > 1 && sx[0] >= 0 && ce > sx[0] && (ce-sx[0])%sx[2] != 0 {
										extra = append(extra, "step-truncated")
										break
									}
								}
								if err == nil && (exp.Shape[a1] == 1 || exp.Shape[a2] == 1) {
									extra = append(extra, "sliced-extent=1")
								}
								add("Slice", nil, []*ref.T{data, ref.I64Vec(s1[0], s2[0]), ref.I64Vec(s1[1], s2[1]), ref.I64Vec(int64(a1), int64(a2)), ref.I64Vec(s1[2], s2[2])}, exp, err, core, v.route, nil,
									fmt.Sprintf("ax=%d,%d %v %v", a1, a2, s1, s2), extra...)
							}
						}
					}
				}
			}
			// ---- Gather
			idxShapes := [][]int{{}, {1}, {2}, {3}, {1, 1}, {1, 2}, {2, 1}, {2, 2}}
			if !v.full {
				idxShapes = [][]int{{}, {2}, {1, 2}}
			}
			for ax := -r - 1; ax <= r; ax++ {
				axn := ax
				if axn < 0 {
					axn += r
				}
				dim := 1
				if axn >= 0 && axn < r {
					dim = sh[axn]
				}
				for _, is := range idxShapes {
					n := ref.NElem(is)
					alpha := rangeI64(-dim, dim-1)
					total := 1
					for k := 0; k < n; k++ {
						total *= len(alpha)
						if total > 1300 {
							break
						}
					}
					var assigns [][]int64
					if total <= 1300 {
						assigns = seqs(alpha, n, n)
					} else {
						for rot := 0; rot < len(alpha)*len(alpha); rot++ { // covering rotation: every (position pair) value pair appears
							a := make([]int64, n)
							for k := range a {
								a[k] = alpha[(rot/(1+k%2*(len(alpha)-1))+k*rot)%len(alpha)]
							}
							assigns = append(assigns, a)
						}
					}
					if !v.full && len(assigns) > 8 {
						assigns = assigns[:8]
					}
					for ai, a := range assigns {
						idx := &ref.T{DT: ref.I64, Shape: is, V: make([]uint64, n)}
						for k, x := range a {
							idx.V[k] = uint64(x)
						}
						exp, err := ref.Gather(data, idx, ax)
						extra := []string{}
						if len(is) == 0 {
							extra = append(extra, "scalar-index")
						}
						add("Gather", []hx.Attr{hx.AInt("axis", int64(ax))}, []*ref.T{data, idx}, exp, err, true, v.route, nil, fmt.Sprintf("axis=%d idx%v=%v", ax, is, a), extra...)
						if v.full && ai%7 == 0 {
							idx32 := &ref.T{DT: ref.I32, Shape: is, V: make([]uint64, n)}
							for k, x := range a {
								idx32.V[k] = ref.EncI(ref.I32, x)
							}
							add("Gather", []hx.Attr{hx.AInt("axis", int64(ax))}, []*ref.T{data, idx32}, exp, err, true, v.route, nil, fmt.Sprintf("axis=%d idx32%v=%v", ax, is, a), extra...)
						}
						if axn < 0 || axn >= r {
							break
						}
					}
					if n >= 1 && axn >= 0 && axn < r {
						for _, badv := range []int64{int64(dim), int64(-dim - 1)} {
							idx := &ref.T{DT: ref.I64, Shape: is, V: make([]uint64, n)}
							idx.V[n-1] = uint64(badv)
							exp, err := ref.Gather(data, idx, ax)
							add("Gather", []hx.Attr{hx.AInt("axis", int64(ax))}, []*ref.T{data, idx}, exp, err, true, v.route, nil, fmt.Sprintf("axis=%d idx%v oob=%d", ax, is, badv))
						}
					}
				}
				if v.full && ax == 0 {
					exp, err := ref.Gather(data, ref.I64Vec(0), 0)
					add("Gather", nil, []*ref.T{data, ref.I64Vec(0)}, exp, err, true, v.route, nil, "axis-absent")
				}
			}
		}
		// ---- Expand (input shapes include rank 0)
		inShapes := ref.Box(0, 3, []int{1, 2, 3})
		tgShapes := ref.Box(1, maxRank, []int{1, 2, 3})
		if !v.full {
			inShapes = ref.Box(0, 2, []int{1, 2})
			tgShapes = ref.Box(1, 2, []int{1, 2})
		}
		for _, is := range inShapes {
			data := ref.Distinct(v.dt, is)
			for _, ts := range tgShapes {
				tg := make([]int64, len(ts))
				for i, e := range ts {
					tg[i] = int64(e)
				}
				exp, err := ref.Expand(data, tg)
				core := len(ts) >= len(is)
				extra := []string{}
				if len(ts) < len(is) {
					extra = append(extra, "target-shorter")
				}
				if err == nil && !ref.ShapeEq(exp.Shape, ts) {
					extra = append(extra, "two-way")
				}
				add("Expand", nil, []*ref.T{data, ref.I64Vec(tg...)}, exp, err, core, v.route, nil, fmt.Sprintf("->%v", ts), extra...)
			}
		}
	}
	// larger shapes beyond the exhaustive box
	// Concat of two inputs: ALL ordered pairs of shapes of Box(rank 1..3, extents {1,2,3}) x every axis (valid exactly
	// when ranks agree and every off-axis extent agrees; e.g. (2,2,3) with (1,3,2) has matching element counts per
	// outermost slice and must still be refused)
	{
		cb := ref.Box(1, 3, []int{1, 2, 3})
		for _, sa := range cb {
			for _, sb := range cb {
				a, b := ref.Distinct(ref.F32, sa), ref.Fill(ref.F32, sb, func(i int) float64 { return float64(100 + i) })
				for ax := -len(sa); ax < len(sa); ax++ {
					exp, err := ref.Concat([]*ref.T{a, b}, ax)
					add("Concat", []hx.Attr{hx.AInt("axis", int64(ax))}, []*ref.T{a, b}, exp, err, true, "op", nil, fmt.Sprintf("pair %v axis=%d", sb, ax), "all-shape-pairs")
				}
			}
		}
	}
	// extreme integers as axis / perm / index / step values
	for _, sh := range [][]int{{2, 3}, {3}, {1, 2, 2}} {
		data := ref.Distinct(ref.F32, sh)
		r := len(sh)
		bad := ref.Invalid("extreme integer")
		for _, e := range extremeInts {
			for _, rt := range []string{"op", "model"} {
				p := make([]int64, r)
				for k := range p {
					p[k] = int64(k)
				}
				p[r-1] = e
				add("Transpose", []hx.Attr{hx.AInts("perm", p...)}, []*ref.T{data}, nil, bad, true, rt, nil, "perm"+fmt.Sprint(p), "extreme-int")
				add("Concat", []hx.Attr{hx.AInt("axis", e)}, []*ref.T{data, data}, nil, bad, true, rt, nil, fmt.Sprintf("axis=%d", e), "extreme-int")
				add("Gather", []hx.Attr{hx.AInt("axis", e)}, []*ref.T{data, ref.I64Vec(0)}, nil, bad, true, rt, nil, fmt.Sprintf("axis=%d", e), "extreme-int")
				add("Gather", []hx.Attr{hx.AInt("axis", 0)}, []*ref.T{data, ref.I64Vec(0, e)}, nil, bad, true, rt, nil, fmt.Sprintf("index=%d", e), "extreme-int")
				add("Slice", nil, []*ref.T{data, ref.I64Vec(0), ref.I64Vec(1), ref.I64Vec(e), ref.I64Vec(1)}, nil, bad, true, rt, nil, fmt.Sprintf("axes=[%d]", e), "extreme-int", "axis-out-of-range")
				tg := make([]int64, r)
				for k := range tg {
					tg[k] = int64(sh[k])
				}
				tg[0] = e
				if e < 0 || sh[0] != 1 {
					// (a huge positive size on an extent-1 axis is a valid request that merely cannot be allocated: excluded)
					add("Expand", nil, []*ref.T{data, ref.I64Vec(tg...)}, nil, bad, true, rt, nil, "->"+fmt.Sprint(tg), "extreme-int")
				}
				for _, se := range [][2]int64{{0, int64(sh[0])}, {int64(sh[0]) - 1, -int64(sh[0]) - 1}, {0, 1}, {1, math.MaxInt64}} {
					spec := ref.SliceSpec{Start: se[0], End: se[1], Step: e, Axis: 0}
					exp, err := ref.Slice(data, []ref.SliceSpec{spec})
					extra := []string{"extreme-int", "extreme-step"}
					if err == nil && exp.Shape[0] == 1 {
						extra = append(extra, "sliced-extent=1")
					}
					if e < 0 {
						extra = append(extra, "step<0")
					}
					if err == nil && exp.Shape[0] == 0 && se[0] >= 0 && se[0] < int64(sh[0]) && se[1] >= 0 {
						extra = append(extra, "empty-with-start-inside-axis")
					}
					add("Slice", nil, []*ref.T{data, ref.I64Vec(se[0]), ref.I64Vec(se[1]), ref.I64Vec(0), ref.I64Vec(e)}, exp, err, e >= 1 && err == nil && ref.NElem(exp.Shape) > 0, rt, nil, fmt.Sprintf("%d:%d:%d", se[0], se[1], e), extra...)
				}
			}
		}
	}
	for _, sh := range [][]int{{4, 5, 6}, {7, 2, 9}, {2, 3, 4, 5}, {33, 4}, {3, 1367}, {67, 5, 13}, {257, 129}, {4099}, {65, 1009}, {70001}, {3, 5, 17, 19}, {2, 2, 33, 65}} {
		data := ref.Distinct(ref.F32, sh)
		r := len(sh)
		for _, p := range perms(r) {
			{
				exp, err := ref.Transpose(data, p, true)
				add("Transpose", []hx.Attr{hx.AInts("perm", p...)}, []*ref.T{data}, exp, err, true, "op", nil, "large"+fmt.Sprint(p), "large")
			}
		}
		for ax := -r; ax < r; ax++ {
			other := ref.Distinct(ref.F32, sh)
			exp, err := ref.Concat([]*ref.T{data, other, data}, ax)
			add("Concat", []hx.Attr{hx.AInt("axis", int64(ax))}, []*ref.T{data, other, data}, exp, err, true, "op", nil, fmt.Sprintf("large axis=%d", ax), "large")
			dim := int64(sh[(ax+r)%r])
			idx := ref.I64Vec(dim-1, 0, -dim, dim/2, -1)
			expg, errg := ref.Gather(data, idx, ax)
			add("Gather", []hx.Attr{hx.AInt("axis", int64(ax))}, []*ref.T{data, idx}, expg, errg, true, "op", nil, fmt.Sprintf("large axis=%d", ax), "large")
			for _, se := range [][3]int64{{0, dim, 1}, {1, dim - 1, 1}, {2, dim, 1}, {0, dim, 2}, {1, dim, 3}, {0, dim + 5, 1}} {
				spec := ref.SliceSpec{Start: se[0], End: se[1], Step: se[2], Axis: int64(ax)}
				exps, errs := ref.Slice(data, []ref.SliceSpec{spec})
				extra := []string{"large"}
				if errs == nil && ref.NElem(exps.Shape) == 0 && se[0] >= 0 && se[0] < dim && se[1] >= 0 {
					extra = append(extra, "empty-with-start-inside-axis")
				}
				if errs == nil {
					an := (ax + r) % r
					if exps.Shape[an] == 1 {
						extra = append(extra, "sliced-extent=1")
					}
					ce := se[1]
					if ce > dim {
						ce = dim
					}
					if se[2] > 1 && (ce-se[0])%se[2] != 0 {
						extra = append(extra, "step-truncated")
					}
				}
				add("Slice", nil, []*ref.T{data, ref.I64Vec(se[0]), ref.I64Vec(se[1]), ref.I64Vec(int64(ax)), ref.I64Vec(se[2])}, exps, errs, true, "op", nil, fmt.Sprintf("large ax=%d %v", ax, se), extra...)
			}
		}
		tg := make([]int64, r+1)
		tg[0] = 3
		for i, e := range sh {
			tg[i+1] = int64(e)
		}
		expe, erre := ref.Expand(data, tg)
		add("Expand", nil, []*ref.T{data, ref.I64Vec(tg...)}, expe, erre, true, "op", nil, "large"+fmt.Sprint(tg), "large")
	}
	// rows of 64 and more elements behind the axis worked on (row-wise copy paths): Concat along every axis of
	// (B,S,D), Expand that stretches a leading, a middle, or both kinds of axes
	for _, sh := range [][]int{{2, 3, 64}, {3, 2, 70}, {2, 2, 2, 65}} {
		a, b := ref.Distinct(ref.F32, sh), recFill(ref.F32, sh, 77)
		for ax := 0; ax < len(sh); ax++ {
			exp, err := ref.Concat([]*ref.T{a, b, a}, ax)
			add("Concat", []hx.Attr{hx.AInt("axis", int64(ax))}, []*ref.T{a, b, a}, exp, err, true, "op", nil, fmt.Sprintf("long-rows axis=%d", ax), "large", "long-rows")
		}
	}
	for _, et := range [][2][]int{{{2, 1, 70}, {2, 3, 70}}, {{1, 3, 64}, {2, 3, 64}}, {{2, 1, 1, 64}, {2, 3, 2, 64}}, {{3, 1, 70}, {2, 3, 4, 70}}, {{2, 3, 1}, {2, 3, 70}}, {{1, 70}, {3, 2, 70}}, {{2, 3, 70}, {1, 1, 70}}, {{2, 3, 70}, {2, 1, 70}}, {{2, 1, 70}, {1, 3, 1}}} {
		data := ref.Distinct(ref.F32, et[0])
		tg := make([]int64, len(et[1]))
		for i, d := range et[1] {
			tg[i] = int64(d)
		}
		expe, erre := ref.Expand(data, tg)
		add("Expand", nil, []*ref.T{data, ref.I64Vec(tg...)}, expe, erre, true, "op", nil, fmt.Sprintf("long-rows %v->%v", et[0], et[1]), "large", "long-rows")
	}
	// Concat of many inputs (9, 12, 33), also of different extents on the axis
	for _, n := range []int{9, 12, 33, 65, 100} {
		for ax := 0; ax < 2; ax++ {
			var ins []*ref.T
			for k := 0; k < n; k++ {
				sh := []int{2, 2}
				sh[ax] = 1 + k%3
				ins = append(ins, recFill(ref.F32, sh, 60+k))
			}
			exp, err := ref.Concat(ins, ax)
			add("Concat", []hx.Attr{hx.AInt("axis", int64(ax))}, ins, exp, err, true, "op", nil, fmt.Sprintf("many-inputs n=%d axis=%d", n, ax), "many-inputs")
		}
	}
	// rank-1 int64 tensors (shape arithmetic inside graphs): negative indices, mixed ranks, whole / partial slices
	{
		v := ref.I64Vec(5, 6, 7, 8, 9)
		for _, iv := range [][]int64{{-1}, {-5}, {-2, 0, 4}, {4, -4}, {0}, {-6}, {5}, {-7}, {-10}, {-11}, {0, -9}, {9}, {10}} {
			idx := ref.I64Vec(iv...)
			expg, errg := ref.Gather(v, idx, 0)
			add("Gather", []hx.Attr{hx.AInt("axis", 0)}, []*ref.T{v, idx}, expg, errg, true, "op", nil, fmt.Sprintf("int64-vector %v", iv), "int64-vector")
		}
		sc := &ref.T{DT: ref.I64, Shape: []int{}, V: []uint64{uint64(0xffffffffffffffff)}} // scalar index -1
		expg, errg := ref.Gather(v, sc, 0)
		add("Gather", []hx.Attr{hx.AInt("axis", 0)}, []*ref.T{v, sc}, expg, errg, true, "op", nil, "int64-vector scalar index -1", "int64-vector")
		for _, pair := range [][2]*ref.T{{ref.I64Vec(1, 2), ref.I64Vec(3)}, {ref.I64Vec(1, 2), ref.Distinct(ref.I64, []int{2, 2})}, {ref.Distinct(ref.I64, []int{2, 2}), ref.I64Vec(1, 2)}, {ref.I64Vec(1), ref.Distinct(ref.I64, []int{1, 1})}} {
			exp, err := ref.Concat([]*ref.T{pair[0], pair[1]}, 0)
			add("Concat", []hx.Attr{hx.AInt("axis", 0)}, []*ref.T{pair[0], pair[1]}, exp, err, true, "op", nil, fmt.Sprintf("int64 %v ++ %v", pair[0].Shape, pair[1].Shape), "int64-vector")
		}
	}
	// rank-4 image layouts of every numeric type under all 24 perms, all four extents different
	for _, dt := range []ref.DT{ref.U8, ref.I8, ref.I32, ref.F64} {
		data := ref.Distinct(dt, []int{2, 3, 4, 5})
		for _, p := range perms(4) {
			exp, err := ref.Transpose(data, p, true)
			add("Transpose", []hx.Attr{hx.AInts("perm", p...)}, []*ref.T{data}, exp, err, true, "op", nil, "layout"+fmt.Sprint(p), "image-layout")
		}
	}
	// index values around 256 (tables of pre-built slicers / small-index fast paths), runs of consecutive indices that
	// cross zero, and more than 256 indices at once
	{
		data := ref.Distinct(ref.F32, []int{300, 2})
		long := make([]int64, 300)
		for i := range long {
			long[i] = int64((i * 7) % 300)
		}
		for _, iv := range [][]int64{{254, 255, 256, 257}, {256}, {-1, 0, 1}, {-2, -1, 0, 1, 2}, {299, -300, 256, -256}, {1, 0, -1}, {0, 1, 2, 3}, {-3, -2, -1}, long} {
			idx := ref.I64Vec(iv...)
			expg, errg := ref.Gather(data, idx, 0)
			add("Gather", []hx.Attr{hx.AInt("axis", 0)}, []*ref.T{data, idx}, expg, errg, true, "op", nil, fmt.Sprintf("index-runs %v", iv[:min(len(iv), 6)]), "large", "index-runs")
		}
		// every index from -2*dim-1 to 2*dim on a matrix, alone, as rank-0 index and inside a list
		for ax, dim := range []int{4, 3} {
			for iv := -2*dim - 1; iv <= 2*dim; iv++ {
				m43 := ref.Distinct(ref.F32, []int{4, 3})
				for _, idx := range []*ref.T{ref.I64Vec(int64(iv)), {DT: ref.I64, Shape: []int{}, V: []uint64{uint64(int64(iv))}}, ref.I64Vec(0, int64(iv))} {
					expg, errg := ref.Gather(m43, idx, ax)
					add("Gather", []hx.Attr{hx.AInt("axis", int64(ax))}, []*ref.T{m43, idx}, expg, errg, true, "op", nil, fmt.Sprintf("index-sweep ax=%d idx=%d rank%d", ax, iv, len(idx.Shape)), "index-sweep")
				}
			}
		}
		small := ref.Distinct(ref.F32, []int{4, 3})
		for _, iv := range [][]int64{{-1, 0, 1}, {-2, -1, 0}, {0, 1, 2}, {-4, -3, -2, -1, 0, 1, 2, 3}, {3, 2, 1, 0, -1}} {
			for ax := 0; ax < 2; ax++ {
				if ax == 1 && len(iv) > 5 {
					continue
				}
				idx := ref.I64Vec(iv...)
				if ax == 1 {
					for i := range idx.V {
						if v := int64(idx.V[i]); v > 2 || v < -3 {
							idx.V[i] = 0
						}
					}
				}
				expg, errg := ref.Gather(small, idx, ax)
				add("Gather", []hx.Attr{hx.AInt("axis", int64(ax))}, []*ref.T{small, idx}, expg, errg, true, "op", nil, fmt.Sprintf("index-runs-small ax=%d %v", ax, iv), "index-runs")
			}
		}
	}
	// Expand of a single element, bit-exact: negative zero, NaN payloads, the smallest subnormal
	for _, dt := range []ref.DT{ref.F32, ref.F64} {
		for _, bits := range specialBits(dt) {
			for _, sh := range [][]int{{1}, {1, 1}, {}} {
				one := &ref.T{DT: dt, Shape: sh, V: []uint64{bits}}
				for _, tg := range [][]int64{{3}, {2, 3}, {1}} {
					expe, erre := ref.Expand(one, tg)
					add("Expand", nil, []*ref.T{one, ref.I64Vec(tg...)}, expe, erre, true, "op", nil, fmt.Sprintf("single-element %s bits=%x %v->%v", dt, bits, sh, tg), "single-element-special")
				}
			}
		}
	}
	runOpJobs(c, jobs)
	runReuseJobs(c, jobs)
}

// specialBits: bit patterns whose identity a copy must preserve (negative zero, a NaN with payload, infinities, the
// smallest subnormal, an ordinary value).
func specialBits(dt ref.DT) []uint64 {
	if dt == ref.F32 {
		return []uint64{0x80000000, 0x7fc00001, 0xff800000, 0x00000001, 0x3fc00000}
	}
	return []uint64{0x8000000000000000, 0x7ff8000000000001, 0xfff0000000000000, 0x0000000000000001, 0x3ff8000000000000}
}
