package main

import (
	"fmt"
	"sort"

	"github.com/advancedclimatesystems/gonnx/ops/opset13"
	"verifmc/hx"
	"verifmc/ref"
)

// repCase: one representative, valid invocation of an operator (used by the history, batch and
// schedule explorers, which quantify over histories / schedules rather than over inputs).
type repCase struct {
	Op     string
	Attrs  []hx.Attr
	Inputs []*ref.T
	NOut   int
	Desc   string
}

func (r repCase) opCase() *hx.OpCase {
	return &hx.OpCase{Op: r.Op, Attrs: r.Attrs, Inputs: hx.ToTJs(r.Inputs), NOut: r.NOut, Route: "op"}
}

// repCases covers every registered operator at least once (checked at run time).
func repCases() []repCase {
	f := func(salt int, sh ...int) *ref.T { return recFill(ref.F32, sh, salt) }
	var out []repCase
	add := func(op string, attrs []hx.Attr, nOut int, desc string, ins ...*ref.T) {
		out = append(out, repCase{Op: op, Attrs: attrs, Inputs: ins, NOut: nOut, Desc: desc})
	}
	for _, op := range unaryFloatOps {
		x := f(1, 2, 3)
		if op == "Acosh" {
			x = ref.Fill(ref.F32, []int{2, 3}, func(i int) float64 { return 1.5 + float64(i) })
		}
		add(op, nil, 1, "", x)
	}
	add("Not", nil, 1, "", ref.Distinct(ref.Bool, []int{2, 3}))
	for _, op := range binaryOps {
		if isLogic(op) {
			add(op, nil, 1, "", ref.Distinct(ref.Bool, []int{2, 3}), ref.Distinct(ref.Bool, []int{3}))
		} else {
			add(op, nil, 1, "", f(1, 2, 3), f(2, 3))
		}
	}
	add("PRelu", nil, 1, "", f(1, 2, 3), f(2, 3))
	// second operands that already have the result shape: broadcasting hands the operand itself to the kernel
	add("PRelu", nil, 1, "slope-same-shape", f(1, 2, 3), f(2, 2, 3))
	for _, op := range []string{"Add", "Sub", "Mul", "Div", "Greater", "Equal"} {
		add(op, nil, 1, "same-shape", f(1, 2, 3), f(2, 2, 3))
	}
	add("And", nil, 1, "same-shape", ref.Distinct(ref.Bool, []int{2, 3}), ref.Distinct(ref.Bool, []int{2, 3}))
	add("Scaler", []hx.Attr{hx.AFloats("offset", 0.5, -1, 2), hx.AFloats("scale", 2, 0.5, -1)}, 1, "rank-1-input", f(1, 3))
	add("Scaler", []hx.Attr{hx.AFloats("offset", 0.5), hx.AFloats("scale", 2)}, 1, "scalar-attrs", f(1, 2, 3))
	add("LinearRegressor", []hx.Attr{hx.AFloats("coefficients", 0.5, -1, 2, 0.25, 1, -0.5), hx.AInt("targets", 2), hx.AFloats("intercepts", 0.5, -0.25)}, 1, "single-row", f(1, 1, 3))
	add("Gemm", []hx.Attr{hx.AFloat("beta", 0.5)}, 1, "C-full-shape", f(1, 2, 3), f(2, 3, 2), f(3, 2, 2))
	add("Expand", nil, 1, "same-shape", f(1, 2, 3), ref.I64Vec(2, 3))
	add("Reshape", nil, 1, "same-shape", f(1, 2, 3), ref.I64Vec(2, 3))
	add("Slice", nil, 1, "whole", f(1, 3, 4), ref.I64Vec(0), ref.I64Vec(3), ref.I64Vec(0), ref.I64Vec(1))
	add("Transpose", []hx.Attr{hx.AInts("perm", 0, 1)}, 1, "identity-perm", f(1, 2, 3))
	add("Squeeze", nil, 1, "nothing-to-squeeze", f(1, 2, 3), nil)
	add("Cast", []hx.Attr{hx.AInt("to", 1)}, 1, "same-type", f(1, 2, 3))
	add("MatMul", nil, 1, "batched", f(1, 2, 2, 3), f(2, 3, 2))
	add("MatMul", nil, 1, "vector-B", f(1, 2, 3), f(2, 3))
	add("MatMul", nil, 1, "vector-A", f(1, 3), f(2, 3, 2))
	add("MatMul", nil, 1, "vector-A-batched-B", f(1, 3), f(2, 2, 3, 2))
	add("Gemm", []hx.Attr{hx.AFloat("alpha", 0.5), hx.AFloat("beta", 2), hx.AInt("transB", 1)}, 1, "", f(1, 2, 3), f(2, 2, 3), f(3, 2))
	add("Gemm", []hx.Attr{hx.AFloat("beta", 0)}, 1, "beta-zero-with-C", f(1, 2, 3), f(2, 3, 2), f(3, 2))
	add("Gemm", []hx.Attr{hx.AFloat("alpha", 0), hx.AFloat("beta", 1.5)}, 1, "alpha-zero", f(1, 2, 3), f(2, 3, 2), f(3, 2))
	add("Gemm", nil, 1, "bias(1,N)", f(1, 2, 3), f(2, 3, 2), f(3, 1, 2))
	add("LinearRegressor", []hx.Attr{hx.AFloats("coefficients", 0.5, -1, 2, 0.25, 1, -0.5), hx.AInt("targets", 2), hx.AFloats("intercepts", 0.5, -0.25)}, 1, "", f(1, 2, 3))
	add("Scaler", []hx.Attr{hx.AFloats("offset", 0.5, -1, 2), hx.AFloats("scale", 2, 0.5, -1)}, 1, "", f(1, 2, 3))
	add("Conv", []hx.Attr{hx.AStr("auto_pad", "SAME_UPPER"), hx.AInts("strides", 1, 2)}, 1, "2D-bias", f(1, 2, 2, 3, 4), f(2, 2, 2, 2, 1), f(3, 2))
	add("Conv", []hx.Attr{hx.AInts("dilations", 2), hx.AInts("pads", 1, 1)}, 1, "1D-dilated-inferred-kernel", f(1, 2, 2, 5), f(2, 2, 2, 2), f(3, 2))
	for _, op := range []string{"RNN", "GRU", "LSTM"} {
		ng := map[string]int{"RNN": 1, "GRU": 3, "LSTM": 4}[op]
		ins := []*ref.T{f(1, 3, 2, 2), f(2, 1, ng*2, 2), f(3, 1, ng*2, 2), f(4, 1, 2*ng*2), nil, f(5, 1, 2, 2)}
		n := 2
		if op == "LSTM" {
			ins = append(ins, f(6, 1, 2, 2), f(7, 1, 6))
			n = 3
		}
		add(op, []hx.Attr{hx.AInt("hidden_size", 2)}, n, "all-optional-inputs", ins...)
	}
	add("Gemm", []hx.Attr{hx.AInt("transA", 1)}, 1, "transA", f(1, 3, 2), f(2, 3, 2), f(3, 2))
	add("Gemm", []hx.Attr{hx.AInt("transA", 1), hx.AInt("transB", 1), hx.AFloat("alpha", 2)}, 1, "transA-transB-square", f(1, 2, 2), f(2, 2, 2))
	for _, op := range []string{"RNN", "GRU", "LSTM"} {
		ng := map[string]int{"RNN": 1, "GRU": 3, "LSTM": 4}[op]
		n := 2
		if op == "LSTM" {
			n = 3
		}
		add(op, []hx.Attr{hx.AInt("hidden_size", 2)}, n, "no-optional-inputs", f(1, 3, 2, 2), f(2, 1, ng*2, 2), f(3, 1, ng*2, 2))
	}
	// a sequence of one step (the step matrix IS the input then), batch 1, input size 1
	for _, op := range []string{"RNN", "GRU", "LSTM"} {
		ng := map[string]int{"RNN": 1, "GRU": 3, "LSTM": 4}[op]
		n := 2
		if op == "LSTM" {
			n = 3
		}
		add(op, []hx.Attr{hx.AInt("hidden_size", 2)}, n, "single-step(1,2,3)", f(1, 1, 2, 3), f(2, 1, ng*2, 3), f(3, 1, ng*2, 2), f(4, 1, 2*ng*2))
		add(op, []hx.Attr{hx.AInt("hidden_size", 2)}, n, "single-step-batch1(1,1,1)", f(1, 1, 1, 1), f(2, 1, ng*2, 1), f(3, 1, ng*2, 2))
	}
	add("GRU", []hx.Attr{hx.AInt("hidden_size", 2), hx.AInt("linear_before_reset", 1)}, 2, "linear_before_reset", f(1, 3, 2, 2), f(2, 1, 6, 2), f(3, 1, 6, 2), f(4, 1, 12))
	add("Conv", []hx.Attr{hx.AInts("pads", 1, 0, 0, 2), hx.AInts("dilations", 1, 2)}, 1, "2D-no-bias-asymmetric-pads", f(1, 1, 2, 3, 4), f(2, 2, 2, 2, 2))
	add("Softmax", []hx.Attr{hx.AInt("axis", -1)}, 1, "last-axis", f(1, 2, 3))
	add("LogSoftmax", []hx.Attr{hx.AInt("axis", 0)}, 1, "axis-0", f(1, 2, 3))
	add("ReduceMax", nil, 1, "no-attributes", f(1, 2, 3))
	add("ReduceMin", []hx.Attr{hx.AInts("axes", -1)}, 1, "keepdims-default", f(1, 2, 3))
	// configurations in which the result has the operand's values (an implementation may be tempted to hand the operand,
	// or a header sharing its storage, back)
	add("ReduceMax", []hx.Attr{hx.AInts("axes", 0, 2), hx.AInt("keepdims", 1)}, 1, "reduced-axes-of-extent-1", f(1, 1, 3, 1))
	add("ReduceMin", []hx.Attr{hx.AInts("axes", 1), hx.AInt("keepdims", 0)}, 1, "reduced-axis-of-extent-1", f(1, 2, 1, 3))
	add("Flatten", []hx.Attr{hx.AInt("axis", 1)}, 1, "already-2D", f(1, 2, 3))
	add("Gather", []hx.Attr{hx.AInt("axis", 0)}, 1, "identity-indices", f(1, 3, 2), ref.I64Vec(0, 1, 2))
	add("Unsqueeze", nil, 1, "leading-axis", f(1, 2, 3), ref.I64Vec(0))
	add("Squeeze", nil, 1, "leading-axis", f(1, 1, 2, 3), ref.I64Vec(0))
	add("Slice", nil, 1, "rank-1-int64-middle", ref.I64Vec(5, 6, 7, 8, 9), ref.I64Vec(1), ref.I64Vec(4), ref.I64Vec(0), ref.I64Vec(1))
	add("Slice", nil, 1, "rank-1-int64-whole-defaults", ref.I64Vec(5, 6, 7), ref.I64Vec(0), ref.I64Vec(3), nil, nil)
	add("Gather", []hx.Attr{hx.AInt("axis", 0)}, 1, "rank-1-int64-data", ref.I64Vec(5, 6, 7, 8), ref.I64Vec(1, 2))
	add("Concat", []hx.Attr{hx.AInt("axis", 0)}, 1, "rank-1-int64", ref.I64Vec(5, 6), ref.I64Vec(7))
	add("Slice", nil, 1, "whole-default-axes-steps", f(1, 3, 4), ref.I64Vec(0, 0), ref.I64Vec(3, 4), nil, nil)
	add("Mul", nil, 1, "by-ones", f(1, 2, 3), ref.FromF(ref.F32, []int{2, 3}, 1, 1, 1, 1, 1, 1))
	add("Add", nil, 1, "zeros", f(1, 2, 3), ref.FromF(ref.F32, []int{3}, 0, 0, 0))
	add("Relu", nil, 1, "all-positive", ref.FromF(ref.F32, []int{2, 2}, 1, 2, 3, 4))
	add("Abs", nil, 1, "all-positive", ref.FromF(ref.F32, []int{2, 2}, 1, 2, 3, 4))
	add("Softmax", []hx.Attr{hx.AInt("axis", 1)}, 1, "axis-of-extent-1", f(1, 2, 1))
	add("MatMul", nil, 1, "identity-matrix", f(1, 2, 2), ref.FromF(ref.F32, []int{2, 2}, 1, 0, 0, 1))
	add("Gemm", nil, 1, "identity-matrix", f(1, 2, 2), ref.FromF(ref.F32, []int{2, 2}, 1, 0, 0, 1))
	add("Conv", nil, 1, "1x1-unit-kernel", f(1, 1, 1, 2, 2), ref.FromF(ref.F32, []int{1, 1, 1, 1}, 1))
	add("Scaler", []hx.Attr{hx.AFloats("offset", 0), hx.AFloats("scale", 1)}, 1, "identity", f(1, 2, 3))
	add("Scaler", []hx.Attr{hx.AFloats("offset", 0, 0, 0), hx.AFloats("scale", 2, 0.5, -1)}, 1, "zero-offset", f(1, 2, 3))
	add("Scaler", []hx.Attr{hx.AFloats("offset", 0.5, -1, 2), hx.AFloats("scale", 1, 1, 1)}, 1, "unit-scale", f(1, 2, 3))
	add("Gather", []hx.Attr{hx.AInt("axis", 0)}, 1, "single-index-axis0", f(1, 3, 2), ref.I64Vec(1))
	add("Slice", nil, 1, "two-rows", f(1, 3, 4), ref.I64Vec(1), ref.I64Vec(3), ref.I64Vec(0), ref.I64Vec(1))
	add("PRelu", nil, 1, "unit-slope", f(1, 2, 3), ref.FromF(ref.F32, []int{3}, 1, 1, 1))
	// second operands of the same rank with leading / trailing extent-1 axes (per-channel parameters)
	add("PRelu", nil, 1, "per-channel-slope(1,C,1,1)", f(1, 2, 3, 2, 2), f(2, 1, 3, 1, 1))
	add("PRelu", nil, 1, "per-channel-slope(C,1,1)", f(1, 2, 3, 2, 2), f(2, 3, 1, 1))
	add("Add", nil, 1, "per-channel(1,C,1,1)", f(1, 2, 3, 2, 2), f(2, 1, 3, 1, 1))
	add("Mul", nil, 1, "per-channel(C,1,1)", f(1, 2, 3, 2, 2), f(2, 3, 1, 1))
	add("Gemm", nil, 1, "bias(M,1)", f(1, 2, 3), f(2, 3, 2), f(3, 2, 1))
	// outputs with a single position per channel / a single element
	add("Conv", nil, 1, "N1-output-1x1-bias", f(1, 1, 2, 2, 2), f(2, 3, 2, 2, 2), f(3, 3))
	add("Conv", nil, 1, "1D-N1-output-1-bias", f(1, 1, 2, 3), f(2, 2, 2, 3), f(3, 2))
	add("ConstantOfShape", []hx.Attr{hx.ATensor("value", ref.FromF(ref.F32, []int{1}, 2.5), "typed")}, 1, "single-element-typed-value", ref.I64Vec(1))
	add("ConstantOfShape", []hx.Attr{hx.ATensor("value", ref.FromF(ref.F32, []int{1}, 2.5), "typed")}, 1, "single-element-rank2-typed-value", ref.I64Vec(1, 1))
	add("ConstantOfShape", []hx.Attr{hx.ATensor("value", ref.FromF(ref.F32, []int{1}, 2.5), "raw")}, 1, "single-element-raw-value", ref.I64Vec(1))
	add("ConstantOfShape", nil, 1, "no-attributes(default-zero)", ref.I64Vec(2, 3))
	add("Constant", []hx.Attr{hx.ATensor("value", ref.FromF(ref.F32, []int{1}, 2.5), "typed")}, 1, "single-element-typed")
	add("Constant", []hx.Attr{hx.AFloat("value_float", 2.5)}, 1, "value_float")
	add("Constant", []hx.Attr{hx.AInts("value_ints", 1, 2, 3)}, 1, "value_ints")
	// a tensor value of every storable element type, in the typed field of that type and as raw bytes (decoders differ
	// per field: some convert into a new array, some wrap the field's own array)
	for _, dt := range []ref.DT{ref.F64, ref.I8, ref.I16, ref.I32, ref.I64, ref.U8, ref.U16, ref.U32, ref.U64, ref.Bool} {
		v := ref.Fill(dt, []int{3}, func(i int) float64 { return float64(i % 2) })
		if dt != ref.Bool {
			v = ref.Fill(dt, []int{3}, func(i int) float64 { return float64(1 + i) })
		}
		add("Constant", []hx.Attr{hx.ATensor("value", v, "typed")}, 1, "typed-"+dt.String())
		if dt == ref.I64 || dt == ref.U64 || dt == ref.F64 || dt == ref.U8 {
			add("Constant", []hx.Attr{hx.ATensor("value", v, "raw")}, 1, "raw-"+dt.String())
		}
	}
	// element types beyond the numeric ones through the operators whose gate allows every type
	for _, dt := range []ref.DT{ref.C64, ref.C128, ref.Str, ref.Bool, ref.U16} {
		d := ref.Distinct(dt, []int{2, 3})
		add("Shape", nil, 1, "dtype="+dt.String(), d)
		add("Transpose", []hx.Attr{hx.AInts("perm", 1, 0)}, 1, "dtype="+dt.String(), d)
		add("Reshape", nil, 1, "dtype="+dt.String(), d, ref.I64Vec(3, 2))
		add("Concat", []hx.Attr{hx.AInt("axis", 0)}, 1, "dtype="+dt.String(), d, d)
		add("Unsqueeze", nil, 1, "dtype="+dt.String(), d, ref.I64Vec(0))
		add("Flatten", []hx.Attr{hx.AInt("axis", 1)}, 1, "dtype="+dt.String(), d)
		add("Gather", []hx.Attr{hx.AInt("axis", 0)}, 1, "dtype="+dt.String(), d, ref.I64Vec(1, 0))
		add("Expand", nil, 1, "dtype="+dt.String(), ref.Distinct(dt, []int{1, 3}), ref.I64Vec(2, 3))
	}
	// every element type an operator's gate accepts for its first input, through that operator's first representative
	// case (the same shapes and attributes; float32 operands replaced by operands of the other type with small non-zero
	// values): type switches have one arm per type, and an arm can hand on its operand where its neighbours copy
	{
		firstOf := map[string]int{}
		for i, r := range out {
			if _, ok := firstOf[r.Op]; !ok {
				firstOf[r.Op] = i
			}
		}
		names := append([]string{}, opset13.GetOpNames()...)
		sort.Strings(names) // the registry is a map: a fixed order keeps subject names stable across processes
		for _, name := range names {
			i, ok := firstOf[name]
			if !ok {
				continue
			}
			r := out[i]
			if len(r.Inputs) == 0 || r.Inputs[0] == nil || r.Inputs[0].DT != ref.F32 {
				continue
			}
			op, err := opset13.GetOperator(name)
			if err != nil || len(op.GetInputTypeConstraints()) == 0 {
				continue
			}
			// operators that only move data (one generic gorgonia path for every type): one float, one signed, one unsigned type
			mover := map[string]bool{"Unsqueeze": true, "Transpose": true, "Reshape": true, "Gather": true, "Flatten": true, "Expand": true,
				"Squeeze": true, "Slice": true, "Shape": true, "Concat": true}[name]
			for _, g := range op.GetInputTypeConstraints()[0] {
				dt, ok := hx.DTOf(g)
				if !ok || dt == ref.F32 || dt == ref.C64 || dt == ref.C128 || dt == ref.Str || dt == ref.Bool {
					continue
				}
				if mover && dt != ref.F64 && dt != ref.I32 && dt != ref.U8 {
					continue
				}
				// admitted by the gate but refused at run time by the pinned tree (`mc probe-dtypes`): Gemm and the recurrent
				// operators multiply by float32 scalars, gorgonia's MatMul handles floats only - nothing to compare
				if dt == ref.F64 && (name == "Gemm" || name == "RNN" || name == "GRU" || name == "LSTM") || dt != ref.F64 && name == "MatMul" {
					continue
				}
				ins := make([]*ref.T, len(r.Inputs))
				for k, t := range r.Inputs {
					ins[k] = t
					if t != nil && t.DT == ref.F32 {
						k := k
						ins[k] = ref.Fill(dt, t.Shape, func(i int) float64 { return float64(1 + (i+2*k)%5) })
					}
				}
				if _, err := refEval(name, r.Attrs, ins); err != nil {
					continue // the reference does not model this operator for that type (or refuses the request)
				}
				add(name, r.Attrs, r.NOut, "elem="+dt.String(), ins...)
			}
		}
	}
	// large operands (beyond the size thresholds of pooled buffers, chunked or parallel kernels); their batch-1 feed is
	// another geometry for the same node: what one call leaves in a recycled buffer meets the next call's layout
	add("Conv", []hx.Attr{hx.AInts("pads", 1, 1, 1, 1)}, 1, "large-padded(2,2,48,48)", f(1, 2, 2, 48, 48), f(2, 3, 2, 3, 3), f(3, 3))
	add("Conv", []hx.Attr{hx.AStr("auto_pad", "SAME_UPPER"), hx.AInts("strides", 2)}, 1, "large-1D-autopad(3,2,1500)", f(1, 3, 2, 1500), f(2, 2, 2, 4))
	add("Add", nil, 1, "large-broadcast(3,70,333)+(333)", f(1, 3, 70, 333), f(2, 333))
	add("Softmax", []hx.Attr{hx.AInt("axis", -1)}, 1, "large(2,64,530)", f(1, 2, 64, 530))
	add("MatMul", nil, 1, "large(2,72,64)x(64,48)", f(1, 2, 72, 64), f(2, 64, 48))
	add("Gemm", []hx.Attr{hx.AInt("transB", 1)}, 1, "large(72,64)x(48,64)T", f(1, 72, 64), f(2, 48, 64), f(3, 48))
	add("Transpose", []hx.Attr{hx.AInts("perm", 0, 2, 1)}, 1, "large(2,90,101)", f(1, 2, 90, 101))
	add("ReduceMax", []hx.Attr{hx.AInts("axes", 1), hx.AInt("keepdims", 0)}, 1, "large(2,300,31)", f(1, 2, 300, 31))
	add("Concat", []hx.Attr{hx.AInt("axis", 1)}, 1, "large(2,4000)+(2,4200)", f(1, 2, 4000), f(2, 2, 4200))
	add("Relu", nil, 1, "large(3,21851)", f(1, 3, 21851))
	// large tensors through operators that only rearrange: above some size a copy is tempting to avoid
	add("Expand", nil, 1, "large-leading-axis(70000)->(1,70000)", f(1, 70000), ref.I64Vec(1, 70000))
	add("Unsqueeze", nil, 1, "large(70000)", f(1, 70000), ref.I64Vec(0))
	add("Reshape", nil, 1, "large(70000)->(7,10000)", f(1, 70000), ref.I64Vec(7, 10000))
	add("Squeeze", nil, 1, "large(1,70000)", f(1, 1, 70000), ref.I64Vec(0))
	add("Flatten", []hx.Attr{hx.AInt("axis", 1)}, 1, "large(2,5,7000)", f(1, 2, 5, 7000))
	add("Slice", nil, 1, "large-whole(70000)", f(1, 70000), ref.I64Vec(0), ref.I64Vec(70000), ref.I64Vec(0), ref.I64Vec(1))
	add("Gather", []hx.Attr{hx.AInt("axis", 0)}, 1, "large-rows(3,30000)", f(1, 3, 30000), ref.I64Vec(0, 1, 2))
	add("Cast", []hx.Attr{hx.AInt("to", 1)}, 1, "large-same-type(70000)", f(1, 70000))
	add("Reshape", nil, 1, "", f(1, 2, 3), ref.I64Vec(3, -1))
	add("Flatten", []hx.Attr{hx.AInt("axis", 1)}, 1, "", f(1, 2, 3, 2))
	add("Squeeze", nil, 1, "", f(1, 2, 1, 3), ref.I64Vec(1))
	add("Squeeze", nil, 1, "axes-absent", f(1, 2, 1, 3), nil)
	add("Unsqueeze", nil, 1, "", f(1, 2, 3), ref.I64Vec(0, -1))
	add("Shape", nil, 1, "", f(1, 2, 3))
	add("Transpose", []hx.Attr{hx.AInts("perm", 1, 0, 2)}, 1, "", f(1, 2, 3, 2))
	add("Concat", []hx.Attr{hx.AInt("axis", 1)}, 1, "two-inputs", f(1, 2, 3), f(2, 2, 2))
	add("Concat", []hx.Attr{hx.AInt("axis", 0)}, 1, "one-input", f(1, 2, 3))
	add("Slice", nil, 1, "", f(1, 3, 4), ref.I64Vec(0, 1), ref.I64Vec(2, 3), ref.I64Vec(0, 1), ref.I64Vec(1, 1))
	add("Gather", []hx.Attr{hx.AInt("axis", 1)}, 1, "", f(1, 2, 3), ref.I64Vec(2, 0, -1))
	add("Expand", nil, 1, "", f(1, 2, 1), ref.I64Vec(2, 2, 3))
	add("ArgMax", []hx.Attr{hx.AInt("axis", 1), hx.AInt("keepdims", 1)}, 1, "keepdims", f(1, 2, 3))
	add("ArgMax", []hx.Attr{hx.AInt("axis", 0), hx.AInt("keepdims", 0)}, 1, "no-keepdims", f(1, 2, 3))
	add("ReduceMax", []hx.Attr{hx.AInts("axes", 1), hx.AInt("keepdims", 1)}, 1, "", f(1, 2, 3))
	add("ReduceMin", []hx.Attr{hx.AInts("axes", 0), hx.AInt("keepdims", 0)}, 1, "", f(1, 2, 3))
	add("Softmax", []hx.Attr{hx.AInt("axis", 0)}, 1, "", f(1, 2, 3))
	add("LogSoftmax", nil, 1, "", f(1, 2, 3))
	add("Constant", []hx.Attr{hx.ATensor("value", f(9, 2, 2), "typed")}, 1, "typed-tensor")
	add("Constant", []hx.Attr{hx.AFloats("value_floats", 1, 2, 3)}, 1, "value_floats")
	add("ConstantOfShape", []hx.Attr{hx.ATensor("value", ref.FromF(ref.F32, []int{1}, 1.5), "typed")}, 1, "", ref.I64Vec(2, 3))
	add("Cast", []hx.Attr{hx.AInt("to", 7)}, 1, "f32->i64", ref.FromF(ref.F32, []int{3}, 1.5, -2.25, 7))
	return out
}

// checkRepCoverage makes sure every registered operator has a representative case.
func checkRepCoverage(cases []repCase) {
	have := map[string]bool{}
	for _, r := range cases {
		have[r.Op] = true
	}
	for _, n := range opset13.GetOpNames() {
		if !have[n] {
			hx.HarnessError("no representative case for registered operator %s", n)
		}
	}
}

func (r repCase) id() string { return fmt.Sprintf("%s[%s]", r.Op, r.Desc) }

// warmAllOperators runs every representative case of every operator once (operator route, results ignored) before a
// check starts: the cases of the property are then explored in a process in which every operator - and every table,
// cache or registry they share - has already been used, as in any program that runs more than one kind of model.
// (What the FIRST use of the library does is the subject of C17's cold-start and global-state passes, which run in
// fresh processes of their own.)
func warmAllOperators() {
	for _, rc := range repCases() {
		func() {
			defer func() { recover() }()
			if op, err := opset13.GetOperator(rc.Op); err == nil {
				op.GetInputTypeConstraints()
			}
			hx.RunOp(rc.opCase())
		}()
	}
}
