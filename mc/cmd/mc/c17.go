package main

import (
	"encoding/json"
	"fmt"
	"hash/fnv"
	"os"
	"os/exec"
	"runtime"
	"runtime/debug"
	"sort"
	"strings"
	"sync"
	"time"

	gonnx "github.com/advancedclimatesystems/gonnx"
	"github.com/advancedclimatesystems/gonnx/onnx"
	"github.com/advancedclimatesystems/gonnx/ops"
	"google.golang.org/protobuf/proto"
	"gorgonia.org/tensor"
	"verifmc/explore"
	"verifmc/hx"
	"verifmc/ref"
)

// C17 — a loaded Model can be run from many goroutines at once (schedule explorer, E4).

func init() {
	register("C17", "model_checking", checkC17)
	replayers["schedule"] = func(raw json.RawMessage) *hx.Violation {
		var r struct {
			Subject string `json:"subject"`
			Threads int    `json:"threads"`
			Choices []int  `json:"choices"`
		}
		if err := json.Unmarshal(raw, &r); err != nil {
			return &hx.Violation{Kind: "bad-replay", Detail: err.Error()}
		}
		for _, s := range c17AllSubjects(true) {
			if s.Name == r.Subject {
				s.prepare()
				h := newSchedHarness(s, r.Threads)
				sc, bodies := h.fresh()
				x := sc.Run(bodies, r.Choices)
				return h.judge(x, sc)
			}
		}
		return &hx.Violation{Kind: "bad-replay", Detail: "unknown subject"}
	}
	replayers["frozen"] = func(raw json.RawMessage) *hx.Violation {
		var r struct {
			Subject string `json:"subject"`
		}
		json.Unmarshal(raw, &r)
		for _, s := range c17AllSubjects(true) {
			if s.Name == r.Subject {
				s.prepare()
				return frozenPass(s)
			}
		}
		return &hx.Violation{Kind: "bad-replay", Detail: "unknown subject"}
	}
}

// opWrap forwards to the real operator and yields to the scheduler before every phase.
type opWrap struct {
	ops.Operator
	y func()
}

func (w *opWrap) Init(n *onnx.NodeProto) error { w.y(); return w.Operator.Init(n) }
func (w *opWrap) ValidateInputs(in []tensor.Tensor) ([]tensor.Tensor, error) {
	w.y()
	return w.Operator.ValidateInputs(in)
}
func (w *opWrap) Apply(in []tensor.Tensor) ([]tensor.Tensor, error) {
	w.y()
	return w.Operator.Apply(in)
}

func instrument(m *gonnx.Model, y func()) {
	orig := m.GetOperator
	m.GetOperator = func(name string) (ops.Operator, error) {
		y()
		op, err := orig(name)
		if err != nil {
			return nil, err
		}
		return &opWrap{op, y}, nil
	}
}

func modelDigest(m *gonnx.Model) uint64 {
	var parts []uint64
	params := m.VerifParameters()
	for _, k := range sortedKeys(params) {
		parts = append(parts, hx.Snapshot(params[k]).Digest())
	}
	pb, _ := proto.MarshalOptions{Deterministic: true}.Marshal(m.VerifModelProto())
	h := fnv.New64a()
	h.Write(pb)
	parts = append(parts, h.Sum64())
	return digestOf(parts...)
}

// schedHarness: thread bodies over one shared Model.
type schedHarness struct {
	s        *subject
	nThreads int
	// per execution
	shared  *gonnx.Model
	digest0 uint64
	results [][]runResult
}

type runResult struct {
	label string
	outs  gonnx.Tensors
	err   error
	feed  string // "A" or "B"
}

func newSchedHarness(s *subject, n int) *schedHarness { return &schedHarness{s: s, nThreads: n} }

func (h *schedHarness) fresh() (*explore.Sched, []func()) {
	sc := &explore.Sched{}
	m, err := gonnx.NewModelFromBytes(h.s.Model)
	if err != nil {
		hx.HarnessError("subject %s does not load: %v", h.s.Name, err)
	}
	instrument(m, sc.Yield)
	h.shared = m
	h.digest0 = modelDigest(m)
	h.results = make([][]runResult, h.nThreads)
	mkFeed := func(f map[string]*ref.T) gonnx.Tensors {
		t := gonnx.Tensors{}
		for k, v := range f {
			t[k] = hx.ToG(v)
		}
		return t
	}
	run := func(id int, model *gonnx.Model, which string) {
		feed := mkFeed(h.s.FeedA)
		if which == "B" {
			feed = mkFeed(h.s.FeedB)
		}
		if which == "C" {
			feed = mkFeed(h.s.FeedC)
		}
		outs, err := model.Run(feed)
		h.results[id] = append(h.results[id], runResult{label: fmt.Sprintf("T%d.Run(%s)", id, which), outs: outs, err: err, feed: which})
	}
	bodies := []func(){
		func() { run(0, m, "A"); sc.Yield(); run(0, m, "B") },
		func() {
			second := "B"
			if h.s.FeedC != nil {
				second = "C" // another batch size next to thread 0's Runs
			}
			if len(h.s.FeedA) > 0 {
				// first a call that typically fails inside an operator (outcome not judged)
				func() {
					defer func() { recover() }()
					m.Run(mkFeed(h.s.oddFeed()))
				}()
				sc.Yield()
			}
			run(1, m, second)
		},
	}
	if h.nThreads >= 3 {
		bodies = append(bodies, func() {
			m2, err := gonnx.NewModelFromBytes(h.s.Model) // loading a further model concurrently
			if err != nil {
				h.results[2] = append(h.results[2], runResult{label: "T2.Load", err: err})
				return
			}
			instrument(m2, sc.Yield)
			sc.Yield()
			run(2, m2, "A")
		})
	}
	sc.AtPoint = func(justRan int) string {
		if d := modelDigest(m); d != h.digest0 {
			return fmt.Sprintf("shared model state (weights / proto) changed after a step of thread %d", justRan)
		}
		return ""
	}
	return sc, bodies
}

func (h *schedHarness) judge(x *explore.Exec, sc *explore.Sched) *hx.Violation {
	mk := func(kind, detail string) *hx.Violation {
		return &hx.Violation{Kind: kind, Detail: detail + fmt.Sprintf(" [schedule (thread ids) %v]", x.Threads),
			Replay: map[string]any{"replay_kind": "schedule", "subject": h.s.Name, "threads": h.nThreads, "choices": x.Choices, "schedule": x.Threads}}
	}
	for t, p := range x.Panics {
		return mk("panic", fmt.Sprintf("thread %d panicked: %s", t, p))
	}
	if x.Deadlock {
		return mk("deadlock", fmt.Sprintf("every unfinished thread stayed blocked inside the library for %v under this schedule", explore.DeadlockTimeout))
	}
	if sc.Abort != "" {
		return mk("shared-write", sc.Abort)
	}
	for t, rs := range h.results {
		for _, r := range rs {
			if r.err != nil {
				if h.s.MayRefuse {
					continue
				}
				return mk("schedule-dependent", fmt.Sprintf("%s failed under this schedule (alone it succeeds): %v", r.label, r.err))
			}
			if r.outs == nil {
				continue
			}
			exp := h.s.expA
			if r.feed == "B" {
				exp = h.s.expB
			}
			if r.feed == "C" {
				exp = h.s.expC
			}
			for _, o := range h.s.Outs {
				got, e := hx.FromG(r.outs[o])
				if e != nil || got == nil {
					return mk("nil-output", fmt.Sprintf("%s: output %q nil/unreadable (%v)", r.label, o, e))
				}
				if k, d := hx.CompareT(got, exp[o], h.s.cmp); k != "" {
					return mk("schedule-dependent", fmt.Sprintf("%s (thread %d): output %q differs from what the Run returns alone: %s", r.label, t, o, d))
				}
			}
		}
	}
	return nil
}

// frozenPass: one execution per input with weights + proto slices write-protected.
func frozenPass(s *subject) (v *hx.Violation) {
	mk := func(kind, detail string) *hx.Violation {
		return &hx.Violation{Kind: kind, Detail: detail, Replay: map[string]any{"replay_kind": "frozen", "subject": s.Name}}
	}
	mp, err := gonnx.ModelProtoFromBytes(s.Model)
	if err != nil {
		return mk("refused", err.Error())
	}
	m, err := gonnx.NewModel(mp)
	if err != nil {
		return mk("refused", err.Error())
	}
	arena, err := hx.NewArena(hx.ArenaSizeFor(m.VerifParameters(), len(s.Model)))
	if err != nil {
		hx.HarnessError("mmap failed: %v", err)
	}
	defer arena.Close()
	arena.FreezeTensors(m.VerifParameters())
	arena.FreezeProto(mp)
	if err := arena.Freeze(); err != nil {
		hx.HarnessError("mprotect failed: %v", err)
	}
	order := []string{"A", "B", "A"}
	if s.FeedC != nil {
		order = []string{"A", "B", "C", "A"}
	}
	for _, which := range order {
		f, exp := s.FeedA, s.expA
		if which == "B" {
			f, exp = s.FeedB, s.expB
		}
		if which == "C" {
			f, exp = s.FeedC, s.expC
		}
		feed := gonnx.Tensors{}
		for k, t := range f {
			feed[k] = hx.ToG(t)
		}
		var outs gonnx.Tensors
		var rerr error
		func() {
			old := debug.SetPanicOnFault(true)
			defer debug.SetPanicOnFault(old)
			defer func() {
				if p := recover(); p != nil {
					msg := fmt.Sprint(p)
					stack := firstLines(string(debug.Stack()), 40)
					kind := "panic"
					if strings.Contains(msg, "fault address") || strings.Contains(msg, "invalid memory address") {
						kind = "shared-write"
						msg = "Run wrote into state shared between Runs (weight tensor header / shape / strides / data, or a model-proto slice wrapped by an operator): " + msg
					}
					v = mk(kind, msg+" :: "+gonnxFrames(stack))
				}
			}()
			outs, rerr = m.Run(feed)
		}()
		if v != nil {
			return v
		}
		if rerr != nil {
			if s.MayRefuse {
				continue
			}
			return mk("refused", fmt.Sprintf("Run(%s) on the frozen model failed: %v", which, rerr))
		}
		for _, o := range s.Outs {
			got, e := hx.FromG(outs[o])
			if e != nil || got == nil {
				return mk("nil-output", fmt.Sprintf("output %q nil/unreadable", o))
			}
			if k, d := hx.CompareT(got, exp[o], s.cmp); k != "" {
				return mk(k, fmt.Sprintf("frozen Run(%s): output %q: %s", which, o, d))
			}
		}
	}
	return nil
}

func nGlobals() int {
	syms, _ := hx.LibraryGlobals()
	return len(syms)
}

func gonnxFrames(stack string) string {
	var keep []string
	for _, l := range strings.Split(stack, " | ") {
		if strings.Contains(l, "advancedclimatesystems/gonnx") {
			keep = append(keep, strings.TrimSpace(l))
		}
		if len(keep) >= 8 {
			break
		}
	}
	return strings.Join(keep, " | ")
}

// stressPass: free-running goroutines on one shared model; every result must equal the solo result.
func stressPass(s *subject, goroutines, rounds int) *hx.Violation {
	mk := func(kind, detail string) *hx.Violation {
		return &hx.Violation{Kind: kind, Detail: detail, Replay: map[string]any{"replay_kind": "stress", "subject": s.Name}}
	}
	m, err := gonnx.NewModelFromBytes(s.Model)
	if err != nil {
		return mk("refused", err.Error())
	}
	var wg sync.WaitGroup
	var mu sync.Mutex
	var first *hx.Violation
	start := make(chan struct{})
	for g := 0; g < goroutines; g++ {
		wg.Add(1)
		go func(g int) {
			defer wg.Done()
			defer func() {
				if p := recover(); p != nil {
					mu.Lock()
					if first == nil {
						first = mk("panic", fmt.Sprintf("goroutine %d panicked during concurrent Runs: %v", g, p))
					}
					mu.Unlock()
				}
			}()
			<-start
			for r := 0; r < rounds; r++ {
				f, exp := s.FeedA, s.expA
				if (g+r)%2 == 1 {
					f, exp = s.FeedB, s.expB
				}
				if s.FeedC != nil && (g+2*r)%3 == 0 {
					f, exp = s.FeedC, s.expC // another batch size running next to A and B
				}
				if len(s.FeedA) > 0 && (g*7+r)%5 == 0 {
					// a call that typically fails inside an operator (symbolic dims let it through the signature
					// check); its outcome is not judged, what it leaves behind for the overlapping Runs is
					func() {
						defer func() { recover() }()
						bad := gonnx.Tensors{}
						for k, t := range s.oddFeed() {
							bad[k] = hx.ToG(t)
						}
						m.Run(bad)
					}()
				}
				feed := gonnx.Tensors{}
				for k, t := range f {
					feed[k] = hx.ToG(t)
				}
				outs, err := m.Run(feed)
				var bad string
				if err != nil {
					if !s.MayRefuse {
						bad = "Run failed: " + err.Error()
					}
				} else {
					for _, o := range s.Outs {
						got, e := hx.FromG(outs[o])
						if e != nil || got == nil {
							bad = "output " + o + " nil/unreadable"
							break
						}
						if k, d := hx.CompareT(got, exp[o], s.cmp); k != "" {
							bad = fmt.Sprintf("output %q differs from the solo result: %s", o, d)
							break
						}
					}
				}
				if bad != "" {
					mu.Lock()
					if first == nil {
						first = mk("concurrent-interference", fmt.Sprintf("goroutine %d round %d of %d free-running goroutines: %s", g, r, goroutines, bad))
					}
					mu.Unlock()
					return
				}
			}
		}(g)
	}
	close(start)
	wg.Wait()
	return first
}

func init() {
	replayers["stress"] = func(raw json.RawMessage) *hx.Violation {
		var r struct {
			Subject string `json:"subject"`
		}
		json.Unmarshal(raw, &r)
		for _, s := range c17AllSubjects(true) {
			if s.Name == r.Subject {
				s.prepare()
				return stressPass(s, 16, 100)
			}
		}
		return nil
	}
}

// loadStress: goroutines concurrently load the model and run it; every result must equal the solo result
// ("loading further models concurrently does not disturb them").
func loadStress(s *subject, goroutines, rounds int) *hx.Violation {
	mk := func(kind, detail string) *hx.Violation {
		return &hx.Violation{Kind: kind, Detail: detail, Replay: map[string]any{"replay_kind": "stress", "subject": s.Name}}
	}
	var wg sync.WaitGroup
	var mu sync.Mutex
	var first *hx.Violation
	start := make(chan struct{})
	for g := 0; g < goroutines; g++ {
		wg.Add(1)
		go func(g int) {
			defer wg.Done()
			defer func() {
				if p := recover(); p != nil {
					mu.Lock()
					if first == nil {
						first = mk("panic", fmt.Sprintf("goroutine %d panicked while loading/running concurrently: %v", g, p))
					}
					mu.Unlock()
				}
			}()
			<-start
			for r := 0; r < rounds; r++ {
				m, err := gonnx.NewModelFromBytes(s.Model)
				bad := ""
				if err != nil {
					bad = "concurrent load failed: " + err.Error()
				} else {
					feed := gonnx.Tensors{}
					for k, t := range s.FeedA {
						feed[k] = hx.ToG(t)
					}
					outs, err := m.Run(feed)
					if err != nil {
						if !s.MayRefuse {
							bad = "Run on a concurrently loaded model failed: " + err.Error()
						}
					} else {
						for _, o := range s.Outs {
							got, e := hx.FromG(outs[o])
							if e != nil || got == nil {
								bad = "output " + o + " nil/unreadable"
								break
							}
							if k, d := hx.CompareT(got, s.expA[o], s.cmp); k != "" {
								bad = fmt.Sprintf("output %q of a concurrently loaded model differs from the solo result: %s", o, d)
								break
							}
						}
					}
				}
				if bad != "" {
					mu.Lock()
					if first == nil {
						first = mk("concurrent-interference", fmt.Sprintf("goroutine %d round %d of %d goroutines loading + running concurrently: %s", g, r, goroutines, bad))
					}
					mu.Unlock()
					return
				}
			}
		}(g)
	}
	close(start)
	wg.Wait()
	return first
}

// c17GlobalsMain is the body of `mc c17-globals`: in a FRESH process (no self-check, nothing warmed up) the bytes
// of every package-level variable of the library are hashed (one level deep) before anything runs and after
// load+Run(A)+Run(B) of every exploration subject, in order. Prints one JSON line: the subjects after which a
// variable had changed, with the variables.
func c17GlobalsMain() {
	type hit struct {
		Subject string   `json:"subject"`
		Syms    []string `json:"syms"`
	}
	res := struct {
		Watched int    `json:"watched"`
		Err     string `json:"err,omitempty"`
		Hits    []hit  `json:"hits"`
	}{}
	syms, err := hx.LibraryGlobals()
	if err != nil {
		res.Err = err.Error()
		b, _ := json.Marshal(res)
		fmt.Println("GLOBALS " + string(b))
		return
	}
	res.Watched = len(syms)
	base := hx.GlobalsDigest()
	_, expl := c17Subjects(false, false)
	if d := hx.GlobalsDiff(base, hx.GlobalsDigest()); len(d) > 0 {
		// building the subjects (protobuf marshalling, the reference interpreter) must not touch the library
		res.Hits = append(res.Hits, hit{"<harness: building the subjects>", d})
		base = hx.GlobalsDigest()
	}
	for _, s := range expl {
		func() {
			defer func() { recover() }()
			m, err := gonnx.NewModelFromBytes(s.Model)
			if err != nil {
				return
			}
			for _, f := range []map[string]*ref.T{s.FeedA, s.FeedB} {
				feed := gonnx.Tensors{}
				for k, t := range f {
					feed[k] = hx.ToG(t)
				}
				m.Run(feed)
			}
		}()
		now := hx.GlobalsDigest()
		if d := hx.GlobalsDiff(base, now); len(d) > 0 {
			res.Hits = append(res.Hits, hit{s.Name, d})
			base = now
		}
	}
	b, _ := json.Marshal(res)
	fmt.Println("GLOBALS " + string(b))
}

// c17ColdMain is the body of `mc c17-cold <subject> <mode>`: the very first thing this fresh process does with
// the library is concurrent: mode "load": 16 goroutines each load the model and Run it; mode "run": one load,
// then 16 goroutines Run it at once. Every result is compared with the reference. Exit 0 / 1 ("COLD-VIOLATION").
func c17ColdMain(name, mode string) {
	var subj *subject
	for _, s := range c17AllSubjects(true) {
		if s.Name == name {
			subj = s
		}
	}
	if subj == nil {
		fmt.Println("COLD-ERROR unknown subject")
		os.Exit(3)
	}
	if err := subj.prepare(); err != nil {
		fmt.Println("COLD-ERROR reference: " + err.Error())
		os.Exit(3)
	}
	var v *hx.Violation
	switch mode {
	case "load":
		v = loadStress(subj, 16, 2)
	case "gcw":
		// body of the collector-in-the-window pass (meant for the overlay build, see gcwPass): one goroutine, the
		// model loaded and Run with every feed (A, B, the batch-1 feed, a call failing inside an operator)
		if v = loadStress(subj, 1, 1); v == nil {
			v = stressPass(subj, 1, 6)
		}
	default:
		v = stressPass(subj, 16, 2)
	}
	if v != nil {
		fmt.Printf("COLD-VIOLATION %s: %s\n", v.Kind, truncateS(v.Detail, 600))
		os.Exit(1)
	}
	fmt.Println("COLD-OK")
}

// coldRun executes one cold-start process; returns "" when clean, else a description. Only symptoms that come from
// the library count: a result that differs (COLD-VIOLATION line printed by the child) or a Go runtime crash of the
// child ("fatal error:" / "panic:" with its message). A child that could not be started, was killed from outside
// (memory pressure, signals) or ended without either symptom is harness trouble: it is retried and never reported.
func coldRun(name, mode string) string {
	exe, err := os.Executable()
	if err != nil {
		return ""
	}
	return coldRunWith(exe, nil, name, mode)
}

func coldRunWith(exe string, env []string, name, mode string) string {
	for attempt := 0; attempt < 3; attempt++ {
		cmd := exec.Command(exe, "c17-cold", name, mode)
		if env != nil {
			cmd.Env = append(os.Environ(), env...)
		}
		out, err := cmd.CombinedOutput()
		text := string(out)
		if err == nil && strings.Contains(text, "COLD-OK") {
			return ""
		}
		if strings.Contains(text, "COLD-ERROR") {
			hx.HarnessError("cold-start process for %s: %s", name, truncateS(text, 300))
		}
		for _, l := range strings.Split(text, "\n") {
			if strings.HasPrefix(l, "COLD-VIOLATION") {
				return l
			}
		}
		for _, l := range strings.Split(text, "\n") {
			if (strings.HasPrefix(l, "fatal error:") || strings.HasPrefix(l, "panic:")) && !strings.Contains(l, "out of memory") && !strings.Contains(l, "newosproc") && !strings.Contains(l, "cannot allocate") {
				return "the process crashed: " + l + " :: " + gonnxFrames(text)
			}
		}
		// no library symptom: environment trouble (could not start, killed, resource exhaustion) - try again
		time.Sleep(time.Duration(200*(attempt+1)) * time.Millisecond)
	}
	return ""
}

func init() {
	replayers["cold"] = func(raw json.RawMessage) *hx.Violation {
		var r struct {
			Subject string `json:"subject"`
			Mode    string `json:"mode"`
		}
		json.Unmarshal(raw, &r)
		for i := 0; i < 40; i++ {
			if d := coldRun(r.Subject, r.Mode); d != "" {
				return &hx.Violation{Kind: "concurrent-interference", Detail: d}
			}
		}
		return nil
	}
}

// coldPass: cold-start concurrency (supplementary, free-running): for each subject and mode `reps` fresh processes.
func coldPass(c *hx.Checker, subs []*subject, reps int, tag string) {
	type job struct {
		s    *subject
		mode string
	}
	var jobs []job
	for _, s := range subs {
		jobs = append(jobs, job{s, "load"}, job{s, "run"})
	}
	c.ParallelFor(len(jobs), func(i int) {
		j := jobs[i]
		info := hx.CaseInfo{ID: fmt.Sprintf("cold-start/%s/%s/%s", tag, j.s.Name, j.mode), Tags: append([]string{"cold-start", "mode=" + j.mode}, j.s.Tags...), NonTrivial: true}
		for r := 0; r < reps; r++ {
			if d := coldRun(j.s.Name, j.mode); d != "" {
				c.Note(info, "concurrent-interference", &hx.Violation{Kind: "concurrent-interference",
					Detail: fmt.Sprintf("fresh process, first use of the library is concurrent (%s, 16 goroutines), attempt %d of %d: %s", j.mode, r+1, reps, d),
					Replay: map[string]any{"replay_kind": "cold", "subject": j.s.Name, "mode": j.mode}})
				return
			}
		}
		c.Note(info, "ok:cold-start-clean", nil)
	})
}

func globalStatePass(c *hx.Checker, expl []*subject) {
	exe, err := os.Executable()
	if err != nil {
		c.Extra["global_state_pass"] = "skipped: " + err.Error()
		return
	}
	out, _ := exec.Command(exe, "c17-globals").CombinedOutput()
	var res struct {
		Watched int    `json:"watched"`
		Err     string `json:"err"`
		Hits    []struct {
			Subject string   `json:"subject"`
			Syms    []string `json:"syms"`
		} `json:"hits"`
	}
	parsed := false
	for _, l := range strings.Split(string(out), "\n") {
		if strings.HasPrefix(l, "GLOBALS ") {
			parsed = json.Unmarshal([]byte(l[8:]), &res) == nil
		}
	}
	if !parsed {
		// the fresh process died: with a modified library that is a crash under plain sequential use
		c.Note(hx.CaseInfo{ID: "globals/process", Tags: []string{"global-state"}, NonTrivial: true}, "panic",
			&hx.Violation{Kind: "panic", Detail: "the global-state process crashed: " + truncateS(string(out), 600), Replay: map[string]any{"replay_kind": "stress", "subject": "sample:mlp"}})
		return
	}
	if res.Err != "" {
		c.Extra["global_state_pass"] = "skipped: " + res.Err
		return
	}
	c.Extra["library_globals_watched"] = res.Watched
	for _, s := range expl {
		c.Note(hx.CaseInfo{ID: "globals/" + s.Name, Tags: []string{"global-state"}, NonTrivial: true}, "ok:globals-checked", nil)
	}
	byName := map[string]*subject{}
	for _, s := range expl {
		byName[s.Name] = s
	}
	var unconfirmed []string
	for _, h := range res.Hits {
		s := byName[h.Subject]
		if s == nil {
			unconfirmed = append(unconfirmed, fmt.Sprintf("%s: %v", h.Subject, h.Syms))
			continue
		}
		id := "globals-confirm/" + s.Name
		info := hx.CaseInfo{ID: id, Tags: []string{"global-state", "op=" + s.Name}, NonTrivial: true}
		var found *hx.Violation
		for _, f := range []func() *hx.Violation{func() *hx.Violation { return stressPass(s, 16, 150) }, func() *hx.Violation { return loadStress(s, 16, 60) },
			func() *hx.Violation {
				for r := 0; r < 40; r++ {
					for _, mode := range []string{"load", "run"} {
						if d := coldRun(s.Name, mode); d != "" {
							return &hx.Violation{Kind: "concurrent-interference", Detail: "cold start (" + mode + "): " + d, Replay: map[string]any{"replay_kind": "cold", "subject": s.Name, "mode": mode}}
						}
					}
				}
				return nil
			}} {
			if v := f(); v != nil {
				v.Kind = "global-state-race"
				v.Detail = fmt.Sprintf("loading/running this model writes the library's package-level variables %v, and concurrent use is disturbed by it: %s", h.Syms, v.Detail)
				found = v
				break
			}
		}
		if found != nil {
			// the confirmation is a free-running (sampled) pass: it is not re-executed; a confirmed interference is real
			c.Note(info, found.Kind, found)
		} else {
			c.Note(info, "ok:global-write-unconfirmed", nil)
			unconfirmed = append(unconfirmed, fmt.Sprintf("%s: %v", s.Name, h.Syms))
		}
	}
	if len(unconfirmed) > 0 {
		c.Extra["global_writes_not_confirmed_as_interference"] = unconfirmed
	}
}

// refusableSubjects: requests the pinned tree refuses although ONNX defines them and the reference computes them (the
// ONNX spelling of activation names). Support for such a request is a typical later addition, and what it adds (a
// registry entry, a cache) is exactly the kind of state concurrent first uses collide on. A Run of these subjects may
// fail; every pass still demands that nothing crashes, nothing shared is written and every result that IS returned
// equals the reference.
func refusableSubjects() []*subject {
	var out []*subject
	f := func(salt int, sh ...int) *ref.T { return recFill(ref.F32, sh, salt) }
	for _, op := range []string{"RNN", "GRU", "LSTM"} {
		ng := map[string]int{"RNN": 1, "GRU": 3, "LSTM": 4}[op]
		acts := map[string][]string{"RNN": {"Tanh"}, "GRU": {"Sigmoid", "Tanh"}, "LSTM": {"Sigmoid", "Tanh", "Tanh"}}[op]
		n := 2
		if op == "LSTM" {
			n = 3
		}
		oc := &hx.OpCase{Op: op, Attrs: []hx.Attr{hx.AInt("hidden_size", 2), hx.AStrs("activations", acts...)}, NOut: n, Route: "model", Dyn: true,
			Inputs: hx.ToTJs([]*ref.T{f(1, 3, 2, 2), f(2, 1, ng*2, 2), f(3, 1, ng*2, 2)}), Init: []bool{false, true, true}}
		model, feed, outNames := hx.SingleNodeModel(oc)
		s := newSubject("refusable:"+op+"[onnx-spelled-activations]", model, feed, outNames, nil, "op="+op, "single-node", "refusable")
		s.MayRefuse = true
		out = append(out, s)
	}
	// PRelu on a rank-0 x (refused on the pinned tree, KF-C10-2), with a slope it can and one it cannot be combined with
	for name, slope := range map[string][]int{"slope()": {}, "slope-not-broadcastable(3)": {3}} {
		oc := &hx.OpCase{Op: "PRelu", NOut: 1, Route: "model", Dyn: true, Inputs: hx.ToTJs([]*ref.T{ref.FromF(ref.F32, []int{}, -1.5), f(2, slope...)}), Init: []bool{false, false}}
		model, feed, outNames := hx.SingleNodeModel(oc)
		if _, err := refRunModel(model, feed); err != nil {
			// the reference refuses the combination as well: the subject then only serves through what a failing call leaves behind
			oc2 := &hx.OpCase{Op: "PRelu", NOut: 1, Route: "model", Dyn: true, Inputs: hx.ToTJs([]*ref.T{ref.FromF(ref.F32, []int{}, -1.5), ref.FromF(ref.F32, []int{}, 0.5)}), Init: []bool{false, false}}
			refM, _, _ := hx.SingleNodeModel(oc2)
			s := newSubject("refusable:PRelu[rank-0-x,"+name+"]", model, feed, nil, nil, "op=PRelu", "single-node", "refusable") // no output is compared
			s.MayRefuse, s.RefModel = true, refM
			s.AlwaysRefused = true
			out = append(out, s)
			continue
		}
		s := newSubject("refusable:PRelu[rank-0-x,"+name+"]", model, feed, outNames, nil, "op=PRelu", "single-node", "refusable")
		s.MayRefuse = true
		out = append(out, s)
	}
	// a node list that is not topologically sorted (ONNX requires the order; an executor may learn to cope)
	{
		mk := func(order []int) []byte {
			nodes := []*onnx.NodeProto{hx.Node("Relu", []string{"x"}, []string{"a"}, nil), hx.Node("Tanh", []string{"x"}, []string{"b"}, nil), hx.Node("Add", []string{"a", "b"}, []string{"c"}, nil), hx.Node("Mul", []string{"c", "w"}, []string{"d"}, nil)}
			g := &onnx.GraphProto{Name: "g", Input: []*onnx.ValueInfoProto{hx.ValueInfo("x", ref.F32, hx.SymbolicDims(2, "n"))},
				Initializer: []*onnx.TensorProto{hx.TensorProto("w", f(9, 3), "raw")},
				Output:      []*onnx.ValueInfoProto{hx.ValueInfoNoShape("d"), hx.ValueInfoNoShape("c"), hx.ValueInfoNoShape("a")}}
			for _, i := range order {
				g.Node = append(g.Node, nodes[i])
			}
			return hx.Marshal(hx.Model(g, 13))
		}
		for name, order := range map[string][]int{"consumer-before-producer": {0, 2, 1, 3}, "reversed": {3, 2, 1, 0}} {
			s := newSubject("refusable:unsorted-nodes["+name+"]", mk(order), map[string]*ref.T{"x": f(1, 2, 3)}, []string{"d", "c", "a"}, nil, "composition", "refusable")
			s.MayRefuse, s.RefModel = true, mk([]int{0, 1, 2, 3})
			out = append(out, s)
		}
	}
	sort.Slice(out, func(i, j int) bool { return out[i].Name < out[j].Name })
	return out
}

func c17AllSubjects(thorough bool) []*subject {
	return append(historySubjects(thorough), refusableSubjects()...)
}

// c17Subjects: all subjects and the exploration subjects (per operator the role assignment with the most shared
// weights that still has a caller input; compositions; samples without ndm).
func c17Subjects(thorough, prepare bool) (subs, expl []*subject) {
	subs = c17AllSubjects(thorough)
	for _, s := range subs {
		if err := s.prepare(); err != nil {
			hx.HarnessError("reference cannot evaluate %s: %v", s.Name, err)
		}
		if prepare {
			s.probeC() // runs the implementation: only in the main check process, never in the cold / global-state ones
		}
	}
	byOp := map[string]*subject{}
	var order []string
	for _, s := range subs {
		key := s.Name
		if i := strings.Index(key, "/init-mask="); i >= 0 {
			key = key[:i]
		}
		if _, ok := byOp[key]; !ok {
			order = append(order, key)
		}
		if len(s.FeedA) > 0 || byOp[key] == nil {
			if cur := byOp[key]; cur == nil || len(cur.FeedA) == 0 || (len(s.FeedA) > 0 && len(s.FeedA) < len(cur.FeedA)) {
				byOp[key] = s
			}
		}
	}
	for _, k := range order {
		if byOp[k].Name == "sample:ndm" {
			continue
		}
		if !thorough && (strings.Contains(k, "[elem=") || strings.Contains(k, "[large")) {
			continue // per-element-type variants: frozen and collector passes in the quick tier, every pass in the thorough tier
		}
		expl = append(expl, byOp[k])
	}
	return subs, expl
}

func checkC17(c *hx.Checker) {
	thorough := c.Tier == "thorough"
	subs, expl := c17Subjects(thorough, true)
	b2, b3 := 2, 1
	if thorough {
		b2, b3 = 3, 2
	}
	c.Rule = fmt.Sprintf("(1) frozen-state pass on %d subjects (every registered operator under every caller-input / initializer role assignment, the compositions, the sample models): weight tensors (header, shape, strides, data) and every repeated scalar field of the model proto are relocated into an mmap arena and mprotect'ed read-only; Run(A), Run(B), Run(C = first row of A: another batch size), Run(A) must complete without a write fault and with the reference outputs. "+
		"(2) interleaving exploration on %d subjects (per operator the role assignment with the most shared weights; compositions; mlp, scaler, gru): cooperative scheduler with scheduling points at thread start, before GetOperator / Init / ValidateInputs / Apply of every node, between consecutive Runs and at thread end; depth-first enumeration of ALL schedules with <= %d preemptions for 2 threads {Run(A);Run(B)} || {Run(failing inside an operator); Run(C = batch-1 feed, or B)} and <= %d preemptions for 3 threads (+ {NewModelFromBytes; Run(A)} on a further model); every thread's outputs must equal the solo result and the shared-state digest must equal the load-time digest after every step. "+
		"(3) supplementary free-running passes: 16 goroutines x 30 Runs on one shared Model (feeds A, B and the batch-1 feed C interleaved, every fifth Run preceded by a call that fails inside an operator), and 8 goroutines x 10 rounds of NewModelFromBytes+Run, per exploration subject, results compared with the solo result; the same bodies (cold start first) in a separately built -race binary: every race report with a gonnx frame is a violation. "+
		"(0) global-state pass in a fresh process (nothing warmed up, no self-check): the bytes of every writable package-level symbol of the library inside the check binary (ELF symbol table; %d symbols) are hashed one level deep (map element counts, leading bytes of pointed-to structs and slice backing arrays) before anything runs and after load+Run of every exploration subject (runtime caches and the protobuf descriptor are excluded by name); a change is escalated to 16x150 Runs + 16x60 loads + 80 cold-start processes and reported only if interference is confirmed. "+
		"(3b) cold-start pass (supplementary): per exploration subject and mode (16 goroutines load+Run / one load then 16 concurrent Runs) fresh processes whose very first use of the library is concurrent; a crash of such a process (e.g. concurrent map writes) or a deviating result is reported. "+
		"(4) collector-in-the-window pass: a second build of the check binary replaces, through go build -overlay, the four places where gorgonia holds an array address as uintptr ((*Dense).Data, array.Data, storage.AsByteSlice, storage.FromMemory) by copies with a full garbage collection inside the window; one fresh process per subject (GODEBUG=clobberfree=1) loads the model and Runs it with every feed: a caller that lets the owning tensor die inside such a window reads clobbered memory or aborts the runtime on every run (instead of once in a few hundred processes). "+
		"states = scheduling points visited, transitions = thread steps executed; non-trivial = every exploration and frozen case", len(subs), len(expl), b2, b3, nGlobals())
	c.Assumptions = []string{"scheduling points are at operator-phase granularity (no hook inside gonnx is needed: Model.GetOperator is an exported field); interleavings inside one phase are covered only for Model-owned state (write trap) and by the supplementary free-running passes",
		"a thread that blocks on synchronisation of the library itself (a lock held by a thread waiting for the baton) is recognised by its goroutine state (parked on a mutex / channel at every 50 ms poll for 400 ms; elapsed time alone never counts) and taken out of the enabled set until it reappears; from then on threads overlap in real time and that execution is no longer deterministic (never the case on the pinned tree, which has no synchronisation)", "the Go memory model's weak behaviours are not modelled (irrelevant once no shared write exists)", "a fault inside a goroutine spawned by gorgonia cannot be recovered and would abort the check process (reported by run.sh as a failure)"}
	// (0) global-state pass (sequential, before any parallel phase): after a warm-up, loading and running a
	// model must not change any package-level variable of the library. A change is an *indicator* (it may be
	// legitimately synchronised); it becomes a violation only when the free-running passes confirm interference.
	globalStatePass(c, expl)
	// (1) frozen pass
	c.ParallelFor(len(subs), func(i int) {
		s := subs[i]
		c.Case(hx.CaseInfo{ID: "frozen/" + s.Name, Tags: append([]string{"frozen"}, s.Tags...), NonTrivial: true}, func() *hx.Violation {
			runtime.LockOSThread()
			defer runtime.UnlockOSThread()
			if v := frozenPass(s); v != nil {
				return v
			}
			return hx.OK("frozen-clean")
		})
	})
	// (2) interleaving exploration
	var mu sync.Mutex
	var execs, points, maxPts int64
	c.ParallelFor(len(expl), func(i int) {
		s := expl[i]
		for _, cfg := range []struct{ threads, bound int }{{2, b2}, {3, b3}} {
			id := fmt.Sprintf("explore/%s/threads=%d/preemptions<=%d", s.Name, cfg.threads, cfg.bound)
			var sample any
			if i%9 == 0 {
				sample = map[string]any{"subject": s.Name, "threads": cfg.threads, "preemption_bound": cfg.bound}
			}
			c.Case(hx.CaseInfo{ID: id, Tags: append([]string{"explore", fmt.Sprintf("threads=%d", cfg.threads)}, s.Tags...), NonTrivial: true, Sample: sample}, func() *hx.Violation {
				h := newSchedHarness(s, cfg.threads)
				// determinism: one schedule replayed twice must give identical observations
				sc1, b1 := h.fresh()
				x1 := sc1.Run(b1, nil)
				if v := h.judge(x1, sc1); v != nil {
					return v
				}
				sc2, bb := h.fresh()
				x2 := sc2.Run(bb, x1.Choices)
				if fmt.Sprint(x1.Threads) != fmt.Sprint(x2.Threads) {
					return &hx.Violation{Kind: "nondeterministic-replay", Detail: fmt.Sprintf("replaying %v gave %v", x1.Threads, x2.Threads)}
				}
				var viol *hx.Violation
				var pts int64
				ex := &explore.Explorer{Bound: cfg.bound, NewBodies: func() (*explore.Sched, []func()) { return h.fresh() }, Limit: 200000,
					Check: func(x *explore.Exec, sc *explore.Sched) bool {
						pts += int64(len(x.Points))
						if v := h.judge(x, sc); v != nil {
							viol = v
							return false
						}
						return true
					}}
				ex.Explore(nil)
				mu.Lock()
				execs += int64(ex.Executions)
				points += pts
				if int64(ex.MaxPoints) > maxPts {
					maxPts = int64(ex.MaxPoints)
				}
				if ex.Capped {
					c.Capped = true
				}
				if ex.Diverged > 0 {
					c.Extra["schedules_abandoned_after_real_blocking"] = ex.Diverged
				}
				mu.Unlock()
				if viol != nil {
					return viol
				}
				return hx.OK("all-schedules-equivalent")
			})
		}
	})
	c.Extra["executions"] = execs
	c.Extra["max_scheduling_points_per_execution"] = maxPts
	c.AddStates(points)
	c.AddTransitions(points)
	c.AddTraces(execs)
	// (3) free-running passes; first the cold-start one: fresh processes whose first use of the library is concurrent
	reps := 4
	if thorough {
		reps = 12
	}
	coldPass(c, expl, reps, "all")
	c.ParallelFor(len(expl), func(i int) {
		s := expl[i]
		info := hx.CaseInfo{ID: "stress/" + s.Name, Tags: append([]string{"stress"}, s.Tags...), NonTrivial: true}
		// free-running (sampled) pass: not re-executed; an observed interference is real
		if v := stressPass(s, 16, 30); v != nil {
			c.Note(info, v.Kind, v)
			return
		}
		if v := loadStress(s, 8, 10); v != nil {
			c.Note(info, v.Kind, v)
			return
		}
		c.Note(info, "ok:stress-clean", nil)
	})
	racePass(c)
	gcwPass(c, subs)
}

// gcwBin: the overlay build in which gorgonia's four uintptr windows contain a forced collection (tools/gcw_overlay.py).
func gcwBin() string {
	if b := os.Getenv("VERIF_GCW_BIN"); b != "" {
		return b // run.sh builds it next to the plain binary, against the same repository tree
	}
	return hx.VerifDir() + "/bin/mc-gcw"
}

var gcwEnv = []string{"GODEBUG=clobberfree=1"}

func init() {
	replayers["gcw"] = func(raw json.RawMessage) *hx.Violation {
		var r struct {
			Subject string `json:"subject"`
		}
		json.Unmarshal(raw, &r)
		if d := coldRunWith(gcwBin(), gcwEnv, r.Subject, "gcw"); d != "" {
			return &hx.Violation{Kind: "dangling-storage", Detail: d}
		}
		return nil
	}
}

// gcwPass (4): the garbage collector as an environment the harness decides. gorgonia v0.9.24 passes array addresses
// around as uintptr in four places ((*Dense).Data, array.Data, storage.AsByteSlice, storage.FromMemory); a caller that
// lets the owning tensor die before the call returns has its array collected when a collection's stack scan falls into
// that window - once in a few hundred processes in free-running tests. The overlay build puts a full collection into
// every such window, and with GODEBUG=clobberfree=1 freed memory is overwritten: a result computed from a dangling
// array differs from the reference (or the runtime aborts with "found pointer to free object") on EVERY run. One fresh
// process per subject: load, Run with every feed, compare.
func gcwPass(c *hx.Checker, subs []*subject) {
	bin := gcwBin()
	if _, err := os.Stat(bin); err != nil {
		c.Extra["gc_window_pass"] = "skipped: bin/mc-gcw not built"
		return
	}
	c.ParallelFor(len(subs), func(i int) {
		s := subs[i]
		info := hx.CaseInfo{ID: "gc-window/" + s.Name, Tags: append([]string{"gc-window"}, s.Tags...), NonTrivial: true}
		if d := coldRunWith(bin, gcwEnv, s.Name, "gcw"); d != "" {
			c.Note(info, "dangling-storage", &hx.Violation{Kind: "dangling-storage",
				Detail: "with a garbage collection inside every window in which gorgonia holds an array address as uintptr (overlay build, GODEBUG=clobberfree=1), load + Run of this model: " + d,
				Replay: map[string]any{"replay_kind": "gcw", "subject": s.Name}})
			return
		}
		c.Note(info, "ok:gc-window-clean", nil)
	})
	c.Extra["gc_window_pass"] = fmt.Sprintf("ran on %d subjects", len(subs))
}

// racePass runs the free-running bodies in the separately built -race binary (bin/mc-race).
func racePass(c *hx.Checker) {
	bin := hx.VerifDir() + "/bin/mc-race"
	if b := os.Getenv("VERIF_RACE_BIN"); b != "" {
		bin = b // run.sh builds it next to the plain binary, against the same repository tree
	}
	if _, err := os.Stat(bin); err != nil {
		c.Extra["race_pass"] = "skipped: bin/mc-race not built"
		return
	}
	cmd := exec.Command(bin, "c17-race")
	cmd.Env = append(os.Environ(), "GORACE=halt_on_error=0 exitcode=0")
	out, err := cmd.CombinedOutput()
	text := string(out)
	n := strings.Count(text, "WARNING: DATA RACE")
	c.Extra["race_pass"] = fmt.Sprintf("ran, exit=%v, race reports=%d", err, n)
	if n == 0 {
		c.Note(hx.CaseInfo{ID: "race/free-running", Tags: []string{"race"}, NonTrivial: true}, "ok:race-clean", nil)
		return
	}
	// keep only reports whose stacks touch gonnx code
	reports := strings.Split(text, "WARNING: DATA RACE")
	sort.Strings(reports)
	for i, r := range reports[1:] {
		if !strings.Contains(r, "advancedclimatesystems/gonnx") {
			continue
		}
		c.Note(hx.CaseInfo{ID: fmt.Sprintf("race/report-%d", i), Tags: []string{"race"}, NonTrivial: true}, "data-race",
			&hx.Violation{Kind: "data-race", Detail: "race detector report with gonnx frames: " + truncateS(strings.Join(strings.Fields(r), " "), 1500), Replay: map[string]any{"replay_kind": "stress", "subject": "sample:mlp"}})
		return
	}
}

// c17RaceMain is the body of `mc c17-race` (meant for the -race build).
func c17RaceMain() {
	subs := c17AllSubjects(false)
	// cold start first: the very first use of the library in this process is 8 goroutines loading + running at once
	for _, s := range subs {
		if s.Name == "sample:gru" && s.prepare() == nil {
			if v := loadStress(s, 8, 3); v != nil {
				fmt.Printf("STRESS-VIOLATION %s: %s\n", s.Name, v.Detail)
			}
		}
	}
	for _, s := range subs {
		if strings.Contains(s.Name, "/init-mask=") && !strings.HasSuffix(s.Name, "=10") && !strings.HasSuffix(s.Name, "=110") && !strings.HasSuffix(s.Name, "=0") {
			continue
		}
		if err := s.prepare(); err != nil {
			continue
		}
		if v := stressPass(s, 8, 10); v != nil {
			fmt.Printf("STRESS-VIOLATION %s: %s\n", s.Name, v.Detail)
		}
	}
}
