package main

import (
	"fmt"

	"verifmc/hx"
	"verifmc/ref"
)

// refEval evaluates one node with the reference interpreter (inputs may contain nil = absent).
func refEval(op string, attrs []hx.Attr, in []*ref.T) ([]*ref.T, error) {
	geti := func(name string, def int64) int64 {
		for _, a := range attrs {
			if a.Name == name {
				return a.I
			}
		}
		return def
	}
	getf := func(name string, def float32) float32 {
		for _, a := range attrs {
			if a.Name == name {
				return a.Float()
			}
		}
		return def
	}
	getis := func(name string) ([]int64, bool) {
		for _, a := range attrs {
			if a.Name == name {
				return a.Ints, true
			}
		}
		return nil, false
	}
	getfs := func(name string) []float32 {
		for _, a := range attrs {
			if a.Name == name {
				return a.FloatList()
			}
		}
		return nil
	}
	toInts := func(v []int64) []int {
		if v == nil {
			return nil
		}
		o := make([]int, len(v))
		for i, x := range v {
			o[i] = int(x)
		}
		return o
	}
	at := func(i int) *ref.T {
		if i < len(in) {
			return in[i]
		}
		return nil
	}
	i64s := func(t *ref.T) []int64 {
		o := make([]int64, len(t.V))
		for i, v := range t.V {
			o[i] = int64(v)
		}
		return o
	}
	one := func(t *ref.T, e error) ([]*ref.T, error) {
		if e != nil {
			return nil, e
		}
		return []*ref.T{t}, nil
	}
	switch op {
	case "Add", "Sub", "Mul", "Div", "Equal", "Greater", "GreaterOrEqual", "Less", "LessOrEqual", "And", "Or", "Xor":
		return one(ref.Binary(op, in[0], in[1]))
	case "Abs", "Relu", "Sigmoid", "Tanh", "Sin", "Cos", "Tan", "Asin", "Acos", "Atan", "Sinh", "Cosh", "Asinh", "Acosh", "Atanh", "Not":
		return one(ref.Unary(op, in[0]))
	case "PRelu":
		return one(ref.PRelu(in[0], in[1]))
	case "MatMul":
		return one(ref.MatMul(in[0], in[1]))
	case "Gemm":
		return one(ref.Gemm(in[0], in[1], at(2), getf("alpha", 1), getf("beta", 1), geti("transA", 0) != 0, geti("transB", 0) != 0))
	case "Concat":
		return one(ref.Concat(in, int(geti("axis", 0))))
	case "Flatten":
		return one(ref.Flatten(in[0], int(geti("axis", 1))))
	case "Transpose":
		p, ok := getis("perm")
		return one(ref.Transpose(in[0], p, ok))
	case "Reshape":
		return one(ref.Reshape(in[0], i64s(in[1])))
	case "Squeeze":
		if at(1) == nil {
			return one(ref.Squeeze(in[0], nil, false))
		}
		return one(ref.Squeeze(in[0], i64s(in[1]), true))
	case "Unsqueeze":
		return one(ref.Unsqueeze(in[0], i64s(in[1])))
	case "Shape":
		return []*ref.T{ref.ShapeOf(in[0])}, nil
	case "Slice":
		st, en := i64s(in[1]), i64s(in[2])
		specs := make([]ref.SliceSpec, len(st))
		for i := range st {
			specs[i] = ref.SliceSpec{Start: st[i], End: en[i], Step: 1, Axis: int64(i)}
			if at(3) != nil {
				specs[i].Axis = i64s(in[3])[i]
			}
			if at(4) != nil {
				specs[i].Step = i64s(in[4])[i]
			}
		}
		return one(ref.Slice(in[0], specs))
	case "Gather":
		return one(ref.Gather(in[0], in[1], int(geti("axis", 0))))
	case "Expand":
		return one(ref.Expand(in[0], i64s(in[1])))
	case "Softmax", "LogSoftmax":
		return one(ref.Softmax(in[0], int(geti("axis", -1)), op == "LogSoftmax"))
	case "ArgMax":
		return one(ref.ArgMax(in[0], int(geti("axis", 0)), geti("keepdims", 1) != 0))
	case "ReduceMax", "ReduceMin":
		ax, ok := getis("axes")
		return one(ref.Reduce(in[0], ax, ok, geti("keepdims", 1) != 0, op == "ReduceMax"))
	case "Conv":
		a := ref.ConvAttrs{Group: int(geti("group", 0))}
		for _, atr := range attrs {
			switch atr.Name {
			case "strides":
				a.Strides = toInts(atr.Ints)
			case "pads":
				a.Pads = toInts(atr.Ints)
			case "dilations":
				a.Dilations = toInts(atr.Ints)
			case "kernel_shape":
				a.Kernel = toInts(atr.Ints)
			case "auto_pad":
				a.AutoPad = atr.S
			}
		}
		return one(ref.Conv(in[0], in[1], at(2), a))
	case "Scaler":
		return one(ref.Scaler(in[0], getfs("offset"), getfs("scale")))
	case "LinearRegressor":
		return one(ref.LinearRegressor(in[0], getfs("coefficients"), getfs("intercepts"), int(geti("targets", 1))))
	case "Constant":
		for _, a := range attrs {
			switch a.Name {
			case "value":
				return []*ref.T{a.T.T()}, nil
			case "value_float":
				return []*ref.T{ref.FromF(ref.F32, []int{}, float64(a.F))}, nil
			case "value_floats":
				t := ref.New(ref.F32, len(a.FloatList()))
				for i, f := range a.FloatList() {
					t.V[i] = ref.EncF(ref.F32, float64(f))
				}
				return []*ref.T{t}, nil
			case "value_int":
				return []*ref.T{ref.FromI(ref.I64, []int{}, a.I)}, nil
			case "value_ints":
				return []*ref.T{ref.I64Vec(a.Ints...)}, nil
			}
		}
		return nil, ref.Invalid("constant without value")
	case "ConstantOfShape":
		val := ref.FromF(ref.F32, []int{1}, 0)
		for _, a := range attrs {
			if a.Name == "value" {
				val = a.T.T()
			}
		}
		dims := i64s(in[0])
		sh := make([]int, len(dims))
		for i, d := range dims {
			if d < 1 {
				return nil, ref.Invalid("bad extent")
			}
			sh[i] = int(d)
		}
		out := ref.New(val.DT, sh...)
		for i := range out.V {
			out.V[i] = val.V[0]
		}
		return []*ref.T{out}, nil
	case "Cast":
		to, ok := hx.RefDTOfOnnx(int32(geti("to", 0)))
		if !ok {
			return nil, ref.Invalid("cast target")
		}
		out := ref.New(to, in[0].Shape...)
		for i, v := range in[0].V {
			o, ok := ref.CastElem(in[0].DT, to, v)
			if !ok {
				return nil, ref.Invalid("value out of range for cast")
			}
			out.V[i] = o
		}
		return []*ref.T{out}, nil
	case "RNN", "GRU", "LSTM":
		ra := ref.RecAttrs{Hidden: int(geti("hidden_size", 0)), LBR: geti("linear_before_reset", 0) != 0, InputForget: geti("input_forget", 0) != 0}
		for _, a := range attrs {
			if a.Name == "activations" {
				ra.Activations = a.Strs
			}
		}
		if at(4) != nil {
			return nil, ref.Invalid("sequence_lens not modelled")
		}
		return ref.Recurrent(op, in[0], in[1], in[2], at(3), at(5), at(6), at(7), ra)
	}
	return nil, fmt.Errorf("refEval: operator %s not modelled", op)
}
