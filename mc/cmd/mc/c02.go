package main

import (
	"encoding/binary"
	"encoding/json"
	"fmt"
	"hash/fnv"
	"math"
	"runtime/debug"
	"sort"
	"strings"

	gonnx "github.com/advancedclimatesystems/gonnx"
	"github.com/advancedclimatesystems/gonnx/onnx"
	"google.golang.org/protobuf/proto"
	"gorgonia.org/tensor"
	"verifmc/hx"
	"verifmc/ref"
)

// C02 — Run is history-independent and never modifies caller tensors or weights (history explorer, E3).

func init() {
	register("C02", "model_checking", checkC02)
	replayers["history"] = func(raw json.RawMessage) *hx.Violation {
		var r struct {
			Subject string `json:"subject"`
			Seq     []int  `json:"seq"`
		}
		if err := json.Unmarshal(raw, &r); err != nil {
			return &hx.Violation{Kind: "bad-replay", Detail: err.Error()}
		}
		for _, s := range historySubjects(true) {
			if s.Name == r.Subject {
				v, _, _ := s.runHistory(r.Seq)
				return v
			}
		}
		return &hx.Violation{Kind: "bad-replay", Detail: "unknown subject " + r.Subject}
	}
}

// subject: one model + two input sets + (optionally) a state-feedback wiring.
type subject struct {
	Name  string
	Model []byte
	FeedA map[string]*ref.T
	FeedB map[string]*ref.T
	Chain map[string]string // output name -> input name fed by it in a chained Run
	Outs  []string
	Tags  []string
	expA  map[string]*ref.T
	expB  map[string]*ref.T
	cmp   hx.Cmp
	// FeedC: the first row (axis 0) of every caller tensor of A that has rank >= 2 - another batch / sequence size.
	// nil when the reference cannot evaluate the model on it (then it is not used).
	FeedC map[string]*ref.T
	expC  map[string]*ref.T
	// Model2: the same graph with other float weights (nil when the subject has no float initializer); exp2 = its
	// reference outputs on feed A. Loading and running it next to the subject must not disturb either.
	Model2 []byte
	exp2   map[string]*ref.T
	// MayRefuse: a request the pinned tree refuses although the reference computes it (C17 only): a Run may fail;
	// when it does not, its outputs are judged like any other, and nothing it does may disturb concurrent Runs.
	MayRefuse bool
	// RefModel: when non-nil, the graph the reference evaluates instead of Model (the same nodes in an order the
	// sequential reference evaluator can follow)
	RefModel []byte
	// AlwaysRefused: a request no implementation can honour (the reference refuses it too): it is only there for what
	// the failing call leaves behind; should it be computed, the outputs are not compared
	AlwaysRefused bool
}

// otherWeights returns the model with every float32 initializer replaced by v*0.5+0.25 (nil if there is none).
func otherWeights(model []byte) []byte {
	mp := &onnx.ModelProto{}
	if err := proto.Unmarshal(model, mp); err != nil || mp.Graph == nil {
		return nil
	}
	changed := false
	for _, init := range mp.Graph.Initializer {
		if init.DataType != int32(onnx.TensorProto_FLOAT) {
			continue
		}
		if len(init.RawData) > 0 && len(init.RawData)%4 == 0 {
			raw := append([]byte{}, init.RawData...)
			for i := 0; i+4 <= len(raw); i += 4 {
				v := math.Float32frombits(binary.LittleEndian.Uint32(raw[i:]))
				binary.LittleEndian.PutUint32(raw[i:], math.Float32bits(v*0.5+0.25))
			}
			init.RawData, changed = raw, true
		}
		for i, v := range init.FloatData {
			init.FloatData[i], changed = v*0.5+0.25, true
		}
	}
	if !changed {
		return nil
	}
	b, err := proto.Marshal(mp)
	if err != nil {
		return nil
	}
	return b
}

// oddFeed: feed A with its first caller tensor (sorted by name) one element longer on the last axis.
func (s *subject) oddFeed() map[string]*ref.T {
	var ks []string
	for k := range s.FeedA {
		ks = append(ks, k)
	}
	sort.Strings(ks)
	f := map[string]*ref.T{}
	for i, k := range ks {
		f[k] = s.FeedA[k]
		if i == 0 {
			sh := append([]int{}, s.FeedA[k].Shape...)
			if len(sh) == 0 {
				sh = []int{2}
			} else {
				sh[len(sh)-1]++
			}
			f[k] = perturb(&ref.T{DT: s.FeedA[k].DT, Shape: sh, V: make([]uint64, ref.NElem(sh))}, 53)
		}
	}
	return f
}

const (
	opRunA = iota
	opRunB
	opRunFreshA
	opRunFailRank
	opRunFailMissing
	opRunChain
	opRefillA
	opRunOddFirst
	opRunOddLast
	opScribbleOutputs
	opOtherModel
	nHistOps
)

var histOpNames = []string{"Run(A)", "Run(B)", "Run(fresh copy of A)", "RunFail(wrong rank)", "RunFail(missing input)", "Run(outputs of previous Run fed back)",
	"caller overwrites the contents of A in place (A <-> B values)", "Run(A with its first tensor one longer on the last axis; outcome not judged)", "Run(A with its last tensor one longer on the last axis; outcome not judged)", "caller overwrites the contents of the tensors the previous Run returned", "a second model (same graph, other weights) is loaded and Run(A)"}

func sameShapes(a, b map[string]*ref.T) bool {
	if len(a) != len(b) {
		return false
	}
	for k, t := range a {
		u, ok := b[k]
		if !ok || u.DT != t.DT || !ref.ShapeEq(u.Shape, t.Shape) {
			return false
		}
	}
	return true
}

func (s *subject) applicable() []int {
	ops := []int{opRunA, opRunB, opRunFreshA}
	if len(s.FeedA) > 0 {
		ops = append(ops, opRunFailRank, opRunFailMissing)
	} else {
		ops = []int{opRunA}
	}
	if len(s.Chain) > 0 {
		ops = append(ops, opRunChain)
	}
	if len(s.FeedA) > 0 {
		if sameShapes(s.FeedA, s.FeedB) {
			ops = append(ops, opRefillA)
		}
		ops = append(ops, opRunOddFirst)
		if len(s.FeedA) > 1 {
			ops = append(ops, opRunOddLast)
		}
	}
	ops = append(ops, opScribbleOutputs)
	if s.Model2 != nil {
		ops = append(ops, opOtherModel)
	}
	return ops
}

func perturb(t *ref.T, salt int) *ref.T {
	if t == nil {
		return nil
	}
	if t.DT == ref.F32 || t.DT == ref.F64 {
		return recFill(t.DT, t.Shape, salt)
	}
	if t.DT == ref.Bool {
		o := t.Clone()
		for i := range o.V {
			o.V[i] ^= uint64((i + salt) & 1)
		}
		return o
	}
	return t.Clone() // index / shape operands keep their values
}

func digestOf(parts ...uint64) uint64 {
	h := fnv.New64a()
	var b [8]byte
	for _, p := range parts {
		for k := 0; k < 8; k++ {
			b[k] = byte(p >> (8 * k))
		}
		h.Write(b[:])
	}
	return h.Sum64()
}

func sortedKeys(m map[string]tensor.Tensor) []string {
	var ks []string
	for k := range m {
		ks = append(ks, k)
	}
	sort.Strings(ks)
	return ks
}

// runHistory executes one operation sequence on a freshly loaded model. Returns the first violation,
// the set of state digests visited and the number of transitions.
func (s *subject) runHistory(seq []int) (v *hx.Violation, states map[uint64]bool, transitions int) {
	states = map[uint64]bool{}
	mk := func(kind, detail string) *hx.Violation {
		return &hx.Violation{Kind: kind, Detail: detail, Replay: map[string]any{"replay_kind": "history", "subject": s.Name, "seq": seq, "ops": seqNames(seq)}}
	}
	defer func() {
		if p := recover(); p != nil {
			v = mk("panic", fmt.Sprintf("%v :: %s", p, firstLines(string(debug.Stack()), 14)))
		}
	}()
	m, err := gonnx.NewModelFromBytes(s.Model)
	if err != nil {
		return mk("refused", "model does not load: "+err.Error()), states, 0
	}
	declaredIn := map[string]bool{} // outputs that the graph also declares as inputs (passed through to the caller as they are)
	for _, n := range m.InputNames() {
		declaredIn[n] = true
	}
	TA, TB := gonnx.Tensors{}, gonnx.Tensors{}
	for k, t := range s.FeedA {
		TA[k] = hx.ToG(t)
	}
	for k, t := range s.FeedB {
		TB[k] = hx.ToG(t)
	}
	snapAll := func() (map[string]hx.Snap, uint64) {
		sn := map[string]hx.Snap{}
		var parts []uint64
		for _, k := range sortedKeys(TA) {
			sn["A."+k] = hx.Snapshot(TA[k])
			parts = append(parts, sn["A."+k].Digest())
		}
		for _, k := range sortedKeys(TB) {
			sn["B."+k] = hx.Snapshot(TB[k])
			parts = append(parts, sn["B."+k].Digest())
		}
		params := m.VerifParameters()
		for _, k := range sortedKeys(params) {
			sn["W."+k] = hx.Snapshot(params[k])
			parts = append(parts, sn["W."+k].Digest())
		}
		pb, _ := proto.MarshalOptions{Deterministic: true}.Marshal(m.VerifModelProto())
		h := fnv.New64a()
		h.Write(pb)
		parts = append(parts, h.Sum64())
		return sn, digestOf(parts...)
	}
	base, d0 := snapAll()
	states[d0] = true
	var lastOuts, lastFeed gonnx.Tensors
	var lastExp, lastEFeed, curEFeed map[string]*ref.T
	firstBits := map[string][]*ref.T{}
	outcomeOK := map[string]bool{} // MayRefuse subjects: feed label -> the request was computed (true) / refused (false)
	aHolds := "A"                  // which value set the caller's A tensor objects currently carry
	for step, op := range seq {
		transitions++
		var feed gonnx.Tensors
		var exp map[string]*ref.T
		wantErr, unjudged := false, false
		label := ""
		if op == opOtherF64 || op == opOtherI32 {
			// the request with every float32 caller tensor handed over in another element type: mostly refused (by the
			// gate or inside the operator), sometimes computed; its outcome is not judged, what it leaves behind is
			to := ref.F64
			if op == opOtherI32 {
				to = ref.I32
			}
			feed = gonnx.Tensors{}
			any := false
			for k, t := range s.FeedA {
				if t.DT == ref.F32 {
					feed[k] = hx.ToG(ref.Fill(to, t.Shape, func(i int) float64 { return math.Round(t.F(i) * 4) }))
					any = true
				} else {
					feed[k] = TA[k]
				}
			}
			if !any {
				continue
			}
			unjudged = true
		}
		if op >= oddBase {
			ks := sortedKeys(TA)
			ti, ax := (op-oddBase)/8, (op-oddBase)%8
			if ti >= len(ks) || ax >= len(s.FeedA[ks[ti]].Shape) {
				continue
			}
			feed = gonnx.Tensors{}
			for _, k := range ks {
				feed[k] = TA[k]
			}
			sh := append([]int{}, s.FeedA[ks[ti]].Shape...)
			sh[ax]++
			feed[ks[ti]] = hx.ToG(perturb(&ref.T{DT: s.FeedA[ks[ti]].DT, Shape: sh, V: make([]uint64, ref.NElem(sh))}, 57))
			unjudged = true
		}
		if op == opOtherModel {
			// another model in the same process: it must compute ITS result, and leave this one alone (snapshots
			// below via the next steps; its own outputs here)
			m2, err := gonnx.NewModelFromBytes(s.Model2)
			if err != nil {
				return mk("refused", fmt.Sprintf("step %d (%s) of %v: the second model does not load: %v", step, histOpName(op), seqNames(seq), err)), states, transitions
			}
			f2 := gonnx.Tensors{}
			for k, t := range s.FeedA {
				f2[k] = hx.ToG(t)
			}
			o2, err := m2.Run(f2)
			if err != nil && s.MayRefuse {
				o2, err = nil, nil // refused on the pinned tree: nothing to compare, what the call left behind is judged below
			}
			if err != nil {
				return mk("history-dependent", fmt.Sprintf("step %d (%s) of %v: Run on the second model failed: %v", step, histOpName(op), seqNames(seq), err)), states, transitions
			}
			for _, o := range s.Outs {
				if o2 == nil {
					break
				}
				rt, e := hx.FromG(o2[o])
				if e != nil || rt == nil {
					return mk("nil-output", fmt.Sprintf("step %d (%s) of %v: output %q of the second model nil/unreadable", step, histOpName(op), seqNames(seq), o)), states, transitions
				}
				if k, d := hx.CompareT(rt, s.exp2[o], s.cmp); k != "" {
					return mk("history-dependent", fmt.Sprintf("step %d (%s) of %v: output %q of the second model (other weights) differs from its reference value: %s", step, histOpName(op), seqNames(seq), o, d)), states, transitions
				}
			}
			now, d := snapAll()
			states[d] = true
			for k, b := range base {
				if diff := b.Diff(now[k]); diff != "" {
					return mk("mutated-weight", fmt.Sprintf("step %d (%s) of %v: %s changed while another model was loaded and run: %s", step, histOpName(op), seqNames(seq), k, diff)), states, transitions
				}
			}
			continue
		}
		if op == opScribbleOutputs {
			// the tensors a Run returned belong to the caller: overwriting them must not reach the model or later Runs
			// (an output that is a caller input passed through is the caller's own tensor: skipped)
			if lastOuts == nil {
				continue
			}
			for _, o := range sortedKeys(lastOuts) {
				t := lastOuts[o]
				if t == nil {
					continue
				}
				own := false
				for _, in := range TA {
					if in == t {
						own = true
					}
				}
				for _, in := range TB {
					if in == t {
						own = true
					}
				}
				if own && declaredIn[o] {
					continue // the graph declares one of its inputs as an output: that IS the caller's tensor
				}
				// otherwise a result that is (or shares storage with) a tensor the caller passed in is not the caller's
				// to lose: overwriting the result then shows as a changed input below
				if rt, e := hx.FromG(t); e == nil {
					for i := range rt.V {
						rt.V[i] = ^rt.V[i] & (1<<uint(rt.DT.Bits()) - 1)
						if rt.DT == ref.Bool {
							rt.V[i] &= 1
						}
					}
					hx.RefillG(t, rt)
				}
			}
			lastOuts = nil // they no longer hold a Run's result: nothing to feed back
			now, d := snapAll()
			states[d] = true
			for k, b := range base {
				if diff := b.Diff(now[k]); diff != "" {
					kind := "mutated-input"
					if k[0] == 'W' {
						kind = "mutated-weight"
					}
					return mk(kind, fmt.Sprintf("step %d (%s) of %v: %s changed when the caller overwrote a returned tensor (the output aliases it): %s", step, histOpName(op), seqNames(seq), k, diff)), states, transitions
				}
			}
			if d != d0 {
				return mk("mutated-weight", fmt.Sprintf("step %d (%s) of %v: the model proto changed when the caller overwrote a returned tensor (the output aliases the model's bytes)", step, histOpName(op), seqNames(seq))), states, transitions
			}
			continue
		}
		switch op {
		case opRefillA:
			src := s.FeedB
			if aHolds == "B" {
				src = s.FeedA
			}
			for k, t := range TA {
				if !hx.RefillG(t, src[k]) {
					hx.HarnessError("cannot refill caller tensor %s of %s in place", k, s.Name)
				}
			}
			if aHolds == "A" {
				aHolds = "B"
			} else {
				aHolds = "A"
			}
			if lastFeed != nil {
				// the previous successful Run's data tensors that are A objects now carry the new values
				ne := map[string]*ref.T{}
				for k, v := range lastEFeed {
					ne[k] = v
					if lastFeed[k] == TA[k] {
						ne[k] = src[k]
					}
				}
				lastEFeed = ne
			}
			base, d0 = snapAll() // the caller changed its own tensors: new baseline for them
			states[d0] = true
			continue
		case opRunOddFirst, opRunOddLast:
			ks := sortedKeys(TA)
			pick := ks[0]
			if op == opRunOddLast {
				pick = ks[len(ks)-1]
			}
			feed = gonnx.Tensors{}
			for _, k := range ks {
				feed[k] = TA[k]
			}
			sh := append([]int{}, s.FeedA[pick].Shape...)
			if len(sh) == 0 {
				sh = []int{2}
			} else {
				sh[len(sh)-1]++
			}
			feed[pick] = hx.ToG(perturb(&ref.T{DT: s.FeedA[pick].DT, Shape: sh, V: make([]uint64, ref.NElem(sh))}, 53))
			unjudged = true
		case opRunA:
			feed, exp, label, curEFeed = TA, s.expA, "A", s.FeedA
			if aHolds == "B" {
				exp, label, curEFeed = s.expB, "B", s.FeedB
			}
		case opRunB:
			feed, exp, label, curEFeed = TB, s.expB, "B", s.FeedB
		case opRunFreshA:
			feed = gonnx.Tensors{}
			for k, t := range s.FeedA {
				feed[k] = hx.ToG(t)
			}
			exp, label, curEFeed = s.expA, "A", s.FeedA
		case opRunFailRank:
			feed = gonnx.Tensors{}
			first := true
			for _, k := range sortedKeys(TA) {
				feed[k] = TA[k]
				if first {
					first = false
					sh := append([]int{1}, s.FeedA[k].Shape...)
					feed[k] = hx.ToG(ref.Distinct(s.FeedA[k].DT, sh))
				}
			}
			wantErr = true
		case opRunFailMissing:
			feed = gonnx.Tensors{}
			for i, k := range sortedKeys(TA) {
				if i > 0 {
					feed[k] = TA[k]
				}
			}
			wantErr = true
		case opRunChain:
			if lastOuts == nil {
				continue // nothing to feed back yet: the step is a no-op
			}
			feed = gonnx.Tensors{}
			efeed := map[string]*ref.T{}
			for k, t := range lastFeed { // same data inputs as the previous successful Run, states fed back
				feed[k] = t
				efeed[k] = lastEFeed[k]
			}
			for o, in := range s.Chain {
				feed[in] = lastOuts[o] // the very tensor object Run returned
				efeed[in] = lastExp[o]
			}
			exp, err = refRunModel(s.Model, efeed)
			if err != nil {
				hx.HarnessError("reference cannot evaluate chained run of %s: %v", s.Name, err)
			}
			curEFeed = efeed
		}
		var outs gonnx.Tensors
		var rerr error
		if unjudged {
			// whether this call succeeds (the operator copes with the other extent) or fails somewhere inside an
			// operator is not judged; what it may have left behind is (snapshots below, later calls)
			func() {
				defer func() { recover() }()
				m.Run(feed)
			}()
		} else {
			outs, rerr = m.Run(feed)
		}
		where := fmt.Sprintf("step %d (%s) of %v", step, histOpName(op), seqNames(seq))
		if unjudged {
		} else if wantErr {
			if rerr == nil && !s.MayRefuse {
				return mk("not-refused", where+": failing call succeeded"), states, transitions
			}
			if outs != nil && rerr != nil {
				return mk("outputs-with-error", where+": outputs returned with an error"), states, transitions
			}
		} else {
			if s.MayRefuse {
				// a request the pinned tree refuses although it is well defined: refusing is fine, but the outcome must not
				// depend on what happened before (computed once = computed always, refused once = refused always)
				if prev, seen := outcomeOK[label]; seen && label != "" && prev != (rerr == nil) {
					return mk("history-dependent", fmt.Sprintf("%s: the same request was %s earlier in this history and is %s now (%v)", where, map[bool]string{true: "computed", false: "refused"}[prev], map[bool]string{true: "computed", false: "refused"}[rerr == nil], rerr)), states, transitions
				}
				if label != "" {
					outcomeOK[label] = rerr == nil
				}
				if rerr != nil {
					lastOuts = nil // nothing to compare; what the refused call left behind is judged below like after every operation
				}
			}
			if rerr != nil && !s.MayRefuse {
				return mk("history-dependent", fmt.Sprintf("%s: Run failed: %v (a freshly loaded model computes it)", where, rerr)), states, transitions
			}
			var got []*ref.T
			for _, o := range s.Outs {
				if rerr != nil {
					break
				}
				t, ok := outs[o]
				if !ok || t == nil {
					return mk("nil-output", fmt.Sprintf("%s: output %q missing or nil", where, o)), states, transitions
				}
				rt, e := hx.FromG(t)
				if e != nil {
					return mk("unreadable-output", where+": "+e.Error()), states, transitions
				}
				got = append(got, rt)
				if k, d := hx.CompareT(rt, exp[o], s.cmp); k != "" {
					return mk("history-dependent", fmt.Sprintf("%s: output %q differs from the reference value for these inputs: %s", where, o, d)), states, transitions
				}
			}
			if label != "" && rerr == nil {
				if fb, ok := firstBits[label]; ok {
					for i := range got {
						if k, d := hx.CompareT(got[i], fb[i], hx.Bits); k != "" {
							return mk("history-dependent", fmt.Sprintf("%s: output %q is not bit-identical to the first Run on the same input values: %s", where, s.Outs[i], d)), states, transitions
						}
					}
				} else {
					firstBits[label] = got
				}
			}
			if rerr == nil {
				lastOuts, lastExp, lastFeed, lastEFeed = outs, exp, feed, curEFeed
			}
		}
		now, d := snapAll()
		states[d] = true
		for k, b := range base {
			if diff := b.Diff(now[k]); diff != "" {
				kind := "mutated-input"
				if k[0] == 'W' {
					kind = "mutated-weight"
				}
				return mk(kind, fmt.Sprintf("%s: %s changed: %s", where, k, diff)), states, transitions
			}
		}
		if len(now) != len(base) {
			return mk("mutated-weight", where+": the set of model parameters changed"), states, transitions
		}
		if d != d0 {
			return mk("mutated-weight", where+": the model proto changed (marshalled bytes differ from load time)"), states, transitions
		}
	}
	return nil, states, transitions
}

// operations >= oddBase: Run(A with caller tensor number (code-oddBase)/8 (sorted by name) one element longer on axis
// (code-oddBase)%8); the outcome of that call is not judged.
const oddBase = 100

// operations 90 / 91: Run(A with its float32 tensors converted to float64 / int32); outcome not judged.
const (
	opOtherF64 = 90
	opOtherI32 = 91
)

func histOpName(op int) string {
	if op == opOtherF64 {
		return "Run(A with its float32 tensors as float64; outcome not judged)"
	}
	if op == opOtherI32 {
		return "Run(A with its float32 tensors as int32; outcome not judged)"
	}
	if op >= oddBase {
		return fmt.Sprintf("Run(A with caller tensor #%d one longer on axis %d; outcome not judged)", (op-oddBase)/8, (op-oddBase)%8)
	}
	return histOpNames[op]
}

func seqNames(seq []int) []string {
	o := make([]string, len(seq))
	for i, s := range seq {
		o[i] = histOpName(s)
	}
	return o
}

func newSubject(name string, model []byte, feedA map[string]*ref.T, outs []string, chain map[string]string, tags ...string) *subject {
	s := &subject{Name: name, Model: model, FeedA: feedA, FeedB: map[string]*ref.T{}, Outs: outs, Chain: chain, Tags: tags, cmp: hx.Tol(2e-4, 2e-4)}
	i := 0
	var ks []string
	for k := range feedA {
		ks = append(ks, k)
	}
	sort.Strings(ks)
	for _, k := range ks {
		s.FeedB[k] = perturb(feedA[k], 31+i)
		i++
	}
	return s
}

func (s *subject) prepare() error {
	var err error
	if s.AlwaysRefused {
		s.expA, s.expB = map[string]*ref.T{}, map[string]*ref.T{}
		return nil
	}
	rm := s.Model
	if s.RefModel != nil {
		rm = s.RefModel
	}
	if s.expA, err = refRunModel(rm, s.FeedA); err != nil {
		return err
	}
	if s.expB, err = refRunModel(rm, s.FeedB); err != nil {
		return err
	}
	if s.RefModel != nil {
		return nil
	}
	if m2 := otherWeights(s.Model); m2 != nil {
		if e2, err2 := refRunModel(m2, s.FeedA); err2 == nil {
			s.Model2, s.exp2 = m2, e2
		}
	}
	return nil
}

// probeC fills FeedC / expC. It runs the implementation once, sequentially - callers that need a process in which
// the library has not been used yet (cold-start and global-state passes of C17) must not call it.
func (s *subject) probeC() {
	if !(strings.Contains(s.Name, "/init-mask=") || strings.HasPrefix(s.Name, "self:")) {
		return
	}
	c := map[string]*ref.T{}
	changed := false
	for k, t := range s.FeedA {
		c[k] = t
		if len(t.Shape) >= 2 && t.Shape[0] > 1 {
			if r, e := ref.Slice(t, []ref.SliceSpec{{Start: 0, End: 1, Step: 1, Axis: 0}}); e == nil {
				c[k], changed = r, true
			}
		}
	}
	if !changed {
		return
	}
	e, cerr := refRunModel(s.Model, c)
	if cerr != nil {
		return
	}
	// used only where a sequential Run agrees with the reference on it (an extent-1 axis can run into findings
	// recorded under other properties, e.g. Slice dropping it: not this property's concern)
	res := hx.RunModelBytes(s.Model, c, s.Outs)
	if res.Err != nil || res.Panic != "" || res.ReadErr != "" {
		return
	}
	for i, o := range s.Outs {
		if k, _ := hx.CompareT(res.Outs[i], e[o], s.cmp); k != "" {
			return
		}
	}
	s.FeedC, s.expC = c, e
}

// historySubjects builds every model the history explorer quantifies over.
func historySubjects(all bool) []*subject {
	var out []*subject
	// (i) every registered operator, every role assignment of its tensor inputs
	for ri, rc := range repCases() {
		var pos []int
		for i, t := range rc.Inputs {
			if t != nil {
				pos = append(pos, i)
			}
		}
		var masks []int
		if len(pos) <= 3 {
			for m := 0; m < 1<<len(pos); m++ {
				masks = append(masks, m)
			}
		} else { // X stays a caller input; the others: none / all / each single one as initializer, and all-but-one
			fullRest := (1<<len(pos) - 1) &^ 1
			masks = append(masks, 0, fullRest)
			for k := 1; k < len(pos); k++ {
				masks = append(masks, 1<<k, fullRest&^(1<<k))
			}
		}
		for _, mask := range masks {
			// tensors of element types the model file cannot carry (complex, string) stay caller inputs
			skip := false
			for k, pidx := range pos {
				if dt := rc.Inputs[pidx].DT; mask&(1<<k) != 0 && (dt == ref.C64 || dt == ref.C128 || dt == ref.Str) {
					skip = true
				}
			}
			if skip {
				continue
			}
			oc := rc.opCase()
			oc.Route = "model"
			oc.Dyn = true // symbolic dims: a tensor of another extent reaches the operator instead of being stopped by the signature check
			oc.Init = make([]bool, len(rc.Inputs))
			for k, p := range pos {
				if mask&(1<<k) != 0 {
					oc.Init[p] = true
				}
			}
			model, feed, outNames := hx.SingleNodeModel(oc)
			var chain map[string]string
			if (rc.Op == "RNN" || rc.Op == "GRU" || rc.Op == "LSTM") && len(rc.Inputs) > 5 && !oc.Init[5] {
				chain = map[string]string{"out1": "in5"}
				if rc.Op == "LSTM" && !oc.Init[6] {
					chain["out2"] = "in6"
				}
			}
			out = append(out, newSubject(fmt.Sprintf("op%d:%s/init-mask=%b", ri, rc.id(), mask), model, feed, outNames, chain, "op="+rc.Op, "single-node"))
		}
	}
	// (ii) compositions where a node produces what the next consumes in a mutable role
	{
		g := &onnx.GraphProto{Name: "g", Input: []*onnx.ValueInfoProto{hx.ValueInfo("x", ref.F32, hx.FixedDims([]int{3, 2, 2}))},
			Initializer: []*onnx.TensorProto{hx.TensorProto("W", recFill(ref.F32, []int{1, 6, 2}, 2), "raw"), hx.TensorProto("R", recFill(ref.F32, []int{1, 6, 2}, 3), "raw"), hx.TensorProto("hshape", ref.I64Vec(1, 2, 2), "raw")},
			Node: []*onnx.NodeProto{hx.Node("ConstantOfShape", []string{"hshape"}, []string{"h0"}, []hx.Attr{hx.ATensor("value", ref.FromF(ref.F32, []int{1}, 0.25), "raw")}),
				hx.Node("GRU", []string{"x", "W", "R", "", "", "h0"}, []string{"Y", "Yh"}, []hx.Attr{hx.AInt("hidden_size", 2)})},
			Output: []*onnx.ValueInfoProto{hx.ValueInfoNoShape("Y"), hx.ValueInfoNoShape("Yh"), hx.ValueInfoNoShape("h0")}}
		out = append(out, newSubject("comp:ConstantOfShape->GRU.initial_h", hx.Marshal(hx.Model(g, 13)), map[string]*ref.T{"x": recFill(ref.F32, []int{3, 2, 2}, 1)}, []string{"Y", "Yh", "h0"}, nil, "composition"))
		g2 := &onnx.GraphProto{Name: "g", Input: []*onnx.ValueInfoProto{hx.ValueInfo("x", ref.F32, hx.FixedDims([]int{2, 2, 3, 3}))},
			Initializer: []*onnx.TensorProto{hx.TensorProto("W", recFill(ref.F32, []int{3, 2, 2, 2}, 2), "raw")},
			Node: []*onnx.NodeProto{hx.Node("Constant", nil, []string{"bias"}, []hx.Attr{hx.ATensor("value", recFill(ref.F32, []int{3}, 5), "typed")}),
				hx.Node("Conv", []string{"x", "W", "bias"}, []string{"y"}, nil), hx.Node("ArgMax", []string{"y"}, []string{"am"}, []hx.Attr{hx.AInt("axis", 1), hx.AInt("keepdims", 1)})},
			Output: []*onnx.ValueInfoProto{hx.ValueInfoNoShape("y"), hx.ValueInfoNoShape("bias"), hx.ValueInfoNoShape("am")}}
		out = append(out, newSubject("comp:Constant->Conv.bias->ArgMax", hx.Marshal(hx.Model(g2, 13)), map[string]*ref.T{"x": recFill(ref.F32, []int{2, 2, 3, 3}, 1)}, []string{"y", "bias", "am"}, nil, "composition"))
	}
	// (ii-b) one caller tensor / one weight wired to several inputs of a node
	for _, so := range []struct {
		op    string
		attrs []hx.Attr
		n     int
	}{{"Gemm", []hx.Attr{hx.AInt("transA", 1)}, 2}, {"Gemm", []hx.Attr{hx.AInt("transB", 1)}, 3}, {"MatMul", nil, 2}, {"Add", nil, 2}, {"Mul", nil, 2}, {"Sub", nil, 2}, {"Concat", []hx.Attr{hx.AInt("axis", 0)}, 3}, {"PRelu", nil, 2}} {
		for _, asInit := range []bool{false, true} {
			ins := make([]string, so.n)
			for i := range ins {
				ins[i] = "x"
			}
			g := &onnx.GraphProto{Name: "g", Node: []*onnx.NodeProto{hx.Node(so.op, ins, []string{"y"}, so.attrs)}, Output: []*onnx.ValueInfoProto{hx.ValueInfoNoShape("y")}}
			feed := map[string]*ref.T{}
			if asInit {
				g.Initializer = append(g.Initializer, hx.TensorProto("x", recFill(ref.F32, []int{2, 2}, 4), "raw"))
			} else {
				g.Input = append(g.Input, hx.ValueInfo("x", ref.F32, hx.SymbolicDims(2, "d")))
				feed["x"] = recFill(ref.F32, []int{2, 2}, 4)
			}
			out = append(out, newSubject(fmt.Sprintf("self:%s%v(x,x..)/init=%v", so.op, len(so.attrs), asInit), hx.Marshal(hx.Model(g, 13)), feed, []string{"y"}, nil, "op="+so.op, "self-operand"))
		}
	}
	// (iii) the repository's sample models; B uses another batch size
	{
		mlp := loadSample("mlp")
		s := newSubject("sample:mlp", mlp.Bytes, map[string]*ref.T{"data_input": recFill(ref.F32, []int{2, 3}, 1)}, []string{"preds"}, nil, "sample")
		s.FeedB = map[string]*ref.T{"data_input": recFill(ref.F32, []int{3, 3}, 8)}
		out = append(out, s)
		sc := loadSample("scaler")
		s2 := newSubject("sample:scaler", sc.Bytes, map[string]*ref.T{"X": recFill(ref.F32, []int{2, 3}, 1)}, []string{"variable"}, nil, "sample")
		s2.FeedB = map[string]*ref.T{"X": recFill(ref.F32, []int{1, 3}, 8)}
		out = append(out, s2)
		gr := loadSample("gru")
		s3 := newSubject("sample:gru", gr.Bytes, map[string]*ref.T{"data_input": recFill(ref.F32, []int{2, 3, 3}, 1), "init_hidden": recFill(ref.F32, []int{1, 2, 5}, 2)}, []string{"preds", "hidden_out"}, map[string]string{"hidden_out": "init_hidden"}, "sample")
		s3.FeedB = map[string]*ref.T{"data_input": recFill(ref.F32, []int{3, 2, 3}, 7), "init_hidden": recFill(ref.F32, []int{1, 3, 5}, 9)}
		out = append(out, s3)
		if all {
			nd := loadSample("ndm")
			s4 := newSubject("sample:ndm", nd.Bytes, map[string]*ref.T{"sensor_input": recFill(ref.F32, []int{2, 4, 4}, 1), "setpoint_input": recFill(ref.F32, []int{2, 1}, 2)}, []string{"optimal_supply_temp"}, nil, "sample", "ndm")
			s4.FeedB = map[string]*ref.T{"sensor_input": recFill(ref.F32, []int{1, 3, 4}, 5), "setpoint_input": recFill(ref.F32, []int{1, 1}, 6)}
			out = append(out, s4)
		}
	}
	return out
}

func checkC02(c *hx.Checker) {
	thorough := c.Tier == "thorough"
	depth := 4
	if thorough {
		depth = 5
	}
	c.Rule = fmt.Sprintf("subjects: (i) every registered operator as a single-node model under every role assignment of its tensor inputs (caller input / initializer; for operators with > 3 tensor inputs: none, all, each single one, all-but-one as initializer), (ii) compositions ConstantOfShape->GRU.initial_h and Constant->Conv.bias->ArgMax, and nodes whose inputs all name one and the same caller tensor / weight (Gemm{transA}, Gemm{transB}, MatMul, Add, Mul, Sub, Concat, PRelu), (iii) sample models mlp, scaler, gru (thorough: + ndm). "+
		"history alphabet on ONE loaded Model with persistent caller tensor objects A and B (B = other values; other batch size for the sample models): Run(A), Run(B), Run(fresh copy of A), RunFail(wrong rank), RunFail(missing input), Run(state outputs of the previous Run fed back as the very same tensor objects), the caller overwriting the contents of the A tensor objects in place (A then carries B's values and vice versa), Run with the first / last caller tensor one element longer on its last axis (single-node models declare symbolic dims, so the call reaches the operator and typically fails inside it; its outcome is not judged), the caller overwriting the contents of the tensors the previous Run returned (they are the caller's; nothing of the model may alias them), loading a second model with the same graph and other weights and running it (it must return ITS reference result and leave the first model alone); additionally every caller tensor x every axis made one element longer, embedded in 5-7 short histories per (tensor, axis). "+
		"ALL sequences of depth < %d over the whole alphabet and all sequences of depth %d over the alphabet without the one-longer calls, the overwritten outputs and the second model are executed, each on a freshly loaded model. After every operation: outputs equal the reference evaluation of the model for these inputs AND are bit-identical to the first Run on the same values in this history; deep snapshots (shape, strides, dtype, flags, every element bit) of A, B and of every weight tensor plus the marshalled model proto equal their load-time value. "+
		"states = distinct (weights + proto + caller tensors) digests observed (1 per subject when the property holds, 2 with the caller's own in-place refill), transitions = operations executed; non-trivial = histories with >= 2 operations", depth, depth)
	c.Assumptions = []string{"oracle for output values: reference interpreter over the same model bytes (refmodel.go), so state leaking through package-level variables cannot contaminate the expectation",
		"digest-based pruning is NOT used: a defect may keep its state where the digest cannot see it"}
	subs := append(historySubjects(thorough), refusableSubjects()...)
	checkRepCoverage(repCases())
	type job struct {
		s   *subject
		seq []int
	}
	var jobs []job
	for _, s := range subs {
		if err := s.prepare(); err != nil {
			hx.HarnessError("reference cannot evaluate subject %s: %v", s.Name, err)
		}
		ops := s.applicable()
		alpha := make([]int64, len(ops))
		for i, o := range ops {
			alpha[i] = int64(o)
		}
		d := depth
		if s.Name == "sample:ndm" {
			d = 2
		}
		if strings.Contains(s.Name, "[large") {
			d = 2 // large operands: short histories (every ordered pair of operations); 3 in the thorough tier
			if thorough {
				d = 3
			}
		}
		if !thorough && strings.Contains(s.Name, "[elem=") {
			d = depth - 1 // the per-element-type variants of an operator's first case: one level less in the quick tier
		}
		if thorough && (strings.HasPrefix(s.Name, "sample:") || strings.HasPrefix(s.Name, "comp:")) && s.Name != "sample:ndm" {
			d = 6
		}
		// the whole alphabet up to depth d-1; at depth d the operations that only matter through what follows them
		// within a short distance (one-longer calls, overwritten outputs, the second model) are left out
		var core []int64
		for _, o := range alpha {
			switch int(o) {
			case opRunOddFirst, opRunOddLast, opScribbleOutputs, opOtherModel:
			default:
				core = append(core, o)
			}
		}
		all := seqs(alpha, 1, d-1)
		all = append(all, seqs(core, d, d)...)
		if strings.Contains(s.Name, "[large") {
			all = seqs(alpha, 1, d) // few levels: no operation is left out at the last one
		}
		for _, sq := range all {
			seq := make([]int, len(sq))
			for i, x := range sq {
				seq[i] = int(x)
			}
			jobs = append(jobs, job{s, seq})
		}
		// the request in another element type, embedded in short histories
		for _, o := range []int{opOtherF64, opOtherI32} {
			for _, h := range [][]int{{o, opRunA}, {opRunA, o, opRunA}, {opRunB, o, opRunB}, {o, o, opRunB}, {o, opRunFreshA, opRunA}} {
				jobs = append(jobs, job{s, h})
			}
		}
		// every caller tensor x every axis made one element longer (with symbolic dims the call reaches the operator
		// and fails - or succeeds - somewhere inside it), embedded in short histories
		var ks []string
		for k := range s.FeedA {
			ks = append(ks, k)
		}
		sort.Strings(ks)
		for ti, k := range ks {
			for ax := range s.FeedA[k].Shape {
				o := oddBase + ti*8 + ax
				hs := [][]int{{o, opRunA}, {opRunA, o, opRunA}, {opRunB, o, opRunB}, {opRunA, o, opRunFreshA}, {o, o, opRunB}}
				if sameShapes(s.FeedA, s.FeedB) {
					hs = append(hs, []int{o, opRefillA, opRunA}, []int{opRunA, opRefillA, o, opRunA})
				}
				for _, h := range hs {
					jobs = append(jobs, job{s, h})
				}
			}
		}
	}
	c.Extra["subjects"] = len(subs)
	var stateCount, transCount int64
	stateSets := make([]map[uint64]bool, len(jobs))
	trans := make([]int, len(jobs))
	c.ParallelFor(len(jobs), func(i int) {
		j := jobs[i]
		id := fmt.Sprintf("%s/%v", j.s.Name, j.seq)
		var sample any
		if i%4000 == 7 {
			sample = map[string]any{"subject": j.s.Name, "history": seqNames(j.seq)}
		}
		c.Case(hx.CaseInfo{ID: id, Tags: j.s.Tags, NonTrivial: len(j.seq) >= 2, Sample: sample}, func() *hx.Violation {
			v, st, tr := j.s.runHistory(j.seq)
			stateSets[i], trans[i] = st, tr
			if v == nil {
				cls := "plain"
				for _, o := range j.seq {
					switch o {
					case opRunFailRank, opRunFailMissing, opRunOddFirst, opRunOddLast:
						cls = "with-failing-calls"
					default:
						if o >= oddBase {
							cls = "with-failing-calls"
						}
					case opRefillA:
						if cls == "plain" {
							cls = "with-refilled-caller-tensors"
						}
					case opRunChain:
						cls = "with-fed-back-state"
					}
				}
				if len(j.seq) == 1 {
					cls = "single-call"
				}
				return hx.OK("history-independent/" + cls)
			}
			return v
		})
	})
	perSubject := map[string]map[uint64]bool{}
	for i, j := range jobs {
		if perSubject[j.s.Name] == nil {
			perSubject[j.s.Name] = map[uint64]bool{}
		}
		for d := range stateSets[i] {
			perSubject[j.s.Name][d] = true
		}
		transCount += int64(trans[i])
	}
	for _, st := range perSubject {
		stateCount += int64(len(st))
	}
	c.AddStates(stateCount)
	c.AddTransitions(transCount)
	c.AddTraces(int64(len(jobs)))
}
