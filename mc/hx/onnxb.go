package hx

import (
	"encoding/binary"
	"fmt"
	"math"

	"github.com/advancedclimatesystems/gonnx/onnx"
	"google.golang.org/protobuf/proto"
	"verifmc/ref"
)

// ---- attributes (JSON-able description -> proto) -------------------------------------

// Attr is a serialisable attribute description.
type Attr struct {
	Name   string    `json:"name"`
	Kind   string    `json:"kind"` // int ints float floats string strings tensor
	I      int64     `json:"i,omitempty"`
	Ints   []int64   `json:"ints,omitempty"`
	F      float32   `json:"f,omitempty"`
	Floats []float32 `json:"floats,omitempty"`
	S      string    `json:"s,omitempty"`
	Strs   []string  `json:"strs,omitempty"`
	T      *TJ       `json:"t,omitempty"`
	TEnc   string    `json:"tenc,omitempty"` // raw | typed
	// bit patterns of F / Floats (authoritative when present: JSON cannot carry NaN, Inf or -0)
	FBits      uint32   `json:"f_bits,omitempty"`
	FloatsBits []uint32 `json:"floats_bits,omitempty"`
}

func finite32(v float32) float32 {
	if v != v || v > math.MaxFloat32 || v < -math.MaxFloat32 {
		return 0
	}
	return v
}

// Key is a collision-free textual key of the attribute (bit patterns for floats).
func (a Attr) Key() string {
	t := ""
	if a.T != nil {
		t = MustJSON(a.T)
	}
	return fmt.Sprintf("%s|%s|%d|%v|%x|%x|%q|%q|%s|%s", a.Name, a.Kind, a.I, a.Ints, a.fbits(), a.floatsBits(), a.S, a.Strs, t, a.TEnc)
}

func AttrsKey(as []Attr) string {
	k := ""
	for _, a := range as {
		k += a.Key() + ";"
	}
	return k
}

// Float / FloatList: the attribute's value(s), exact (from the bit patterns when recorded).
func (a Attr) Float() float32 { return math.Float32frombits(a.fbits()) }
func (a Attr) FloatList() []float32 {
	b := a.floatsBits()
	out := make([]float32, len(b))
	for i, x := range b {
		out[i] = math.Float32frombits(x)
	}
	return out
}

func (a Attr) fbits() uint32 {
	if a.FBits != 0 {
		return a.FBits
	}
	return math.Float32bits(a.F)
}

func (a Attr) floatsBits() []uint32 {
	if a.FloatsBits != nil {
		return a.FloatsBits
	}
	out := make([]uint32, len(a.Floats))
	for i, f := range a.Floats {
		out[i] = math.Float32bits(f)
	}
	return out
}

func AInt(name string, v int64) Attr     { return Attr{Name: name, Kind: "int", I: v} }
func AInts(name string, v ...int64) Attr { return Attr{Name: name, Kind: "ints", Ints: v} }
func AFloat(name string, v float32) Attr {
	return Attr{Name: name, Kind: "float", F: finite32(v), FBits: math.Float32bits(v)}
}
func AFloats(name string, v ...float32) Attr {
	a := Attr{Name: name, Kind: "floats"}
	for _, f := range v {
		a.Floats = append(a.Floats, finite32(f))
		a.FloatsBits = append(a.FloatsBits, math.Float32bits(f))
	}
	return a
}
func AStr(name string, v string) Attr     { return Attr{Name: name, Kind: "string", S: v} }
func AStrs(name string, v ...string) Attr { return Attr{Name: name, Kind: "strings", Strs: v} }
func ATensor(name string, t *ref.T, enc string) Attr {
	return Attr{Name: name, Kind: "tensor", T: ToTJ(t), TEnc: enc}
}

func (a Attr) Proto() *onnx.AttributeProto {
	p := &onnx.AttributeProto{Name: a.Name}
	switch a.Kind {
	case "int":
		p.Type = onnx.AttributeProto_INT
		p.I = a.I
	case "ints":
		p.Type = onnx.AttributeProto_INTS
		p.Ints = a.Ints
	case "float":
		p.Type = onnx.AttributeProto_FLOAT
		p.F = math.Float32frombits(a.fbits())
	case "floats":
		p.Type = onnx.AttributeProto_FLOATS
		for _, b := range a.floatsBits() {
			p.Floats = append(p.Floats, math.Float32frombits(b))
		}
	case "string":
		p.Type = onnx.AttributeProto_STRING
		p.S = []byte(a.S)
	case "strings":
		p.Type = onnx.AttributeProto_STRINGS
		for _, s := range a.Strs {
			p.Strings = append(p.Strings, []byte(s))
		}
	case "tensor":
		p.Type = onnx.AttributeProto_TENSOR
		if a.T != nil {
			p.T = TensorProto("", a.T.T(), a.TEnc)
		}
	default:
		panic("hx: bad attr kind " + a.Kind)
	}
	return p
}

func AttrProtos(as []Attr) []*onnx.AttributeProto {
	out := make([]*onnx.AttributeProto, len(as))
	for i, a := range as {
		out[i] = a.Proto()
	}
	return out
}

// ---- tensors --------------------------------------------------------------------------

var onnxDT = map[ref.DT]onnx.TensorProto_DataType{
	ref.F32: onnx.TensorProto_FLOAT, ref.U8: onnx.TensorProto_UINT8, ref.I8: onnx.TensorProto_INT8,
	ref.U16: onnx.TensorProto_UINT16, ref.I16: onnx.TensorProto_INT16, ref.I32: onnx.TensorProto_INT32,
	ref.I64: onnx.TensorProto_INT64, ref.Bool: onnx.TensorProto_BOOL, ref.F64: onnx.TensorProto_DOUBLE,
	ref.U32: onnx.TensorProto_UINT32, ref.U64: onnx.TensorProto_UINT64,
	ref.Str: onnx.TensorProto_STRING, ref.C64: onnx.TensorProto_COMPLEX64, ref.C128: onnx.TensorProto_COMPLEX128,
}

func OnnxDT(d ref.DT) int32 { return int32(onnxDT[d]) }

func RefDTOfOnnx(code int32) (ref.DT, bool) {
	for k, v := range onnxDT {
		if int32(v) == code {
			return k, true
		}
	}
	return 0, false
}

// RawBytes is the little-endian raw_data encoding of t.
func RawBytes(t *ref.T) []byte {
	w := t.DT.Bits() / 8
	out := make([]byte, 0, w*len(t.V))
	var buf [8]byte
	for _, v := range t.V {
		binary.LittleEndian.PutUint64(buf[:], v)
		out = append(out, buf[:w]...)
	}
	return out
}

// TensorProto encodes t with the "raw" or "typed" encoding.
func TensorProto(name string, t *ref.T, enc string) *onnx.TensorProto {
	p := &onnx.TensorProto{Name: name, DataType: OnnxDT(t.DT)}
	for _, d := range t.Shape {
		p.Dims = append(p.Dims, int64(d))
	}
	if enc != "typed" {
		p.RawData = RawBytes(t)
		return p
	}
	switch t.DT {
	case ref.F32:
		for _, v := range t.V {
			p.FloatData = append(p.FloatData, math.Float32frombits(uint32(v)))
		}
	case ref.F64:
		for _, v := range t.V {
			p.DoubleData = append(p.DoubleData, math.Float64frombits(v))
		}
	case ref.I64:
		for _, v := range t.V {
			p.Int64Data = append(p.Int64Data, int64(v))
		}
	case ref.U32, ref.U64:
		p.Uint64Data = append(p.Uint64Data, t.V...)
	case ref.I8, ref.I16, ref.I32, ref.U8, ref.U16, ref.Bool:
		for _, v := range t.V {
			p.Int32Data = append(p.Int32Data, int32(int64(v)))
		}
	default:
		p.RawData = RawBytes(t)
	}
	return p
}

// ---- value infos / models -------------------------------------------------------------

// DimSpec: >0 fixed, 0 unspecified (no value), <0 symbolic with name.
type DimSpec struct {
	Fixed      int64  `json:"fixed,omitempty"`
	Param      string `json:"param,omitempty"`
	EmptyParam bool   `json:"empty_param,omitempty"` // dim_param present but "" (an unnamed symbolic dimension)
	Denotation string `json:"denotation,omitempty"`  // the optional ONNX dimension denotation (DATA_BATCH, ...): a label, never a size
}

func ValueInfo(name string, dt ref.DT, dims []DimSpec) *onnx.ValueInfoProto {
	sh := &onnx.TensorShapeProto{}
	for _, d := range dims {
		dim := &onnx.TensorShapeProto_Dimension{}
		switch {
		case d.EmptyParam:
			dim.Value = &onnx.TensorShapeProto_Dimension_DimParam{DimParam: ""}
		case d.Param != "":
			dim.Value = &onnx.TensorShapeProto_Dimension_DimParam{DimParam: d.Param}
		case d.Fixed > 0:
			dim.Value = &onnx.TensorShapeProto_Dimension_DimValue{DimValue: d.Fixed}
		}
		dim.Denotation = d.Denotation
		sh.Dim = append(sh.Dim, dim)
	}
	return &onnx.ValueInfoProto{Name: name, Type: &onnx.TypeProto{Value: &onnx.TypeProto_TensorType{
		TensorType: &onnx.TypeProto_Tensor{ElemType: OnnxDT(dt), Shape: sh}}}}
}

func FixedDims(shape []int) []DimSpec {
	out := make([]DimSpec, len(shape))
	for i, s := range shape {
		out[i] = DimSpec{Fixed: int64(s)}
	}
	return out
}

// ValueInfoTypeOnly declares name and element type but no shape.
func ValueInfoTypeOnly(name string, dt ref.DT) *onnx.ValueInfoProto {
	return &onnx.ValueInfoProto{Name: name, Type: &onnx.TypeProto{Value: &onnx.TypeProto_TensorType{
		TensorType: &onnx.TypeProto_Tensor{ElemType: OnnxDT(dt)}}}}
}

// SymbolicDims: every axis symbolic with its own name.
func SymbolicDims(rank int, prefix string) []DimSpec {
	out := make([]DimSpec, rank)
	for i := range out {
		out[i] = DimSpec{Param: fmt.Sprintf("%s%d", prefix, i)}
	}
	return out
}

// ValueInfoNoShape declares only a name (no type) - used for outputs.
func ValueInfoNoShape(name string) *onnx.ValueInfoProto { return &onnx.ValueInfoProto{Name: name} }

func Node(op string, inputs, outputs []string, attrs []Attr) *onnx.NodeProto {
	return &onnx.NodeProto{OpType: op, Input: inputs, Output: outputs, Attribute: AttrProtos(attrs)}
}

func Model(g *onnx.GraphProto, opset int64) *onnx.ModelProto {
	return &onnx.ModelProto{IrVersion: 7, Graph: g, OpsetImport: []*onnx.OperatorSetIdProto{{Domain: "", Version: opset}}}
}

func Marshal(m *onnx.ModelProto) []byte {
	b, err := proto.Marshal(m)
	if err != nil {
		panic(fmt.Sprintf("hx: marshal: %v", err))
	}
	return b
}
