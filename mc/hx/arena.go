package hx

import (
	"fmt"
	"reflect"
	"syscall"
	"unsafe"

	"github.com/advancedclimatesystems/gonnx/onnx"
	"gorgonia.org/tensor"
)

// Arena is an anonymous mmap region into which shared state (tensor headers, their shape / stride /
// data arrays, repeated scalar fields of the model proto) is relocated and then write-protected.
// Any write into it faults; with debug.SetPanicOnFault(true) the fault is a recoverable panic
// carrying the writer's stack: the hardware write trap of the schedule explorer.
type Arena struct {
	mem    []byte
	off    int
	keep   []any // originals, kept reachable for the GC (the arena itself is not scanned)
	frozen bool
}

func NewArena(size int) (*Arena, error) {
	size = (size + 4095) &^ 4095
	mem, err := syscall.Mmap(-1, 0, size, syscall.PROT_READ|syscall.PROT_WRITE, syscall.MAP_ANON|syscall.MAP_PRIVATE)
	if err != nil {
		return nil, err
	}
	return &Arena{mem: mem}, nil
}

func (a *Arena) alloc(n int) unsafe.Pointer {
	a.off = (a.off + 15) &^ 15
	if a.off+n > len(a.mem) {
		panic(fmt.Sprintf("hx.Arena: out of space (%d + %d > %d)", a.off, n, len(a.mem)))
	}
	p := unsafe.Pointer(&a.mem[a.off])
	a.off += n
	if n == 0 {
		a.off += 16
	}
	return p
}

func (a *Arena) Freeze() error {
	a.frozen = true
	return syscall.Mprotect(a.mem, syscall.PROT_READ)
}

func (a *Arena) Thaw() error {
	a.frozen = false
	return syscall.Mprotect(a.mem, syscall.PROT_READ|syscall.PROT_WRITE)
}

func (a *Arena) Close() {
	if a.mem != nil {
		syscall.Mprotect(a.mem, syscall.PROT_READ|syscall.PROT_WRITE)
		syscall.Munmap(a.mem)
		a.mem = nil
	}
}

// Contains reports whether addr lies inside the arena.
func (a *Arena) Contains(addr uintptr) bool {
	if len(a.mem) == 0 {
		return false
	}
	base := uintptr(unsafe.Pointer(&a.mem[0]))
	return addr >= base && addr < base+uintptr(len(a.mem))
}

// relocSlice copies the backing array of the slice stored at slicePtr (any element type) into the
// arena and rewrites the slice header in place.
func (a *Arena) relocSlice(slicePtr unsafe.Pointer, elemSize uintptr) {
	h := (*[3]uintptr)(slicePtr)
	ptr, ln := h[0], h[1]
	if ptr == 0 {
		return
	}
	n := int(uintptr(ln) * elemSize)
	dst := a.alloc(n)
	if n > 0 {
		copy(unsafe.Slice((*byte)(dst), n), unsafe.Slice((*byte)(unsafe.Pointer(ptr)), n))
	}
	h[0], h[2] = uintptr(dst), ln // cap = len: appends reallocate instead of writing past the end
}

// FreezeDense relocates a *tensor.Dense (header, shape, strides, data) into the arena and returns
// the relocated tensor. The original stays alive (referenced by the arena) but is no longer used.
func (a *Arena) FreezeDense(d *tensor.Dense) *tensor.Dense {
	a.keep = append(a.keep, d)
	size := int(unsafe.Sizeof(*d))
	p := a.alloc(size)
	copy(unsafe.Slice((*byte)(p), size), unsafe.Slice((*byte)(unsafe.Pointer(d)), size))
	nd := (*tensor.Dense)(p)
	v := reflect.ValueOf(nd).Elem()
	ap := v.FieldByName("AP")
	for _, name := range []string{"shape", "strides"} {
		f := ap.FieldByName(name)
		a.relocSlice(unsafe.Pointer(f.UnsafeAddr()), unsafe.Sizeof(int(0)))
	}
	old := v.FieldByName("old")
	for _, name := range []string{"shape", "strides"} {
		f := old.FieldByName(name)
		a.relocSlice(unsafe.Pointer(f.UnsafeAddr()), unsafe.Sizeof(int(0)))
	}
	raw := v.FieldByName("array").FieldByName("Header").FieldByName("Raw")
	a.relocSlice(unsafe.Pointer(raw.UnsafeAddr()), 1)
	tw := v.FieldByName("transposeWith")
	a.relocSlice(unsafe.Pointer(tw.UnsafeAddr()), unsafe.Sizeof(int(0)))
	mask := v.FieldByName("mask")
	a.relocSlice(unsafe.Pointer(mask.UnsafeAddr()), 1)
	return nd
}

// FreezeTensors replaces every *tensor.Dense of the map by its relocated copy.
func (a *Arena) FreezeTensors(m map[string]tensor.Tensor) {
	for k, t := range m {
		if d, ok := t.(*tensor.Dense); ok {
			m[k] = a.FreezeDense(d)
		}
	}
}

// FreezeTensorProto relocates the repeated scalar fields of a TensorProto.
func (a *Arena) FreezeTensorProto(tp *onnx.TensorProto) {
	if tp == nil {
		return
	}
	a.keep = append(a.keep, tp)
	a.relocSlice(unsafe.Pointer(&tp.Dims), 8)
	a.relocSlice(unsafe.Pointer(&tp.FloatData), 4)
	a.relocSlice(unsafe.Pointer(&tp.Int32Data), 4)
	a.relocSlice(unsafe.Pointer(&tp.Int64Data), 8)
	a.relocSlice(unsafe.Pointer(&tp.DoubleData), 8)
	a.relocSlice(unsafe.Pointer(&tp.Uint64Data), 8)
	a.relocSlice(unsafe.Pointer(&tp.RawData), 1)
}

// FreezeProto relocates every repeated scalar field of the graph that operators may wrap in tensors
// (initializers, node attribute payloads).
func (a *Arena) FreezeProto(mp *onnx.ModelProto) {
	if mp == nil || mp.Graph == nil {
		return
	}
	for _, init := range mp.Graph.Initializer {
		a.FreezeTensorProto(init)
	}
	for _, n := range mp.Graph.Node {
		for _, at := range n.Attribute {
			if at == nil {
				continue
			}
			a.keep = append(a.keep, at)
			a.relocSlice(unsafe.Pointer(&at.Floats), 4)
			a.relocSlice(unsafe.Pointer(&at.Ints), 8)
			a.FreezeTensorProto(at.T)
			for _, t := range at.Tensors {
				a.FreezeTensorProto(t)
			}
		}
	}
}

// ArenaSizeFor estimates the space needed for a model.
func ArenaSizeFor(params map[string]tensor.Tensor, protoSize int) int {
	n := 1 << 16
	for _, t := range params {
		n += 4096 + int(t.DataSize())*int(t.Dtype().Size()) + 64*len(t.Shape())
	}
	return n + 4*protoSize
}
