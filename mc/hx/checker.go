package hx

import (
	"encoding/json"
	"fmt"
	"os"
	"path/filepath"
	"runtime"
	"sort"
	"strconv"
	"strings"
	"sync"
	"sync/atomic"
	"time"
)

// VerifDir is /verif unless VERIF_DIR overrides it.
func VerifDir() string {
	if d := os.Getenv("VERIF_DIR"); d != "" {
		return d
	}
	return "/verif"
}

// OutDir is where evidence and replay files go: VerifDir unless VERIF_OUT overrides it (development aid).
func OutDir() string {
	if d := os.Getenv("VERIF_OUT"); d != "" {
		return d
	}
	return VerifDir()
}

// RepoDir is /repo unless VERIF_REPO overrides it (used only by development tooling that runs the
// checks against a scratch copy of the repository; the registered commands always use /repo).
func RepoDir() string {
	if d := os.Getenv("VERIF_REPO"); d != "" {
		return d
	}
	return "/repo"
}

// ---- known findings -----------------------------------------------------------------

type KFEntry struct {
	ID       string   `json:"id"`
	Property string   `json:"property"`
	Status   string   `json:"status"` // open | fixed
	What     string   `json:"what"`
	Kinds    []string `json:"kinds,omitempty"`
	Tags     []string `json:"tags,omitempty"`
	Commit   string   `json:"commit,omitempty"`
	Example  string   `json:"example,omitempty"`
}

type KFFile struct {
	Comment  string    `json:"comment,omitempty"`
	Findings []KFEntry `json:"findings"`
	Fixed    []string  `json:"fixed,omitempty"`
}

func LoadKF() ([]KFEntry, error) {
	b, err := os.ReadFile(filepath.Join(VerifDir(), "known_findings.json"))
	if err != nil {
		if os.IsNotExist(err) {
			return nil, nil
		}
		return nil, err
	}
	var f KFFile
	if err := json.Unmarshal(b, &f); err != nil {
		return nil, err
	}
	return f.Findings, nil
}

func (e *KFEntry) tagsMatch(tags map[string]bool) bool {
	for _, t := range e.Tags {
		if !tags[t] {
			return false
		}
	}
	return true
}

func (e *KFEntry) matches(prop, kind string, tags map[string]bool) bool {
	if e.Status != "open" || e.Property != prop {
		return false
	}
	if len(e.Kinds) > 0 {
		ok := false
		for _, k := range e.Kinds {
			if k == kind {
				ok = true
			}
		}
		if !ok {
			return false
		}
	}
	for _, t := range e.Tags {
		if !tags[t] {
			return false
		}
	}
	return true
}

// ---- checker ------------------------------------------------------------------------

type Violation struct {
	Kind   string
	Detail string
	Replay any // JSON-able replay body (with "replay_kind")
}

type CaseInfo struct {
	ID         string
	Tags       []string
	NonTrivial bool
	Sample     any
}

type kfStat struct {
	entry   *KFEntry
	failing int64
	example string
}

type Checker struct {
	Prop     string
	Tier     string
	Seed     int64
	Level    string
	Start    time.Time
	Deadline time.Time

	mu          sync.Mutex
	excl        sync.RWMutex
	kf          []KFEntry
	kfStats     map[string]*kfStat
	evals       int64
	nontrivial  int64
	outcomes    map[string]int64
	samples     []any
	maxSamples  int
	newViol     int64
	printed     int
	flaky       int64
	Capped      bool
	Extra       map[string]any
	Assumptions []string
	Rule        string
	States      int64
	Transitions int64
	Traces      int64
	seenNT      map[string]bool
	triage      map[string]int
	kfClass     map[string]int64
	triageEx    map[string]string
	maxPrint    int
	replayDir   string
	inflight    sync.Map // case id -> start time (watchdog)
	stuck       int64    // confirmed deadlock / hang cases
	progress    int64    // work units completed outside Case / Note (watchdog only)
}

// Tick tells the watchdog that work outside Case / Note is progressing (long sweeps).
func (c *Checker) Tick() { atomic.AddInt64(&c.progress, 1) }

// watchdog: a library call that never returns (a leaked semaphore slot, a lock that is never released, a lost
// wake-up) would leave the check hanging until the wall-clock limit and so without a verdict. When no case has
// completed for the stall limit (10 min quick / 30 min thorough; VERIF_STALL_S overrides), or one case has been in
// flight that long while the others go on, the oldest cases in flight
// are reported as a violation of kind "hang", with the stacks of the goroutines inside the library, and the check
// exits 1. The limit is two orders of magnitude above the slowest case on the unchanged tree.
func (c *Checker) watchdog() {
	limit := 600 * time.Second
	if c.Tier == "thorough" {
		limit = 1800 * time.Second
	}
	if v, err := strconv.Atoi(os.Getenv("VERIF_STALL_S")); err == nil && v > 0 {
		limit = time.Duration(v) * time.Second
	}
	last, lastChange := int64(-1), time.Now()
	lastTick, lastTickChange := int64(-1), time.Now()
	for {
		time.Sleep(5 * time.Second)
		if t := atomic.LoadInt64(&c.progress); t != lastTick {
			lastTick, lastTickChange = t, time.Now()
		}
		if n := atomic.LoadInt64(&c.evals) + atomic.LoadInt64(&c.progress); n != last {
			last, lastChange = n, time.Now()
		}
		var ids []string
		c.inflight.Range(func(k, v any) bool {
			if time.Since(v.(time.Time)) >= limit {
				ids = append(ids, k.(string))
			}
			return true
		})
		// (a) nothing at all has completed for the limit, or (b) one case has been in flight for the limit while other
		// cases still complete (a call that never returns in one worker; no long sweep reported progress meanwhile)
		stalledAll := time.Since(lastChange) >= limit
		stalledOne := len(ids) > 0 && time.Since(lastTickChange) >= limit
		if !stalledAll && !stalledOne {
			continue
		}
		sort.Strings(ids)
		if len(ids) > 8 {
			ids = ids[:8]
		}
		buf := make([]byte, 1<<22)
		buf = buf[:runtime.Stack(buf, true)]
		var keep []string
		for _, g := range strings.Split(string(buf), "\n\n") {
			if strings.Contains(g, "advancedclimatesystems/gonnx") {
				keep = append(keep, truncate(g, 1500))
			}
			if len(keep) >= 6 {
				break
			}
		}
		info := CaseInfo{ID: "hang/" + strings.Join(ids, " | "), NonTrivial: true}
		v := &Violation{Kind: "hang", Detail: fmt.Sprintf("a library call did not return: cases in flight for more than %v: %v; goroutines inside the library: %s", limit, ids, strings.Join(keep, " ||| ")),
			Replay: map[string]any{"replay_kind": "hang", "cases": ids}}
		c.Record(info, "hang", v)
		fmt.Printf("SUMMARY property=%s tier=%s evaluations=%d aborted: a library call did not return\n", c.Prop, c.Tier, atomic.LoadInt64(&c.evals))
		os.Exit(1)
	}
}

func NewChecker(prop, tier, level string) *Checker {
	c := &Checker{Prop: prop, Tier: tier, Level: level, Start: time.Now(), outcomes: map[string]int64{},
		kfStats: map[string]*kfStat{}, kfClass: map[string]int64{}, maxSamples: 6, Extra: map[string]any{}, seenNT: map[string]bool{}}
	fmt.Sscan(os.Getenv("VERIF_SEED"), &c.Seed)
	kf, err := LoadKF()
	if err != nil {
		fmt.Fprintf(os.Stderr, "HARNESS-ERROR: cannot read known_findings.json: %v\n", err)
		os.Exit(2)
	}
	c.kf = kf
	c.replayDir = filepath.Join(OutDir(), "replays", prop)
	c.maxPrint = 25
	if os.Getenv("VERIF_TRIAGE") != "" {
		c.triage, c.triageEx, c.maxPrint = map[string]int{}, map[string]string{}, 0
	}
	go c.watchdog()
	return c
}

// SetBudget sets a wall-clock cap; when it expires enumeration stops with exhaustive=false.
func (c *Checker) SetBudget(d time.Duration) { c.Deadline = c.Start.Add(d) }

func (c *Checker) Expired() bool {
	if c.Deadline.IsZero() {
		return false
	}
	if time.Now().After(c.Deadline) {
		c.mu.Lock()
		c.Capped = true
		c.mu.Unlock()
		return true
	}
	return false
}

// Case evaluates one case. run returns nil when the property held. On violation the case is
// re-executed 4 more times; only a 5/5 failure is a violation (else FLAKY harness error).
func (c *Checker) Case(info CaseInfo, run func() *Violation) {
	c.inflight.Store(info.ID, time.Now())
	defer c.inflight.Delete(info.ID)
	c.excl.RLock()
	v := run()
	c.excl.RUnlock()
	atomic.AddInt64(&c.evals, 1)
	kind := "ok"
	if v != nil && strings.HasPrefix(v.Kind, "ok") {
		kind = v.Kind
		v = nil
	}
	if v != nil {
		kind = v.Kind
		// re-execute 4 more times with every other worker paused (no concurrent library calls)
		c.excl.Lock()
		var serial []*Violation
		reruns := 4
		if v.Kind == "deadlock" || v.Kind == "hang" {
			reruns = 1 // every such verdict costs the full deadlock time-out; one confirmation is enough
		}
		for i := 0; i < reruns; i++ {
			v2 := run()
			if v2 != nil && strings.HasPrefix(v2.Kind, "ok") {
				v2 = nil
			}
			serial = append(serial, v2)
		}
		c.excl.Unlock()
		consistent := true
		for _, s2 := range serial[1:] {
			if (s2 == nil) != (serial[0] == nil) || (s2 != nil && s2.Kind != serial[0].Kind) {
				consistent = false
			}
		}
		switch {
		case consistent && serial[0] != nil && serial[0].Kind == v.Kind:
		case consistent && serial[0] != nil:
			v = serial[0] // deterministic violation; the first (concurrent) run merely showed it differently
			kind = v.Kind
		case consistent:
			// fails only while other operator calls run concurrently in this process: the library
			// shares mutable state between independent calls
			v = &Violation{Kind: "concurrent-interference", Replay: v.Replay,
				Detail: "passes when executed alone but failed while other, independent operator/model calls were running concurrently in other goroutines (shared mutable state in the library): " + v.Kind + ": " + v.Detail}
			kind = v.Kind
		default:
			atomic.AddInt64(&c.flaky, 1)
			c.mu.Lock()
			fmt.Printf("FLAKY: property=%s case=%s first=%s/%s\n", c.Prop, info.ID, v.Kind, truncate(v.Detail, 200))
			c.mu.Unlock()
			kind = "flaky"
			v = nil
		}
	}
	c.Record(info, kind, v)
	if v != nil && (v.Kind == "deadlock" || v.Kind == "hang") && atomic.AddInt64(&c.stuck, 1) >= 3 {
		// calls that never return: every further case would sit out the same time-outs and the check would end at the
		// wall-clock limit without a verdict. Three confirmed cases are the verdict.
		fmt.Printf("SUMMARY property=%s tier=%s evaluations=%d aborted: library calls do not return (3 confirmed cases)\n", c.Prop, c.Tier, atomic.LoadInt64(&c.evals))
		os.Exit(1)
	}
}

// Note registers a case that was evaluated outside Case() (counts as one evaluation).
func (c *Checker) Note(info CaseInfo, kind string, v *Violation) {
	atomic.AddInt64(&c.evals, 1)
	c.Record(info, kind, v)
}

// Record registers an already-evaluated case.
func (c *Checker) Record(info CaseInfo, kind string, v *Violation) {
	c.mu.Lock()
	defer c.mu.Unlock()
	c.outcomes[kind]++
	if info.NonTrivial && !c.seenNT[info.ID] {
		c.seenNT[info.ID] = true
		c.nontrivial++
	}
	if info.Sample != nil && len(c.samples) < c.maxSamples && (len(c.samples) == 0 || info.NonTrivial) {
		c.samples = append(c.samples, info.Sample)
	}
	tags := map[string]bool{}
	for _, t := range info.Tags {
		tags[t] = true
	}
	// tightness bookkeeping: how many explored cases fall into the tag class of each open entry
	for i := range c.kf {
		e := &c.kf[i]
		if e.Status == "open" && e.Property == c.Prop && e.tagsMatch(tags) {
			c.kfClass[e.ID]++
		}
	}
	if v == nil {
		return
	}
	for i := range c.kf {
		e := &c.kf[i]
		if e.matches(c.Prop, v.Kind, tags) {
			st := c.kfStats[e.ID]
			if st == nil {
				st = &kfStat{entry: e, example: info.ID + ": " + v.Detail}
				c.kfStats[e.ID] = st
			}
			st.failing++
			return
		}
	}
	c.newViol++
	if c.triage != nil {
		var kt []string
		drop := strings.Split(os.Getenv("VERIF_TRIAGE_DROP"), ",")
	tagLoop:
		for _, t := range info.Tags {
			for _, d := range drop {
				if d != "" && strings.HasPrefix(t, d) {
					continue tagLoop
				}
			}
			if os.Getenv("VERIF_TRIAGE") == "full" || !(strings.HasPrefix(t, "dtype=") || strings.HasPrefix(t, "rank") || strings.HasPrefix(t, "route=") || strings.HasPrefix(t, "to=") || strings.HasPrefix(t, "vtype=") || strings.HasPrefix(t, "enc=")) {
				kt = append(kt, t)
			}
		}
		key := v.Kind + " " + fmt.Sprint(kt)
		c.triage[key]++
		if _, ok := c.triageEx[key]; !ok {
			c.triageEx[key] = info.ID + " :: " + truncate(v.Detail, 300)
		}
	}
	if c.printed < c.maxPrint {
		c.printed++
		path := c.writeReplay(info, v)
		fmt.Printf("VIOLATION property=%s replay=%s\n", c.Prop, path)
		fmt.Printf("  case=%s kind=%s tags=%v\n  %s\n", info.ID, v.Kind, info.Tags, truncate(v.Detail, 600))
	}
}

func truncate(s string, n int) string {
	if len(s) > n {
		return s[:n] + "..."
	}
	return s
}

func sanitize(s string) string {
	var b strings.Builder
	for _, r := range s {
		switch {
		case r >= 'a' && r <= 'z', r >= 'A' && r <= 'Z', r >= '0' && r <= '9', r == '-', r == '_', r == '.':
			b.WriteRune(r)
		default:
			b.WriteByte('_')
		}
	}
	out := b.String()
	if len(out) > 120 {
		out = out[:120]
	}
	return out
}

func (c *Checker) writeReplay(info CaseInfo, v *Violation) string {
	os.MkdirAll(c.replayDir, 0o755)
	path := filepath.Join(c.replayDir, fmt.Sprintf("%s-%03d-%s.json", c.Tier, c.printed, sanitize(info.ID)))
	body := map[string]any{"property": c.Prop, "case_id": info.ID, "tags": info.Tags, "kind": v.Kind, "detail": v.Detail, "replay": v.Replay}
	b, _ := json.MarshalIndent(body, "", " ")
	os.WriteFile(path, b, 0o644)
	return path
}

// OK marks a passing case with an outcome class (so evidence shows distinct observed outcomes).
func OK(class string) *Violation { return &Violation{Kind: "ok:" + class} }

// AddStates / AddTransitions for explicit-state style checks.
func (c *Checker) AddStates(n int64)      { atomic.AddInt64(&c.States, n) }
func (c *Checker) AddTransitions(n int64) { atomic.AddInt64(&c.Transitions, n) }
func (c *Checker) AddTraces(n int64)      { atomic.AddInt64(&c.Traces, n) }

// ParallelFor runs f(i) for i in [0,n) on all cores; stops early when the budget expires.
func (c *Checker) ParallelFor(n int, f func(i int)) {
	workers := runtime.NumCPU()
	if w := os.Getenv("VERIF_WORKERS"); w != "" {
		fmt.Sscan(w, &workers)
	}
	if workers > n {
		workers = n
	}
	if workers < 1 {
		workers = 1
	}
	var next int64 = -1
	var wg sync.WaitGroup
	for w := 0; w < workers; w++ {
		wg.Add(1)
		go func() {
			defer wg.Done()
			for {
				i := int(atomic.AddInt64(&next, 1))
				if i >= n {
					return
				}
				if i%64 == 0 && c.Expired() {
					return
				}
				f(i)
			}
		}()
	}
	wg.Wait()
}

// HarnessError aborts with exit 2 (never a verdict about gonnx).
func HarnessError(format string, a ...any) {
	fmt.Printf("HARNESS-ERROR: "+format+"\n", a...)
	os.Exit(2)
}

// Finish writes the evidence file, prints KNOWN-FINDING lines and returns the exit code.
func (c *Checker) Finish() int {
	c.mu.Lock()
	defer c.mu.Unlock()
	wall := time.Since(c.Start).Seconds()
	var ids []string
	for id := range c.kfStats {
		ids = append(ids, id)
	}
	sort.Strings(ids)
	var kfOut []map[string]any
	for _, id := range ids {
		st := c.kfStats[id]
		fmt.Printf("KNOWN-FINDING: property=%s %s [%s] (%d cases; e.g. %s)\n", c.Prop, st.entry.What, id, st.failing, truncate(st.example, 200))
		kfOut = append(kfOut, map[string]any{"id": id, "failing_cases": st.failing, "cases_in_tag_class": c.kfClass[id], "example": truncate(st.example, 300)})
		if c.kfClass[id] > st.failing {
			fmt.Printf("  note: %s: %d of the %d explored cases in its tag class fail (the others hold; the entry suppresses only failures of kinds %v)\n", id, st.failing, c.kfClass[id], st.entry.Kinds)
		}
	}
	if c.triage != nil {
		var keys []string
		for k := range c.triage {
			keys = append(keys, k)
		}
		sort.Strings(keys)
		for _, k := range keys {
			fmt.Printf("TRIAGE %6d  %s\n        e.g. %s\n", c.triage[k], k, c.triageEx[k])
		}
	}
	cov := map[string]any{}
	for k, v := range c.Extra {
		cov[k] = v
	}
	cov["evaluations"] = c.evals
	cov["distinct_nontrivial"] = c.nontrivial
	cov["rule"] = c.Rule
	if len(c.samples) == 0 {
		c.samples = []any{"(no sample recorded)"}
	}
	cov["samples"] = c.samples
	cov["exhaustive"] = !c.Capped
	if c.Capped {
		cov["cap"] = fmt.Sprintf("wall-clock budget reached after %.0fs; enumeration is simplest-first, everything before the cap was fully covered", wall)
	}
	cov["outcomes"] = c.outcomes
	cov["distinct_outcomes"] = len(c.outcomes)
	if kfOut != nil {
		cov["known_findings"] = kfOut
	}
	if c.Level == "model_checking" {
		if c.States < 1 {
			c.States = 1
		}
		if c.Transitions < 1 {
			c.Transitions = c.evals
		}
		if c.Traces < 1 {
			c.Traces = c.evals
		}
		cov["states"] = c.States
		cov["transitions"] = c.Transitions
		cov["traces_validated_against_impl"] = c.Traces
	}
	ev := map[string]any{
		"property_id": c.Prop, "tier": c.Tier, "seed": c.Seed, "level": c.Level, "coverage": cov,
		"assumptions": c.Assumptions, "wall_s": wall, "violations": c.newViol,
	}
	if c.Assumptions == nil {
		ev["assumptions"] = []string{}
	}
	b, _ := json.MarshalIndent(ev, "", " ")
	dir := filepath.Join(OutDir(), "evidence")
	os.MkdirAll(dir, 0o755)
	name := c.Prop + ".json"
	if os.Getenv("VERIF_ONLY") != "" || os.Getenv("VERIF_TRIAGE") != "" {
		name = c.Prop + ".partial-debug-run.json" // a filtered / triage run must not replace the evidence of a full run
	}
	if err := os.WriteFile(filepath.Join(dir, name), b, 0o644); err != nil {
		HarnessError("cannot write evidence: %v", err)
	}
	fmt.Printf("SUMMARY property=%s tier=%s evaluations=%d nontrivial=%d outcomes=%v new_violations=%d known=%d flaky=%d exhaustive=%v wall=%.1fs\n",
		c.Prop, c.Tier, c.evals, c.nontrivial, c.outcomes, c.newViol, len(ids), c.flaky, !c.Capped, wall)
	if c.newViol > 0 {
		return 1
	}
	if c.flaky > 0 {
		fmt.Printf("HARNESS-ERROR: %d flaky cases\n", c.flaky)
		return 2
	}
	return 0
}
