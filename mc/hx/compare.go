package hx

import (
	"fmt"
	"math"

	"verifmc/ref"
)

// Cmp selects the value comparison mode.
type Cmp struct {
	Mode string  `json:"mode"` // bits | num | ulp | dot | tol
	Ulps int     `json:"ulps,omitempty"`
	Rel  float64 `json:"rel,omitempty"`
	Abs  float64 `json:"abs,omitempty"`
}

var (
	Bits = Cmp{Mode: "bits"}
	Num  = Cmp{Mode: "num"}
	Dot  = Cmp{Mode: "dot"}
)

var ShapeOnly = Cmp{Mode: "shape"}

func Ulp(k int) Cmp            { return Cmp{Mode: "ulp", Ulps: k} }
func Tol(rel, abs float64) Cmp { return Cmp{Mode: "tol", Rel: rel, Abs: abs} }

func isNaNBits(dt ref.DT, b uint64) bool {
	if dt == ref.F32 {
		return math.IsNaN(float64(math.Float32frombits(uint32(b))))
	}
	if dt == ref.F64 {
		return math.IsNaN(math.Float64frombits(b))
	}
	return false
}

func ulpOf(dt ref.DT, x float64) float64 {
	ax := math.Abs(x)
	if dt == ref.F32 {
		if ax < 1.1754944e-38 {
			return 1.401298464324817e-45
		}
		_, e := math.Frexp(ax)
		return math.Ldexp(1, e-24)
	}
	if ax < 2.2250738585072014e-308 {
		return 5e-324
	}
	_, e := math.Frexp(ax)
	return math.Ldexp(1, e-53)
}

func eps(dt ref.DT) float64 {
	if dt == ref.F32 {
		return 1.0 / (1 << 24)
	}
	return 1.0 / (1 << 53)
}

// CompareT compares an implementation output with the reference. kind is "" when equal,
// else wrong-shape / wrong-dtype / wrong-value / nil-output.
func CompareT(got, exp *ref.T, c Cmp) (kind, msg string) {
	if exp == nil {
		if got != nil {
			return "wrong-value", "expected absent output, got a tensor"
		}
		return "", ""
	}
	if got == nil {
		return "nil-output", "output is nil"
	}
	if got.DT != exp.DT {
		return "wrong-dtype", fmt.Sprintf("dtype %s, expected %s", got.DT, exp.DT)
	}
	if !ref.ShapeEq(got.Shape, exp.Shape) {
		return "wrong-shape", fmt.Sprintf("shape %v, expected %v", got.Shape, exp.Shape)
	}
	if len(got.V) != len(exp.V) {
		return "wrong-shape", fmt.Sprintf("%d elements, expected %d", len(got.V), len(exp.V))
	}
	if c.Mode == "shape" {
		return "", ""
	}
	for i := range exp.V {
		g, e := got.V[i], exp.V[i]
		if g == e {
			continue
		}
		if !exp.DT.IsFloat() {
			return "wrong-value", fmt.Sprintf("element %d = %#x, expected %#x", i, g, e)
		}
		gn, en := isNaNBits(exp.DT, g), isNaNBits(exp.DT, e)
		if gn && en {
			continue
		}
		gf, ef := ref.DecF(exp.DT, g), ref.DecF(exp.DT, e)
		bad := func() (string, string) {
			return "wrong-value", fmt.Sprintf("element %d = %g, expected %g (mode %s)", i, gf, ef, c.Mode)
		}
		if gn != en {
			return bad()
		}
		switch c.Mode {
		case "bits":
			return bad()
		case "num":
			if gf == 0 && ef == 0 {
				continue
			}
			return bad()
		case "ulp":
			if math.IsInf(gf, 0) || math.IsInf(ef, 0) {
				// overflow boundary: accept Inf vs a value within k ulps of max
				mx := math.MaxFloat64
				if exp.DT == ref.F32 {
					mx = math.MaxFloat32
				}
				fin := gf
				if math.IsInf(gf, 0) {
					fin = ef
				}
				inf := gf
				if !math.IsInf(gf, 0) {
					inf = ef
				}
				if !math.IsInf(fin, 0) && math.Signbit(fin) == math.Signbit(inf) && mx-math.Abs(fin) <= float64(c.Ulps)*ulpOf(exp.DT, mx) {
					continue
				}
				return bad()
			}
			tiny := 1.1754944e-38
			if exp.DT == ref.F64 {
				tiny = 2.2250738585072014e-308
			}
			d := math.Abs(gf - ef)
			if d <= float64(c.Ulps)*ulpOf(exp.DT, ef) || d <= tiny {
				continue
			}
			return bad()
		case "dot":
			n := exp.N
			if n < 1 {
				n = 1
			}
			s := math.Abs(ef)
			if exp.Mag != nil {
				s = exp.Mag[i]
			}
			u := eps(exp.DT)
			gamma := float64(n+4) * u / (1 - float64(n+4)*u)
			bound := gamma*s + 4*ulpOf(exp.DT, ef) + 1e-37
			if math.IsInf(ef, 0) || math.IsInf(gf, 0) {
				if gf == ef {
					continue
				}
				return bad()
			}
			if math.Abs(gf-ef) <= bound {
				continue
			}
			return "wrong-value", fmt.Sprintf("element %d = %g, expected %g (|diff| %g > dot bound %g)", i, gf, ef, math.Abs(gf-ef), bound)
		case "tol":
			if math.IsInf(ef, 0) || math.IsInf(gf, 0) {
				return bad()
			}
			if math.Abs(gf-ef) <= c.Abs+c.Rel*math.Abs(ef) {
				continue
			}
			return bad()
		default:
			return bad()
		}
	}
	return "", ""
}

// Domain of a case w.r.t. the property statement.
type Domain string

const (
	DCompute Domain = "compute" // must match the reference
	DRefuse  Domain = "refuse"  // must match the reference or be refused with an error
	DError   Domain = "error"   // must be refused with an error
	DNoPanic Domain = "nopanic" // anything but a panic
)

// Judge classifies a result. exp are the reference outputs (ignored for DError / DNoPanic).
// Returns kind "" when acceptable.
func Judge(dom Domain, r Result, exp []*ref.T, c Cmp) (kind, detail string) {
	if r.Panic != "" {
		return "panic", r.Panic
	}
	if r.Mutated != "" {
		return "mutated-input", r.Mutated
	}
	if r.Err == nil && r.ReadErr == "" {
		// success with a nil tensor among the results is wrong in every domain
		for i, o := range r.Outs {
			if o == nil {
				return "nil-output", fmt.Sprintf("no error, but output %d is nil", i)
			}
		}
	}
	switch dom {
	case DNoPanic:
		return "", ""
	case DError:
		if r.Err == nil {
			return "not-refused", fmt.Sprintf("expected an error, got outputs %v", r.Outs)
		}
		return "", ""
	case DRefuse:
		if r.Err != nil {
			return "", ""
		}
	case DCompute:
		if r.Err != nil {
			return "refused", fmt.Sprintf("refused (%s): %v", r.Phase, r.Err)
		}
	}
	if r.ReadErr != "" {
		return "unreadable-output", r.ReadErr
	}
	if len(r.Outs) != len(exp) {
		return "wrong-count", fmt.Sprintf("%d outputs, expected %d", len(r.Outs), len(exp))
	}
	for i := range exp {
		if k, m := CompareT(r.Outs[i], exp[i], c); k != "" {
			return k, fmt.Sprintf("output %d: %s", i, m)
		}
	}
	return "", ""
}
