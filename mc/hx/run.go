package hx

import (
	"errors"
	"fmt"
	"reflect"
	"runtime"
	"runtime/debug"
	"strings"

	gonnx "github.com/advancedclimatesystems/gonnx"
	"github.com/advancedclimatesystems/gonnx/onnx"
	"github.com/advancedclimatesystems/gonnx/ops"
	"github.com/advancedclimatesystems/gonnx/ops/opset13"
	"gorgonia.org/tensor"
	"verifmc/ref"
)

// Result is what the implementation did for one case.
type Result struct {
	Outs     []*ref.T // logical values of the outputs (nil entries for nil tensors)
	Err      error    // returned error
	Panic    string   // recovered panic (with trimmed stack)
	Phase    string   // get | init | validate | apply | bind | load | run | read
	Mutated  string   // non-empty: an input tensor was modified (description)
	ReadErr  string   // output could not be read back
	OutNames []string
}

func (r Result) Refused() bool { return r.Err != nil && r.Panic == "" }

func trimStack(s string) string {
	lines := strings.Split(s, "\n")
	var keep []string
	for i := 0; i < len(lines); i++ {
		l := lines[i]
		if strings.Contains(l, "gonnx") || strings.Contains(l, "gorgonia") {
			keep = append(keep, strings.TrimSpace(l))
		}
		if len(keep) >= 12 {
			break
		}
	}
	return strings.Join(keep, " | ")
}

func catch(r *Result, phase *string) {
	if p := recover(); p != nil {
		r.Panic = fmt.Sprintf("%v @%s :: %s", p, *phase, trimStack(string(debug.Stack())))
		r.Phase = *phase
	}
}

// OpCase describes one operator invocation (serialisable).
type OpCase struct {
	Op     string   `json:"op"`
	Attrs  []Attr   `json:"attrs,omitempty"`
	Inputs []*TJ    `json:"inputs"` // nil = absent optional input
	NOut   int      `json:"n_out"`
	Route  string   `json:"route"`           // op | model | model-init (all non-nil inputs after the first as initializers)
	Init   []bool   `json:"init,omitempty"`  // per input: supply as initializer (model routes)
	Trail  bool     `json:"trail,omitempty"` // drop trailing absent inputs instead of empty names
	OutNm  []string `json:"out_names,omitempty"`
	Dyn    bool     `json:"dyn,omitempty"` // model routes: declare every graph-input axis symbolic instead of fixed
	// op route: input ViewPos (when ViewKind != "") is handed over as a non-contiguous tensor holding the same logical
	// values: "window" = a column window sliced out of a tensor whose last axis is one longer; "lazyT" = a rank-2
	// tensor carrying a pending (not yet materialised) transpose
	ViewKind string `json:"view_kind,omitempty"`
	ViewPos  int    `json:"view_pos,omitempty"`
}

// ViewOf builds the non-contiguous presentation of t described by kind (nil when kind does not apply to t).
func ViewOf(t *ref.T, kind string) tensor.Tensor {
	r := len(t.Shape)
	switch kind {
	case "window":
		if r == 0 || len(t.V) < 2 || NRows(t) < 2 {
			return nil
		}
		big := append([]int{}, t.Shape...)
		big[r-1]++
		bt := ref.New(t.DT, big...)
		for i := range bt.V {
			c := ref.Unravel(i, big)
			if c[r-1] < t.Shape[r-1] {
				bt.V[i] = t.V[ref.Ravel(c, t.Shape)]
			} else {
				bt.V[i] = t.V[0]
			}
		}
		sl := make([]tensor.Slice, r)
		sl[r-1] = tensor.S(0, t.Shape[r-1])
		v, err := ToG(bt).Slice(sl...)
		if err != nil {
			return nil
		}
		return v
	case "lazyT":
		if r != 2 || t.Shape[0] < 2 || t.Shape[1] < 2 {
			return nil
		}
		tt := ref.New(t.DT, t.Shape[1], t.Shape[0])
		for i := 0; i < t.Shape[0]; i++ {
			for j := 0; j < t.Shape[1]; j++ {
				tt.V[j*t.Shape[0]+i] = t.V[i*t.Shape[1]+j]
			}
		}
		g := ToG(tt)
		d, ok := g.(*tensor.Dense)
		if !ok || d.T() != nil {
			return nil
		}
		return d
	}
	return nil
}

// NRows: number of rows of the last axis.
func NRows(t *ref.T) int {
	n := 1
	for _, e := range t.Shape[:len(t.Shape)-1] {
		n *= e
	}
	return n
}

func NodeForCase(c *OpCase) *onnx.NodeProto {
	var ins []string
	for i, t := range c.Inputs {
		if t == nil {
			ins = append(ins, "")
		} else {
			ins = append(ins, fmt.Sprintf("in%d", i))
		}
	}
	if c.Trail {
		for len(ins) > 0 && ins[len(ins)-1] == "" {
			ins = ins[:len(ins)-1]
		}
	}
	outs := c.OutNm
	if outs == nil {
		for i := 0; i < c.NOut; i++ {
			outs = append(outs, fmt.Sprintf("out%d", i))
		}
	}
	return Node(c.Op, ins, outs, c.Attrs)
}

// RunOpTensors drives Get -> Init -> ValidateInputs -> Apply on the real operator.
func RunOpTensors(opName string, node *onnx.NodeProto, inputs []tensor.Tensor) (res Result) {
	phase := "get"
	defer catch(&res, &phase)
	op, err := opset13.GetOperator(opName)
	if err != nil {
		res.Err, res.Phase = err, phase
		return
	}
	phase = "init"
	if err := op.Init(node); err != nil {
		res.Err, res.Phase = err, phase
		return
	}
	phase = "validate"
	vin, err := op.ValidateInputs(inputs)
	if err != nil {
		res.Err, res.Phase = err, phase
		return
	}
	phase = "apply"
	outs, err := op.Apply(vin)
	if err != nil {
		res.Err, res.Phase = err, phase
		return
	}
	phase = "read"
	readOuts(&res, outs)
	return
}

func readOuts(res *Result, outs []tensor.Tensor) {
	res.Outs = make([]*ref.T, len(outs))
	for i, o := range outs {
		if o == nil {
			continue
		}
		t, err := FromG(o)
		if err != nil {
			res.ReadErr = fmt.Sprintf("output %d: %v", i, err)
			continue
		}
		// a result is a plain tensor: its backing array read in order (what Data() gives, and what gonnx's own
		// operators read) is its logical content - no pending transpose, no strided view
		if d, ok := o.(*tensor.Dense); ok && (d.RequiresIterator() || d.IsMaterializable()) && len(t.V) > 1 {
			if raw, okr := rawBits(d.Data()); okr {
				runtime.KeepAlive(d)
				same := len(raw) == len(t.V)
				for k := 0; same && k < len(raw); k++ {
					same = raw[k] == t.V[k]
				}
				if !same {
					res.ReadErr = fmt.Sprintf("output %d (shape %v) is handed out with a pending transpose / as a strided view: its Data() is not its content in row-major order", i, t.Shape)
					continue
				}
			}
		}
		res.Outs[i] = t
	}
}

// RunOp executes an OpCase through its route and checks that inputs are left untouched.
func RunOp(c *OpCase) Result {
	ins := TJsT(c.Inputs)
	switch c.Route {
	case "op-same":
		// every input position receives the very same tensor object
		t := ToG(ins[0])
		g := make([]tensor.Tensor, len(ins))
		for i := range g {
			g[i] = t
		}
		before := Snapshot(t)
		res := RunOpTensors(c.Op, NodeForCase(c), g)
		if d := before.Diff(Snapshot(t)); d != "" {
			res.Mutated = "input 0: " + d
		}
		return res
	case "model-same":
		node := NodeForCase(c)
		for i := range node.Input {
			node.Input[i] = "in0"
		}
		gr := &onnx.GraphProto{Name: "g", Node: []*onnx.NodeProto{node}}
		gr.Input = append(gr.Input, ValueInfo("in0", ins[0].DT, FixedDims(ins[0].Shape)))
		var outNames []string
		for _, o := range node.Output {
			gr.Output = append(gr.Output, ValueInfoNoShape(o))
			outNames = append(outNames, o)
		}
		return RunModelBytes(Marshal(Model(gr, 13)), map[string]*ref.T{"in0": ins[0]}, outNames)
	case "", "op":
		g := ToGs(ins)
		if c.ViewKind != "" && c.ViewPos < len(ins) && ins[c.ViewPos] != nil {
			v := ViewOf(ins[c.ViewPos], c.ViewKind)
			if v == nil {
				return Result{Err: fmt.Errorf("harness: view kind %s does not apply", c.ViewKind), Phase: "harness"}
			}
			g[c.ViewPos] = v
		}
		if c.Trail {
			for len(g) > 0 && g[len(g)-1] == nil {
				g = g[:len(g)-1]
			}
		}
		before := make([]Snap, len(g))
		for i, t := range g {
			before[i] = Snapshot(t)
		}
		res := RunOpTensors(c.Op, NodeForCase(c), g)
		for i, t := range g {
			if d := before[i].Diff(Snapshot(t)); d != "" {
				res.Mutated = fmt.Sprintf("input %d: %s", i, d)
				break
			}
		}
		return res
	default:
		return runOpAsModel(c, ins)
	}
}

// SingleNodeModel wraps the case in a one-node model; inputs flagged Init become initializers.
func SingleNodeModel(c *OpCase) ([]byte, map[string]*ref.T, []string) {
	node := NodeForCase(c)
	g := &onnx.GraphProto{Name: "g", Node: []*onnx.NodeProto{node}}
	feed := map[string]*ref.T{}
	for i, tj := range c.Inputs {
		if tj == nil {
			continue
		}
		t := tj.T()
		name := fmt.Sprintf("in%d", i)
		if i < len(c.Init) && c.Init[i] {
			g.Initializer = append(g.Initializer, TensorProto(name, t, "raw"))
			continue
		}
		if c.Dyn {
			g.Input = append(g.Input, ValueInfo(name, t.DT, SymbolicDims(len(t.Shape), name+"_d")))
		} else {
			g.Input = append(g.Input, ValueInfo(name, t.DT, FixedDims(t.Shape)))
		}
		feed[name] = t
	}
	var outNames []string
	for _, o := range node.Output {
		if o != "" {
			g.Output = append(g.Output, ValueInfoNoShape(o))
			outNames = append(outNames, o)
		}
	}
	return Marshal(Model(g, 13)), feed, outNames
}

func runOpAsModel(c *OpCase, ins []*ref.T) Result {
	b, feed, outNames := SingleNodeModel(c)
	mr := RunModelBytes(b, feed, outNames)
	return mr
}

// RunModelBytes loads model bytes and runs once; outputs are returned in outNames order.
func RunModelBytes(b []byte, feed map[string]*ref.T, outNames []string) (res Result) {
	phase := "load"
	defer catch(&res, &phase)
	m, err := gonnx.NewModelFromBytes(b)
	if err != nil {
		res.Err, res.Phase = err, phase
		return
	}
	return RunModel(m, feed, outNames)
}

// ScribbleIntrospection calls every accessor of the Model and overwrites what it returns (what a caller is handed
// is the caller's to modify: filtering a name list in place, annotating a shape). None of it may reach the Model.
func ScribbleIntrospection(m *gonnx.Model) {
	for _, names := range [][]string{m.InputNames(), m.OutputNames(), m.ParamNames()} {
		for i := range names {
			names[i] = "scribbled"
		}
		if len(names) > 1 {
			names[0], names[len(names)-1] = names[len(names)-1], names[0]
		}
		_ = append(names[:0], "shifted")
	}
	for _, shapes := range []onnx.Shapes{m.InputShapes(), m.OutputShapes()} {
		for k, sh := range shapes {
			for i := range sh {
				sh[i].IsDynamic, sh[i].Size, sh[i].Name = !sh[i].IsDynamic, sh[i].Size+5, "scribbled"
			}
			delete(shapes, k)
		}
		shapes["scribbled"] = nil
	}
}

func RunModel(m *gonnx.Model, feed map[string]*ref.T, outNames []string) (res Result) {
	phase := "introspection"
	defer catch(&res, &phase)
	ScribbleIntrospection(m)
	phase = "run"
	in := gonnx.Tensors{}
	before := map[string]Snap{}
	for k, t := range feed {
		in[k] = ToG(t)
		before[k] = Snapshot(in[k])
	}
	outs, err := m.Run(in)
	for k, t := range in {
		if d := before[k].Diff(Snapshot(t)); d != "" {
			res.Mutated = fmt.Sprintf("input %s: %s", k, d)
			break
		}
	}
	if err != nil {
		res.Err, res.Phase = err, phase
		if outs != nil {
			res.ReadErr = "outputs returned together with an error"
		}
		return
	}
	phase = "read"
	res.OutNames = outNames
	lst := make([]tensor.Tensor, len(outNames))
	for i, n := range outNames {
		t, ok := outs[n]
		if !ok {
			res.ReadErr = fmt.Sprintf("declared output %q missing from result", n)
			continue
		}
		lst[i] = t
	}
	if len(outs) != len(uniq(outNames)) {
		res.ReadErr = fmt.Sprintf("result has %d entries, %d declared", len(outs), len(uniq(outNames)))
	}
	rr := res.ReadErr
	readOuts(&res, lst)
	if rr != "" {
		res.ReadErr = rr
	}
	return
}

func uniq(s []string) map[string]bool {
	m := map[string]bool{}
	for _, x := range s {
		m[x] = true
	}
	return m
}

// IsInputError reports whether err is one of the ops input errors (count or type).
func IsInputError(err error) bool {
	var ie *ops.InputError
	return errors.As(err, &ie)
}

// RunOpReuse: one operator instance, Init once with cur's node, Apply the inputs of every case of the
// chain (results discarded, errors/panics ignored) and then cur's inputs.
func RunOpReuse(chain []*OpCase, cur *OpCase) (res Result) {
	phase := "get"
	defer catch(&res, &phase)
	op, err := opset13.GetOperator(cur.Op)
	if err != nil {
		res.Err, res.Phase = err, phase
		return
	}
	phase = "init"
	if err := op.Init(NodeForCase(cur)); err != nil {
		res.Err, res.Phase = err, phase
		return
	}
	for _, prev := range chain {
		func() {
			defer func() { recover() }()
			if vin, err := op.ValidateInputs(ToGs(TJsT(prev.Inputs))); err == nil {
				op.Apply(vin)
			}
		}()
	}
	g := ToGs(TJsT(cur.Inputs))
	phase = "validate"
	vin, err := op.ValidateInputs(g)
	if err != nil {
		res.Err, res.Phase = err, phase
		return
	}
	phase = "apply"
	outs, err := op.Apply(vin)
	if err != nil {
		res.Err, res.Phase = err, phase
		return
	}
	phase = "read"
	readOuts(&res, outs)
	return
}

// RefillG overwrites the contents of g in place (same tensor object, same backing array) with the
// values of t, which must have the same dtype and element count. Reports false when that is impossible.
func RefillG(g tensor.Tensor, t *ref.T) (ok bool) {
	defer func() {
		if recover() != nil {
			ok = false
		}
	}()
	d, isDense := g.(*tensor.Dense)
	if !isDense {
		return false
	}
	b := reflect.ValueOf(backing(t))
	if dv := reflect.ValueOf(d.Data()); dv.Kind() == reflect.Slice {
		if dv.Len() != b.Len() || dv.Type() != b.Type() {
			return false
		}
		reflect.Copy(dv, b)
		runtime.KeepAlive(d) // Data() goes through a uintptr (see ToG)
		return true
	}
	if b.Len() != 1 {
		return false
	}
	d.Set(0, b.Index(0).Interface())
	return true
}

// SameSignature: both cases have the same absent-input pattern, dtypes and shapes.
func SameSignature(a, b *OpCase) bool {
	if len(a.Inputs) != len(b.Inputs) {
		return false
	}
	for i := range a.Inputs {
		x, y := a.Inputs[i], b.Inputs[i]
		if (x == nil) != (y == nil) {
			return false
		}
		if x == nil {
			continue
		}
		if x.DT != y.DT || fmt.Sprint(x.Shape) != fmt.Sprint(y.Shape) {
			return false
		}
	}
	return true
}

// RunOpRefill: the caller's tensor objects serve prev's request, are then overwritten in place with
// cur's values (the caller's right between two requests) and serve cur's request. sameInstance selects
// whether one operator instance handles both requests or a fresh one handles the second.
func RunOpRefill(prev, cur *OpCase, sameInstance bool) (res Result) {
	phase := "get"
	defer catch(&res, &phase)
	g := ToGs(TJsT(prev.Inputs))
	op, err := opset13.GetOperator(cur.Op)
	if err != nil {
		res.Err, res.Phase = err, phase
		return
	}
	inited := false
	func() {
		defer func() { recover() }()
		if op.Init(NodeForCase(prev)) != nil {
			return
		}
		inited = true
		if vin, err := op.ValidateInputs(g); err == nil {
			op.Apply(vin)
		}
	}()
	if !inited {
		sameInstance = false
	}
	for i, tj := range cur.Inputs {
		if tj == nil {
			continue
		}
		if !RefillG(g[i], tj.T()) {
			res.Err, res.Phase = fmt.Errorf("harness: cannot refill input %d in place", i), "harness"
			return
		}
	}
	if !sameInstance {
		if op, err = opset13.GetOperator(cur.Op); err != nil {
			res.Err, res.Phase = err, phase
			return
		}
	}
	phase = "init"
	if !sameInstance {
		if err := op.Init(NodeForCase(cur)); err != nil {
			res.Err, res.Phase = err, phase
			return
		}
	}
	before := make([]Snap, len(g))
	for i, t := range g {
		before[i] = Snapshot(t)
	}
	phase = "validate"
	vin, err := op.ValidateInputs(g)
	if err != nil {
		res.Err, res.Phase = err, phase
		return
	}
	phase = "apply"
	outs, err := op.Apply(vin)
	for i, t := range g {
		if d := before[i].Diff(Snapshot(t)); d != "" {
			res.Mutated = fmt.Sprintf("input %d: %s", i, d)
			break
		}
	}
	if err != nil {
		res.Err, res.Phase = err, phase
		return
	}
	phase = "read"
	readOuts(&res, outs)
	return
}
