// Package hx is the harness glue: conversion between reference tensors and gorgonia tensors,
// deep snapshots, ONNX proto builders, runners for the real implementation, outcome
// classification, known-findings matching, evidence and replay files.
package hx

import (
	"fmt"
	"hash/fnv"
	"math"
	"runtime"
	"strconv"

	"gorgonia.org/tensor"
	"verifmc/ref"
)

var dtToG = map[ref.DT]tensor.Dtype{
	ref.U8: tensor.Uint8, ref.U16: tensor.Uint16, ref.U32: tensor.Uint32, ref.U64: tensor.Uint64,
	ref.I8: tensor.Int8, ref.I16: tensor.Int16, ref.I32: tensor.Int32, ref.I64: tensor.Int64,
	ref.F32: tensor.Float32, ref.F64: tensor.Float64, ref.C64: tensor.Complex64, ref.C128: tensor.Complex128,
	ref.Str: tensor.String, ref.Bool: tensor.Bool,
}

func GDtype(d ref.DT) tensor.Dtype { return dtToG[d] }

func DTOf(d tensor.Dtype) (ref.DT, bool) {
	for k, v := range dtToG {
		if v == d {
			return k, true
		}
	}
	return 0, false
}

func backing(t *ref.T) any {
	n := len(t.V)
	switch t.DT {
	case ref.U8:
		b := make([]uint8, n)
		for i, v := range t.V {
			b[i] = uint8(v)
		}
		return b
	case ref.U16:
		b := make([]uint16, n)
		for i, v := range t.V {
			b[i] = uint16(v)
		}
		return b
	case ref.U32:
		b := make([]uint32, n)
		for i, v := range t.V {
			b[i] = uint32(v)
		}
		return b
	case ref.U64:
		b := make([]uint64, n)
		copy(b, t.V)
		return b
	case ref.I8:
		b := make([]int8, n)
		for i, v := range t.V {
			b[i] = int8(v)
		}
		return b
	case ref.I16:
		b := make([]int16, n)
		for i, v := range t.V {
			b[i] = int16(v)
		}
		return b
	case ref.I32:
		b := make([]int32, n)
		for i, v := range t.V {
			b[i] = int32(v)
		}
		return b
	case ref.I64:
		b := make([]int64, n)
		for i, v := range t.V {
			b[i] = int64(v)
		}
		return b
	case ref.F32:
		b := make([]float32, n)
		for i, v := range t.V {
			b[i] = math.Float32frombits(uint32(v))
		}
		return b
	case ref.F64:
		b := make([]float64, n)
		for i, v := range t.V {
			b[i] = math.Float64frombits(v)
		}
		return b
	case ref.C64:
		b := make([]complex64, n)
		for i, v := range t.V {
			b[i] = complex(float32(v), float32(v)+0.5)
		}
		return b
	case ref.C128:
		b := make([]complex128, n)
		for i, v := range t.V {
			b[i] = complex(float64(v), float64(v)+0.5)
		}
		return b
	case ref.Str:
		b := make([]string, n)
		for i, v := range t.V {
			b[i] = strconv.FormatUint(v, 10)
		}
		return b
	case ref.Bool:
		b := make([]bool, n)
		for i, v := range t.V {
			b[i] = v != 0
		}
		return b
	}
	panic("hx.backing: bad dtype")
}

// ToG builds a fresh gorgonia tensor from a reference tensor (rank 0 -> scalar tensor).
func ToG(t *ref.T) tensor.Tensor {
	if t == nil {
		return nil
	}
	b := backing(t)
	// rank 0: WithShape() + a one-element backing gives the same scalar tensor as tensor.FromScalar (same shape, strides,
	// flags and storage; compared once with Snapshot), without FromScalar's internal temporary that nothing keeps
	// reachable while gorgonia holds its address as a uintptr
	g := tensor.New(tensor.WithShape(t.Shape...), tensor.WithBacking(b))
	// gorgonia v0.9.24 derives the tensor's storage from the slice through a uintptr (storage.AsByteSlice): without
	// another live reference the slice can be collected inside that window. Keep the harness's own tensors safe.
	runtime.KeepAlive(b)
	return g
}

func ToGs(ts []*ref.T) []tensor.Tensor {
	out := make([]tensor.Tensor, len(ts))
	for i, t := range ts {
		if t != nil {
			out[i] = ToG(t)
		}
	}
	return out
}

func elemBits(x any) (uint64, bool) {
	switch v := x.(type) {
	case uint8:
		return uint64(v), true
	case uint16:
		return uint64(v), true
	case uint32:
		return uint64(v), true
	case uint64:
		return v, true
	case uint:
		return uint64(v), true
	case int8:
		return uint64(int64(v)), true
	case int16:
		return uint64(int64(v)), true
	case int32:
		return uint64(int64(v)), true
	case int64:
		return uint64(v), true
	case int:
		return uint64(int64(v)), true
	case float32:
		return uint64(math.Float32bits(v)), true
	case float64:
		return math.Float64bits(v), true
	case complex64:
		if imag(v) == real(v)+0.5 && real(v) >= 0 {
			return uint64(real(v)), true
		}
		return hash64(fmt.Sprint(v)), true
	case complex128:
		if imag(v) == real(v)+0.5 && real(v) >= 0 {
			return uint64(real(v)), true
		}
		return hash64(fmt.Sprint(v)), true
	case string:
		if u, err := strconv.ParseUint(v, 10, 64); err == nil {
			return u, true
		}
		return hash64(v), true
	case bool:
		if v {
			return 1, true
		}
		return 0, true
	}
	return 0, false
}

func hash64(s string) uint64 {
	h := fnv.New64a()
	h.Write([]byte(s))
	return h.Sum64() | 1<<63
}

// rawBits returns the memory-order element bit patterns of Data() (scalar or slice).
func rawBits(data any) ([]uint64, bool) {
	switch s := data.(type) {
	case []uint8:
		o := make([]uint64, len(s))
		for i, v := range s {
			o[i] = uint64(v)
		}
		return o, true
	case []uint16:
		o := make([]uint64, len(s))
		for i, v := range s {
			o[i] = uint64(v)
		}
		return o, true
	case []uint32:
		o := make([]uint64, len(s))
		for i, v := range s {
			o[i] = uint64(v)
		}
		return o, true
	case []uint64:
		o := make([]uint64, len(s))
		copy(o, s)
		return o, true
	case []int8:
		o := make([]uint64, len(s))
		for i, v := range s {
			o[i] = uint64(int64(v))
		}
		return o, true
	case []int16:
		o := make([]uint64, len(s))
		for i, v := range s {
			o[i] = uint64(int64(v))
		}
		return o, true
	case []int32:
		o := make([]uint64, len(s))
		for i, v := range s {
			o[i] = uint64(int64(v))
		}
		return o, true
	case []int64:
		o := make([]uint64, len(s))
		for i, v := range s {
			o[i] = uint64(v)
		}
		return o, true
	case []int:
		o := make([]uint64, len(s))
		for i, v := range s {
			o[i] = uint64(int64(v))
		}
		return o, true
	case []float32:
		o := make([]uint64, len(s))
		for i, v := range s {
			o[i] = uint64(math.Float32bits(v))
		}
		return o, true
	case []float64:
		o := make([]uint64, len(s))
		for i, v := range s {
			o[i] = math.Float64bits(v)
		}
		return o, true
	case []bool:
		o := make([]uint64, len(s))
		for i, v := range s {
			if v {
				o[i] = 1
			}
		}
		return o, true
	case []complex64:
		o := make([]uint64, len(s))
		for i, v := range s {
			o[i], _ = elemBits(v)
		}
		return o, true
	case []complex128:
		o := make([]uint64, len(s))
		for i, v := range s {
			o[i], _ = elemBits(v)
		}
		return o, true
	case []string:
		o := make([]uint64, len(s))
		for i, v := range s {
			o[i], _ = elemBits(v)
		}
		return o, true
	}
	if b, ok := elemBits(data); ok {
		return []uint64{b}, true
	}
	return nil, false
}

// FromG reads a gorgonia tensor in *logical* row-major order into a reference tensor.
// The dtype `int` (gorgonia's native int) is reported as a distinct error by the caller via dtype check.
func FromG(t tensor.Tensor) (out *ref.T, err error) {
	if t == nil {
		return nil, nil
	}
	defer func() {
		if p := recover(); p != nil {
			out, err = nil, fmt.Errorf("tensor is internally inconsistent (reading it panics: %v); shape %v", p, t.Shape())
		}
	}()
	return fromG(t)
}

func fromG(t tensor.Tensor) (*ref.T, error) {
	dt, ok := DTOf(t.Dtype())
	if !ok {
		return nil, fmt.Errorf("unsupported dtype %v", t.Dtype())
	}
	shape := append([]int{}, t.Shape()...)
	if t.Shape().IsScalar() && len(shape) != 0 {
		shape = []int{}
	}
	n := ref.NElem(shape)
	out := &ref.T{DT: dt, Shape: shape}
	d, isDense := t.(*tensor.Dense)
	if isDense && !d.RequiresIterator() && !d.IsMaterializable() {
		bits, ok := rawBits(d.Data())
		runtime.KeepAlive(d) // Data() goes through a uintptr (see ToG)
		if ok && len(bits) == n {
			out.V = bits
			return out, nil
		}
	}
	// general path: coordinates
	out.V = make([]uint64, n)
	if len(shape) == 0 {
		x, err := t.At()
		if err != nil {
			// scalar Data()
			b, ok := elemBits(t.Data())
			runtime.KeepAlive(t)
			if !ok {
				return nil, fmt.Errorf("cannot read scalar: %v", err)
			}
			out.V[0] = b
			return out, nil
		}
		b, _ := elemBits(x)
		out.V[0] = b
		return out, nil
	}
	for i := 0; i < n; i++ {
		c := ref.Unravel(i, shape)
		x, err := t.At(c...)
		if err != nil {
			return nil, fmt.Errorf("At(%v) on shape %v: %v", c, shape, err)
		}
		b, ok := elemBits(x)
		if !ok {
			return nil, fmt.Errorf("unreadable element %T", x)
		}
		out.V[i] = b
	}
	return out, nil
}

// Snap is a deep snapshot of a gorgonia tensor: everything a caller could observe.
type Snap struct {
	Nil     bool
	Dtype   string
	Shape   []int
	Strides []int
	Flags   string
	Raw     []uint64 // memory order
}

func Snapshot(t tensor.Tensor) Snap {
	if t == nil {
		return Snap{Nil: true}
	}
	s := Snap{Dtype: t.Dtype().String(), Shape: append([]int{}, t.Shape()...), Strides: append([]int{}, t.Strides()...)}
	s.Flags = fmt.Sprintf("o=%v s=%v", t.DataOrder(), t.IsScalar())
	if d, ok := t.(*tensor.Dense); ok {
		s.Flags += fmt.Sprintf(" v=%v m=%v", d.IsView(), d.IsMaterializable())
	}
	raw, _ := rawBits(t.Data())
	runtime.KeepAlive(t) // Data() goes through a uintptr (see ToG)
	s.Raw = raw
	return s
}

func (a Snap) Equal(b Snap) bool {
	if a.Nil != b.Nil || a.Dtype != b.Dtype || a.Flags != b.Flags || !ref.ShapeEq(a.Shape, b.Shape) || !ref.ShapeEq(a.Strides, b.Strides) || len(a.Raw) != len(b.Raw) {
		return false
	}
	for i := range a.Raw {
		if a.Raw[i] != b.Raw[i] {
			return false
		}
	}
	return true
}

func (a Snap) Diff(b Snap) string {
	switch {
	case a.Nil != b.Nil:
		return "nil-ness changed"
	case a.Dtype != b.Dtype:
		return fmt.Sprintf("dtype %s -> %s", a.Dtype, b.Dtype)
	case !ref.ShapeEq(a.Shape, b.Shape):
		return fmt.Sprintf("shape %v -> %v", a.Shape, b.Shape)
	case !ref.ShapeEq(a.Strides, b.Strides):
		return fmt.Sprintf("strides %v -> %v", a.Strides, b.Strides)
	case a.Flags != b.Flags:
		return fmt.Sprintf("flags %s -> %s", a.Flags, b.Flags)
	case len(a.Raw) != len(b.Raw):
		return fmt.Sprintf("data length %d -> %d", len(a.Raw), len(b.Raw))
	}
	for i := range a.Raw {
		if a.Raw[i] != b.Raw[i] {
			return fmt.Sprintf("data[%d] %#x -> %#x", i, a.Raw[i], b.Raw[i])
		}
	}
	return ""
}

func (a Snap) Digest() uint64 {
	h := fnv.New64a()
	fmt.Fprintf(h, "%v|%s|%v|%v|%s|", a.Nil, a.Dtype, a.Shape, a.Strides, a.Flags)
	var buf [8]byte
	for _, v := range a.Raw {
		for k := 0; k < 8; k++ {
			buf[k] = byte(v >> (8 * k))
		}
		h.Write(buf[:])
	}
	return h.Sum64()
}
