package hx

import (
	"debug/elf"
	"hash/fnv"
	"os"
	"runtime/debug"
	"sort"
	"strings"
	"unsafe"
)

// GlobalSym is a writable package-level data symbol of the library inside this very binary.
type GlobalSym struct {
	Name string
	Addr uintptr
	Size uintptr
}

var globalSyms []GlobalSym
var globalSymsErr error
var globalSymsLoaded bool

// LibraryGlobals lists the writable data symbols (.data/.bss/.noptrdata/.noptrbss) whose name starts
// with the gonnx import path: every package-level variable of the library, including the static
// backing arrays of package-level composite literals ("..stmp_N"). The binary must be non-PIE
// (the default for go build on linux/amd64), so symbol values are absolute addresses.
func LibraryGlobals() ([]GlobalSym, error) {
	if globalSymsLoaded {
		return globalSyms, globalSymsErr
	}
	globalSymsLoaded = true
	exe, err := os.Executable()
	if err != nil {
		globalSymsErr = err
		return nil, err
	}
	f, err := elf.Open(exe)
	if err != nil {
		globalSymsErr = err
		return nil, err
	}
	defer f.Close()
	if f.Type != elf.ET_EXEC {
		globalSymsErr = os.ErrInvalid
		return nil, globalSymsErr
	}
	syms, err := f.Symbols()
	if err != nil {
		globalSymsErr = err
		return nil, err
	}
	writable := map[elf.SectionIndex]bool{}
	for i, s := range f.Sections {
		switch s.Name {
		case ".data", ".bss", ".noptrdata", ".noptrbss":
			writable[elf.SectionIndex(i)] = true
		}
	}
	const prefix = "github.com/advancedclimatesystems/gonnx"
	for _, s := range syms {
		if !writable[s.Section] || s.Size == 0 || !strings.HasPrefix(s.Name, prefix) {
			continue
		}
		if elf.ST_TYPE(s.Info) != elf.STT_OBJECT {
			continue
		}
		// runtime bookkeeping of package initialisation, not library state
		if strings.HasSuffix(s.Name, "..inittask") || strings.Contains(s.Name, ".init.") {
			continue
		}
		// compiler / runtime caches (type-assertion and interface-switch caches are filled lazily by the
		// runtime) and the lazily built protobuf file descriptor: not state of the library's own code
		if strings.Contains(s.Name, "..typeAssert") || strings.Contains(s.Name, "..interfaceSwitch") || strings.Contains(s.Name, ".file_onnx_proto3_") || strings.HasSuffix(s.Name, ".File_onnx_proto3") {
			continue
		}
		globalSyms = append(globalSyms, GlobalSym{Name: s.Name, Addr: uintptr(s.Value), Size: uintptr(s.Size)})
	}
	sort.Slice(globalSyms, func(i, j int) bool { return globalSyms[i].Name < globalSyms[j].Name })
	return globalSyms, nil
}

// GlobalsDigest hashes the current bytes of every library global, one level deep: the symbol's own bytes
// (slice / map / pointer variables contribute their header words; static backing arrays are symbols of their
// own) plus, for every word that points into the Go heap, the first bytes of its target - the element count of
// a map (first word of the runtime's map header), the leading fields of a struct, and for a (pointer, len, cap)
// triple the first len bytes of the slice's backing array (in-place writes to a package-level scratch buffer).
func GlobalsDigest() map[string]uint64 {
	syms, err := LibraryGlobals()
	if err != nil {
		return nil
	}
	out := make(map[string]uint64, len(syms))
	old := debug.SetPanicOnFault(true)
	defer debug.SetPanicOnFault(old)
	for _, s := range syms {
		h := fnv.New64a()
		raw := unsafe.Slice((*byte)(unsafe.Pointer(s.Addr)), int(s.Size))
		h.Write(raw)
		if s.Addr%8 == 0 {
			nw := int(s.Size / 8)
			words := unsafe.Slice((*uintptr)(unsafe.Pointer(s.Addr)), nw)
			for i := 0; i < nw; i++ {
				p := words[i]
				if !heapPointer(p) {
					continue
				}
				n := uintptr(16)
				if i+2 < nw && words[i+1] <= words[i+2] && words[i+2] < 1<<32 && words[i+1] > 16 {
					n = words[i+1] // slice header: at least len bytes are addressable
					if n > 1<<16 {
						n = 1 << 16
					}
				}
				derefHash(h, p, n)
			}
		}
		out[s.Name] = h.Sum64()
	}
	return out
}

// heapPointer: the address range of the Go heap arenas on linux/amd64.
func heapPointer(p uintptr) bool { return p >= 0xc000000000 && p < 0xc000000000+1<<40 && p%8 == 0 }

func derefHash(h interface{ Write([]byte) (int, error) }, p, n uintptr) {
	defer func() { recover() }() // an unmapped target (never seen for live globals) simply contributes nothing
	h.Write(unsafe.Slice((*byte)(unsafe.Pointer(p)), int(n)))
}

// GlobalsDiff lists the symbols whose bytes differ between two digests.
func GlobalsDiff(a, b map[string]uint64) []string {
	var out []string
	for k, v := range a {
		if b[k] != v {
			out = append(out, k)
		}
	}
	sort.Strings(out)
	return out
}
