package hx

import (
	"encoding/json"
	"fmt"
	"strconv"

	"verifmc/ref"
)

// TJ is the JSON form of a reference tensor: bit patterns as hex strings.
type TJ struct {
	DT    string   `json:"dt"`
	Shape []int    `json:"shape"`
	Bits  []string `json:"bits"`
	Human string   `json:"human,omitempty"`
}

func ToTJ(t *ref.T) *TJ {
	if t == nil {
		return nil
	}
	j := &TJ{DT: t.DT.String(), Shape: append([]int{}, t.Shape...), Bits: make([]string, len(t.V))}
	for i, v := range t.V {
		j.Bits[i] = strconv.FormatUint(v, 16)
	}
	if len(t.V) <= 64 {
		j.Human = t.String()
	}
	return j
}

func ToTJs(ts []*ref.T) []*TJ {
	out := make([]*TJ, len(ts))
	for i, t := range ts {
		out[i] = ToTJ(t)
	}
	return out
}

func (j *TJ) T() *ref.T {
	if j == nil {
		return nil
	}
	dt, ok := ref.DTFromName(j.DT)
	if !ok {
		panic("hx: bad dtype in TJ: " + j.DT)
	}
	t := &ref.T{DT: dt, Shape: append([]int{}, j.Shape...), V: make([]uint64, len(j.Bits))}
	if t.Shape == nil {
		t.Shape = []int{}
	}
	for i, s := range j.Bits {
		v, err := strconv.ParseUint(s, 16, 64)
		if err != nil {
			panic(fmt.Sprintf("hx: bad bits %q", s))
		}
		t.V[i] = v
	}
	return t
}

func TJsT(js []*TJ) []*ref.T {
	out := make([]*ref.T, len(js))
	for i, j := range js {
		out[i] = j.T()
	}
	return out
}

func MustJSON(v any) string {
	b, err := json.Marshal(v)
	if err != nil {
		return fmt.Sprintf("<json error %v>", err)
	}
	return string(b)
}
