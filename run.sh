#!/bin/bash
# usage: ./run.sh Cxx quick|thorough   |   ./run.sh replay <file>
# Rebuilds mc against /repo's current working tree (module replace => /repo) with the verif tag.
export GOFLAGS=-mod=mod GOPROXY=off GOSUMDB=off GOTOOLCHAIN=local
export PATH=$PATH:/usr/local/go/bin
cd "$(dirname "$0")/mc" || exit 2
cp -f /repo/go.sum go.sum 2>/dev/null
BIN=../bin/mc
mkdir -p ../bin
if ! out=$(go build -tags verif -o $BIN ./cmd/mc 2>&1); then
  echo "HARNESS-ERROR: build failed"; echo "$out"; exit 2
fi
if [ "$1" = "C17" ] && [ "${2:-${VERIF_TIER:-quick}}" = "thorough" ]; then
  # the supplementary free-running race pass needs a separately built -race binary
  go build -race -tags verif -o ../bin/mc-race ./cmd/mc >/dev/null 2>&1 || echo "note: -race build failed; race pass will be skipped"
fi
cd ..
case "$1" in
  replay) exec ./bin/mc replay "$2" ;;
  *) exec ./bin/mc check "$1" "${2:-${VERIF_TIER:-quick}}" ;;
esac
