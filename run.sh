#!/bin/bash
# usage: ./run.sh Cxx quick|thorough   |   ./run.sh replay <file>
# Rebuilds mc against /repo's current working tree (module replace => /repo) with the verif tag.
# exit 0: property held on everything explored; exit 1 + "VIOLATION property=<id> replay=<path>": violation;
# exit 2: harness error (never a verdict about gonnx).
export GOFLAGS=-mod=mod GOPROXY=off GOSUMDB=off GOTOOLCHAIN=local
export PATH=$PATH:/usr/local/go/bin
ROOT="$(cd "$(dirname "$0")" && pwd)"
cd "$ROOT/mc" || exit 2
REPO="${VERIF_REPO:-/repo}"
cp -f "$REPO/go.sum" go.sum 2>/dev/null
mkdir -p ../bin ../replays ../evidence
MODFLAG=""
BIN=../bin/mc
if [ "$REPO" != "/repo" ]; then
  # development aid only (seed matrix on scratch copies): alternative go.mod pointing at the copy
  ALT="go.alt.$(echo "$REPO" | tr '/' '_').mod"
  sed "s#=> /repo#=> $REPO#" go.mod > "$ALT"; cp -f go.sum "${ALT%.mod}.sum"
  MODFLAG="-modfile=$ALT"; BIN="../bin/mc.$(echo "$REPO" | tr '/' '_')"
fi
if ! out=$(go build $MODFLAG -tags verif -o $BIN ./cmd/mc 2>&1); then
  # /repo's working tree does not compile together with the harness (e.g. a hook-visible API changed)
  echo "HARNESS-ERROR: build failed"; echo "$out" | head -40; exit 2
fi
TIER="${2:-${VERIF_TIER:-quick}}"
if [ "$1" = "C17" ]; then
  # the supplementary free-running race pass needs a separately built -race binary
  export VERIF_RACE_BIN="$(cd .. && pwd)/bin/$(basename $BIN)-race"
  go build $MODFLAG -race -tags verif -o "$VERIF_RACE_BIN" ./cmd/mc >/dev/null 2>&1 || echo "note: -race build failed; race pass will be skipped"
  # the collector-in-the-window pass needs a build in which gorgonia's uintptr windows contain a forced collection
  # (an overlay derived from the module's own files at build time; nothing is written outside /verif)
  export VERIF_GCW_BIN="$(cd .. && pwd)/bin/$(basename $BIN)-gcw"
  GDIR="$(go list $MODFLAG -m -f '{{.Dir}}' gorgonia.org/tensor 2>/dev/null)"
  OVD="$(cd .. && pwd)/build/gcw"
  if [ -n "$GDIR" ] && python3 ../tools/gcw_overlay.py "$GDIR" "$OVD" >/dev/null 2>&1 \
     && go build $MODFLAG -tags verif -overlay "$OVD/overlay.json" -o "$VERIF_GCW_BIN" ./cmd/mc >/dev/null 2>&1; then :; else
    rm -f "$VERIF_GCW_BIN"; echo "note: gc-window build failed; that pass will be skipped"
  fi
fi
cd "$ROOT"
case "$1" in
  replay) exec ./bin/$(basename $BIN) replay "$2" ;;
esac
PROP="$1"
OUT="${VERIF_OUT:-$ROOT}"
LOG="$OUT/replays/$PROP/last-$TIER.log"
mkdir -p "$OUT/replays/$PROP"
LIMIT=2400; [ "$TIER" = "thorough" ] && LIMIT=14400
# cap the address space: a modified /repo may decode a corrupted extent and try to allocate it (the sandbox has
# no memory limit of its own). The -race binary of C17's race pass needs a huge virtual range, so no cap there.
if [ "$PROP" != "C17" ]; then ulimit -v 33554432; fi
timeout -k 10 $LIMIT ./bin/$(basename $BIN) check "$PROP" "$TIER" > "$LOG" 2>&1
rc=$?
# show the verdict lines (and a bounded amount of detail)
grep -E "^(VIOLATION|KNOWN-FINDING|SUMMARY|HARNESS-ERROR|FLAKY|  note:)" "$LOG" | head -200
grep -A2 "^VIOLATION" "$LOG" | grep -E "^  " | head -60
if [ $rc -eq 0 ] || [ $rc -eq 1 ]; then exit $rc; fi
if [ $rc -eq 124 ] || [ $rc -eq 137 ]; then
  echo "HARNESS-ERROR: check exceeded its wall-clock limit of ${LIMIT}s (no verdict)"; exit 2
fi
if grep -q "^HARNESS-ERROR" "$LOG"; then exit 2; fi
# The check process died (fatal runtime error / unrecovered panic in a goroutine the harness does not own,
# e.g. a fault inside a gorgonia worker, concurrent map writes, stack exhaustion). On the unchanged tree this
# never happens; with a modified /repo it is the library crashing under the explored inputs: report it.
CRASH="$OUT/replays/$PROP/crash-$TIER.log"
tail -n 120 "$LOG" > "$CRASH"
echo "VIOLATION property=$PROP replay=$CRASH"
echo "  the check process crashed (exit $rc): $(grep -m1 -E '^(fatal error|panic):' "$LOG" | cut -c1-200)"
exit 1
