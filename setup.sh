#!/bin/bash
# Offline setup after a fresh restore: warm the build cache and build bin/mc (plain and -race).
export GOFLAGS=-mod=mod GOPROXY=off GOSUMDB=off GOTOOLCHAIN=local
cd "$(dirname "$0")/mc" || exit 2
cp -f /repo/go.sum go.sum
mkdir -p ../bin ../evidence ../replays
go build -tags verif -o ../bin/mc ./cmd/mc || exit 2
# the race-instrumented standard library is compiled once here (C17's race pass builds bin/mc-race on every run)
go build -race -tags verif -o ../bin/mc-race ./cmd/mc || echo "note: -race build failed; C17's race pass will be skipped"
../bin/mc selfcheck || exit 2
echo "setup ok"
