#!/bin/bash
# Offline setup after a fresh restore: warm the build cache and build bin/mc (plain and -race).
export GOFLAGS=-mod=mod GOPROXY=off GOSUMDB=off GOTOOLCHAIN=local
cd "$(dirname "$0")/mc" || exit 2
cp -f /repo/go.sum go.sum
mkdir -p ../bin ../evidence ../replays
go build -tags verif -o ../bin/mc ./cmd/mc || exit 2
# the race-instrumented standard library is compiled once here (C17's race pass builds bin/mc-race on every run)
go build -race -tags verif -o ../bin/mc-race ./cmd/mc || echo "note: -race build failed; C17's race pass will be skipped"
# the overlay build of C17's collector-in-the-window pass (run.sh rebuilds it on every C17 run)
GDIR="$(go list -m -f '{{.Dir}}' gorgonia.org/tensor)"
python3 ../tools/gcw_overlay.py "$GDIR" "$(cd .. && pwd)/build/gcw" && go build -tags verif -overlay ../build/gcw/overlay.json -o ../bin/mc-gcw ./cmd/mc || echo "note: gc-window build failed; that pass of C17 will be skipped"
../bin/mc selfcheck || exit 2
echo "setup ok"
